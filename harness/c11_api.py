"""C11 — API scenarios: public constructors / accessors / options of tenpy.networks.mpo.MPO that the generated
W-tensor and term-list cases do not reach, each with a dense oracle.  A case is {'kind': 'api', 'name', 'seed'}."""
import copy
import random
import traceback
import warnings

import numpy as np

from harness import ops_common as oc
from harness import c10_model as cm
from harness import c11_lib as cl
from harness.c10_api import SIMPLE_SITES, fnum, close, mscale, rand_terms, termlist_dense

TOL = 1e-10


def rand_mpo(rng, finite=True, L=None, spec=None, n_terms=None, max_ops=3, cplx=None, herm=False, insert_all_id=True):
    """random MPO from a term list + its term-by-term dense reference function ref(n_sites)"""
    from tenpy.networks.mpo import MPOGraph
    from tenpy.networks.terms import TermList
    spec = spec or rng.choice(SIMPLE_SITES)
    site = oc.make_site(spec)
    L = L or (rng.randint(2, 5 if site.dim == 2 else 3) if finite else rng.randint(1, 3 if site.dim == 2 else 2))
    cplx = rng.random() < 0.4 if cplx is None else cplx
    hi = L - 1 if finite else L + 1
    terms, strengths = [], []
    for _ in range(n_terms or rng.randint(1, 4)):
        k = rng.randint(1, max_ops)
        i0 = rng.randrange(L)
        idx = [i0] + [rng.randint(0 if finite else i0, hi) for _ in range(k - 1)]
        ops = oc.pick_ops(rng, [site] * k)
        t = [(o, i) for o, i in zip(ops, idx)]
        s = fnum(rng, cplx)
        terms.append(t)
        strengths.append(s)
        if herm:
            terms.append([(site.get_hc_op_name(o), i) for o, i in reversed(t)])
            strengths.append(np.conj(s))
    sites = [site] * L
    with warnings.catch_warnings():
        warnings.simplefilter('ignore')
        g = MPOGraph.from_term_list(TermList(terms, np.array(strengths)), sites, 'finite' if finite else 'infinite',
                                    insert_all_id=insert_all_id, unit_cell_width=L)
        H = g.build_MPO()

    def ref(n_sites, first=0):
        """all (translates of the) terms inside sites first … first+n_sites-1"""
        mb = oc.ManyBody([site] * n_sites)
        M = mb.zero()
        for t, s in zip(terms, strengths):
            for sh in ([0] if finite else range(-n_sites - 3, (first + n_sites) // L + 3)):
                t2 = [(o, i + sh * L - first) for o, i in t]
                if all(0 <= i < n_sites for _, i in t2):
                    M = M + complex(s) * mb.product(t2)
        return oc.dense(M)
    return H, ref, site, spec, (terms, strengths)


def window(site, L, finite, cap=1100):
    if finite:
        return L
    n = 3 * L
    while site.dim ** n > cap and n > L + 1:
        n -= 1
    return n


# ---------------------------------------------------------------------------------------------


def sc_from_Wflat(rng, fails, facts):
    """MPO.from_Wflat: dense W arrays (legs p, p*, wL, wR) in the original (unsorted) basis with permute=True or in the
    internal basis with permute=False; sites with and without charges; finite and infinite"""
    from tenpy.networks.mpo import MPO
    finite = rng.random() < 0.7
    H, ref, site, spec, _ = rand_mpo(rng, finite=finite)
    L = H.L
    n = window(site, L, finite)
    want = ref(n)
    permute = rng.random() < 0.6
    perm = np.asarray(site.perm)
    Wflat = []
    for i in range(L):
        W = H.get_W(i).transpose(['p', 'p*', 'wL', 'wR']).to_ndarray()
        if permute:
            Wu = np.empty_like(W)
            Wu[np.ix_(perm, perm)] = W           # from_Wflat: internal[k] = given[perm[k]]
            W = Wu
        Wflat.append(W)
    facts['api.from_Wflat'] = True
    facts['api.from_Wflat.permute=%s' % permute] = True
    nontrivial_perm = permute and not np.all(perm == np.arange(len(perm)))
    try:
        H2 = MPO.from_Wflat([site] * L, Wflat, bc='finite' if finite else 'infinite', permute=permute,
                            legL=H.get_W(0).get_leg('wL').bunch()[1], IdL=list(H.IdL), IdR=list(H.IdR), max_range=H.max_range,
                            unit_cell_width=L)
        got = cm.mpo_window_dense(H2, n)
        ok = close(got, want, mscale(want))
        detail = f'differs by {oc.maxdiff(got, want):.3e}'
    except ValueError as e:
        ok = False
        detail = repr(e)[:200]
        if not nontrivial_perm:
            dead = any(np.any(np.all(np.abs(W) == 0, axis=(0, 1, 2))) for W in Wflat)
            if dead and site.leg.chinfo.qnumber > 0 and 'wrong sector' in str(e):
                # a virtual index that no non-zero entry leads to (an operator product that vanishes, e.g. 'NN B' for
                # Nmax=1): its charge cannot be detected from the entries; explicit error
                facts['api.from_Wflat.undetectable_charge_refused'] = True
                return
            if not finite and 'incompatible LegCharge' in str(e) and site.leg.chinfo.qnumber > 0:
                # charges of the virtual legs are detected site by site from the non-zero entries; for an infinite MPO
                # the detected last leg can differ from the first one on indices the entries do not fix: not an input
                # from_Wflat can digest (explicit error)
                facts['api.from_Wflat.infinite_leg_detection_refused'] = True
                return
            raise
    if not ok:
        sig = 'api.from_Wflat.permute_only_first_physical_leg' if nontrivial_perm else 'api.from_Wflat.mismatch'
        fails.append(('property', sig, f'{spec} perm={perm.tolist()} permute={permute} finite={finite}: {detail}'))


def sc_from_wavepacket(rng, fails, facts):
    """MPO.from_wavepacket: sum_i coeff[i] op_i (fermionic operators with their Jordan-Wigner string)"""
    from tenpy.networks.mpo import MPO
    spec = rng.choice(SIMPLE_SITES)
    site = oc.make_site(spec)
    L = rng.randint(2, 6 if site.dim == 2 else 4)
    ops = [o for o in oc.candidate_ops(site) if o != 'Id']
    op = rng.choice(ops)
    coeff = np.array([fnum(rng, True) for _ in range(L)])
    for i in range(L):
        r = rng.random()
        if r < 0.2:
            coeff[i] = 0.0
        elif r < 0.3:
            coeff[i] = 1e-17          # below eps: dropped
    if not np.any(np.abs(coeff) > 1e-15):
        coeff[rng.randrange(L)] = 1.0
    facts['api.from_wavepacket'] = True
    lead = int(np.nonzero(np.abs(coeff) >= 1e-15)[0][0])
    charged_op = bool(np.any(site.get_op(op).qtotal != 0))
    try:
        H = MPO.from_wavepacket([site] * L, coeff, op, unit_cell_width=L)
    except ValueError as e:
        if lead > 0 and "can't derive flat charge" in str(e):
            fails.append(('property', 'api.from_wavepacket.leading_coefficient_below_eps',
                          f'{spec} op={op} coeff={coeff.tolist()}: {e!r}'[:400]))
            return
        raise
    mb = oc.ManyBody([site] * L)
    want = mb.zero()
    for i in range(L):
        if abs(coeff[i]) >= 1e-15:
            want = want + coeff[i] * mb.full(i, op)
    want = oc.dense(want)
    got = cm.mpo_window_dense(H, L)
    if not close(got, want, mscale(want)):
        fails.append(('property', 'api.from_wavepacket.mismatch', f'{spec} op={op} coeff={coeff.tolist()}: differs by {oc.maxdiff(got, want):.3e}'))
    if max(H.chi) > 2:
        fails.append(('property', 'api.from_wavepacket.chi', f'{H.chi}'))


def sc_accessors(rng, fails, facts):
    """get_W / set_W / get_IdL / get_IdR / copy / make_U dispatch"""
    finite = rng.random() < 0.6
    H, ref, site, spec, _ = rand_mpo(rng, finite=finite, herm=True)
    L = H.L
    n = window(site, L, finite)
    want = ref(n)
    sc = mscale(want)
    facts['api.accessors'] = True
    H2 = H.copy()
    i = rng.randrange(L)
    W = H2.get_W(i, copy=True)
    W *= 2.0
    if not close(cm.mpo_window_dense(H2, n), want, sc):
        fails.append(('property', 'api.get_W.copy_not_independent', 'modifying get_W(i, copy=True) changed the MPO'))
    if finite:
        # every path passes every site once: scaling one W scales the operator
        H2.set_W(i, W)
        if not close(cm.mpo_window_dense(H2, n), 2.0 * want, sc) or not close(cm.mpo_window_dense(H, n), want, sc):
            fails.append(('property', 'api.set_W.mismatch', 'set_W(i, 2 W) is not 2 H (or changed the original of the copy)'))
    for j in (0, L - 1, L, 2 * L + 1, -1):
        if finite and not 0 <= j < L:
            continue
        if H.get_IdL(j) != H.IdL[j % L] or H.get_IdR(j) != H.IdR[j % L + 1]:
            fails.append(('property', 'api.get_IdL_IdR', f'site {j}: {H.get_IdL(j)}, {H.get_IdR(j)}'))
    if not finite:
        # W of a site in another unit cell is the W of the unit cell (no charges shifted for these sites)
        a = H.get_W(i + 2 * L).to_ndarray()
        if not close(a, H.get_W(i).to_ndarray()):
            fails.append(('property', 'api.get_W.other_unit_cell', f'site {i + 2 * L}'))
    # make_U
    dt = rng.choice([0.05, -0.1j, 0.1])
    for approx, direct in (('I', H.make_U_I), ('II', H.make_U_II)):
        U = H.make_U(dt, approx)
        if not close(cm.mpo_window_dense(U, n), cm.mpo_window_dense(direct(dt), n)):
            fails.append(('property', 'api.make_U.dispatch', approx))
    try:
        H.make_U(dt, 'III')
        fails.append(('property', 'api.make_U.no_error', 'unknown approximation accepted'))
    except ValueError:
        pass
    if finite:
        import scipy.linalg
        hn = max(1.0, float(np.linalg.norm(want, 2)))
        t = 0.02 / hn
        e1 = np.linalg.norm(cm.mpo_window_dense(H.make_U(-1j * t, 'II'), n) - scipy.linalg.expm(-1j * t * want))
        e0 = np.linalg.norm(np.eye(want.shape[0]) - scipy.linalg.expm(-1j * t * want))
        if e0 > 1e-9 and e1 > 0.5 * e0:
            fails.append(('property', 'api.make_U.not_a_propagator', f'|U_II - exp| = {e1:.2e}, |1 - exp| = {e0:.2e}'))


def sc_transformations(rng, fails, facts):
    """MPO.enlarge_mps_unit_cell, group_sites (any n, also not dividing L), extract_segment, sort_legcharges on MPOs with
    charges: the window operator does not change"""
    finite = rng.random() < 0.5
    H, ref, site, spec, _ = rand_mpo(rng, finite=finite, insert_all_id=True)
    L = H.L
    n = window(site, L, finite)
    want = ref(n)
    sc = mscale(want)
    facts['api.transformations'] = True
    if not close(cm.mpo_window_dense(H, n), want, sc):
        fails.append(('property', 'api.window.mismatch', 'MPO differs from the term list'))
        return
    # sort_legcharges
    H2 = H.copy()
    H2.sort_legcharges()
    facts['api.sort_legcharges'] = True
    H2.test_sanity()
    if not close(cm.mpo_window_dense(H2, n), want, sc):
        fails.append(('property', 'api.sort_legcharges.mismatch', f'{spec} finite={finite}'))
    if not finite:
        f = rng.choice([2, 3])
        H3 = H.copy()
        H3.enlarge_mps_unit_cell(f)
        facts['api.MPO.enlarge_mps_unit_cell'] = True
        H3.test_sanity()
        if H3.L != f * L or not close(cm.mpo_window_dense(H3, n), want, sc):
            fails.append(('property', 'api.MPO.enlarge_mps_unit_cell.mismatch', f'factor {f}'))
        first = rng.randint(0, 2 * L)
        ns = rng.randint(1, max(1, n - 1))
        seg = H.extract_segment(first, first + ns - 1)
        facts['api.MPO.extract_segment'] = True
        # the window starting at `first`: all sites of the unit cell are equal, terms are site dependent though
        wseg = ref(ns, first)
        if not close(cm.mpo_window_dense(seg, ns), wseg, sc):
            fails.append(('property', 'api.MPO.extract_segment.mismatch', f'[{first}, {first + ns - 1}] L={L}'))
    # group_sites
    ng = rng.choice([2, 2, 3])
    H4 = H.copy()
    if not finite and H4.L % ng != 0:
        H4.enlarge_mps_unit_cell(ng)
    H4.group_sites(ng)
    facts['api.MPO.group_sites'] = True
    facts['api.MPO.group_sites.remainder'] = bool(finite and L % ng)
    H4.test_sanity()
    if finite:
        got = cm.mpo_window_dense(H4, H4.L)
        if not close(got, want, sc):
            fails.append(('property', 'api.MPO.group_sites.mismatch', f'n={ng} L={L} finite: differs by {oc.maxdiff(got, want):.3e}'))
    else:
        k = n // ng
        if k >= 1 and site.dim ** (k * ng) <= 1100:
            got = cm.mpo_window_dense(H4, k)
            if not close(got, ref(k * ng), sc):
                fails.append(('property', 'api.MPO.group_sites.mismatch', f'n={ng} L={L} infinite'))


def sc_expectation(rng, fails, facts):
    """expectation values on infinite MPS through every route: expectation_value (dispatch on max_range), _power
    (tol / max_range options), _TM, MPOTransferMatrix.find_init_LP_RP(calc_E), MPOEnvironmentBuilder.init_LP_RP_iterative
    (calc_E); finite: expectation_value_finite with / without explicit environments, variance"""
    from tenpy.networks.mpo import MPOTransferMatrix, MPOEnvironmentBuilder, MPOEnvironment
    finite = rng.random() < 0.35
    spec = rng.choice([s for s in SIMPLE_SITES if s['kw'].get('conserve') is None] * 2 + SIMPLE_SITES)
    H, ref, site, spec, (terms, strengths) = rand_mpo(rng, finite=finite, spec=spec, herm=True, max_ops=2)
    L = H.L
    facts['api.expectation'] = True
    if finite:
        from harness.c11_check import random_state
        psi, vec = random_state([site] * L, rng.randrange(1 << 30))
        if psi is None:
            return
        Hd = ref(L)
        want = np.vdot(vec, Hd @ vec)
        sc = abs(want) + mscale(Hd)
        ev = H.expectation_value_finite(psi)
        env = MPOEnvironment(psi, H, psi)
        ev2 = env.full_contraction(rng.randrange(L))
        for name, v in (('expectation_value_finite', ev), ('MPOEnvironment.full_contraction', ev2)):
            if abs(v - want) > TOL * sc:
                fails.append(('property', f'api.{name}.mismatch', f'{v} vs {want}'))
        var = H.variance(psi)
        wv = np.vdot(vec, Hd @ (Hd @ vec)) - want ** 2
        if abs(var - wv) > 1e-9 * (abs(wv) + sc ** 2):
            fails.append(('property', 'api.variance.mismatch', f'{var} vs {wv}'))
        return
    ext = max(max(i for _, i in t) - min(i for _, i in t) + 1 for t in terms)
    n_cells = -(-(ext - 1) // L) + 1
    if site.dim ** (n_cells * L) > 1100:
        return
    H_n = ref(n_cells * L)
    H_s = ref((n_cells - 1) * L) if n_cells >= 2 else None
    psi = cm.random_imps([site] * L, rng.randrange(1 << 30), chi=3 if site.dim == 2 else 2, width=L)
    want = np.trace(cm.rho_window_dense(psi, n_cells * L) @ H_n)
    if H_s is not None and (n_cells - 1) * L >= 1:
        want = want - np.trace(cm.rho_window_dense(psi, (n_cells - 1) * L) @ H_s)
    want = complex(want) / L
    sc = max(1.0, abs(want), mscale(H_n))
    routes = {
        'expectation_value': lambda: H.expectation_value(psi),
        'expectation_value(max_range=None -> TM)': lambda: _with_max_range(H, None).expectation_value(psi),
        'expectation_value_power(tol, max_range)': lambda: H.expectation_value_power(psi, tol=1e-12, max_range=200),
        'expectation_value_TM': lambda: H.expectation_value_TM(psi, tol=1e-12),
        'find_init_LP_RP(calc_E)': lambda: MPOTransferMatrix.find_init_LP_RP(H, psi, calc_E=True)[1],
    }
    if site.leg.chinfo.qnumber == 0 or True:
        routes['init_LP_RP_iterative(calc_E)'] = lambda: MPOEnvironmentBuilder(H, psi).init_LP_RP_iterative('both', calc_E=True)[2]
    for name, fn in routes.items():
        try:
            v = fn()
        except NotImplementedError:
            continue
        except (AssertionError, ValueError) as e:
            # init_LP_RP_iterative refuses MPOs whose graph it cannot order (explicit error, documented)
            if name.startswith('init_LP_RP_iterative') and ('cycle' in str(e) or 'cannot be ordered' in str(e)):
                facts['api.expectation.init_LP_RP_iterative.refused'] = True
                continue
            raise
        v = complex(np.asarray(v).reshape(-1)[0]) if np.ndim(v) else complex(v)
        facts['api.expectation.' + name.split('(')[0]] = True
        if abs(v - want) > 1e-8 * sc:
            fails.append(('property', f'api.{name.split("(")[0]}.mismatch', f'{name}: {v!r} vs reference {want!r}'))
    # the environments found belong to the energy: LP/RP from both initialisations give the same bond energies
    env_TM = MPOTransferMatrix.find_init_LP_RP(H, psi)
    env_TM = env_TM if isinstance(env_TM, dict) else env_TM[0]
    env = MPOEnvironment(psi, H, psi, **env_TM)
    env.test_sanity()
    facts['api.MPOEnvironment.infinite'] = True
    # default initialisation of the environment of an infinite MPS (no init data: 'TM' or 'iter' is chosen inside):
    # growing LP by one unit cell adds the energy of one unit cell on its IdR component
    for method in ('TM', 'iter'):
        try:
            env2 = MPOEnvironment(psi, H, psi, force_init_method=method)
        except TypeError:
            break
        except (AssertionError, ValueError) as e:
            if method == 'iter' and ('cycle' in str(e) or 'cannot be ordered' in str(e)):
                continue
            raise
        facts['api.MPOEnvironment.infinite.init_' + method] = True
        LP = env2.get_LP(0)
        LP0 = LP.take_slice(H.get_IdR(-1), 'wR')
        for i in range(L):
            LP = env2._contract_LP(i, LP)
        LP1 = LP.take_slice(H.get_IdR(L - 1), 'wR')
        dLP = (LP1 - LP0).transpose(['vR*', 'vR']).to_ndarray()
        S = np.asarray(psi.get_SL(0))
        e_cell = np.sum(S ** 2 * np.diag(dLP)) if S.ndim == 1 else None
        if e_cell is not None and abs(e_cell / L - want) > 1e-7 * sc:
            fails.append(('property', f'api.MPOEnvironment.infinite.init_{method}.energy',
                          f'energy per site from the growth of LP: {e_cell / L!r} vs reference {want!r}'))
    # the graph of the MPO (needed by the iterative initialisation) survives sort_legcharges
    H3 = H.copy()
    try:
        E1 = MPOEnvironmentBuilder(H3, psi).init_LP_RP_iterative('both', calc_E=True)[2]
        H3.sort_legcharges()
        str(H3)
        E2 = MPOEnvironmentBuilder(H3, psi).init_LP_RP_iterative('both', calc_E=True)[2]
        facts['api.sort_legcharges.with_graph'] = True
        E2 = complex(np.asarray(E2).reshape(-1)[0])
        if abs(E2 - want) > 1e-8 * sc:
            fails.append(('property', 'api.sort_legcharges.with_graph.energy', f'{E2!r} vs {want!r} (before sorting {E1!r})'))
    except (AssertionError, ValueError, NotImplementedError) as e:
        if not ('cycle' in str(e) or 'cannot be ordered' in str(e) or isinstance(e, NotImplementedError)):
            raise


def sc_from_grids(rng, fails, facts):
    """MPO.from_grids with operator names / (name, strength) lists as grid entries, charges detected automatically
    (finite: _calc_grid_legs_finite with projection on IdL / IdR; infinite: _calc_grid_legs_infinite), Ws_qtotal default"""
    from tenpy.networks.mpo import MPO
    spec = rng.choice([s for s in SIMPLE_SITES if s['cls'] in ('SpinHalfSite', 'SpinSite', 'BosonSite')])
    site = oc.make_site(spec)
    finite = rng.random() < 0.5
    L = rng.randint(2, 4 if site.dim == 2 else 3) if finite else rng.randint(1, 2)
    # H = sum_i J A_i B_{i+1} + conj(J) B^dagger_i A^dagger_{i+1} ... written as a grid; plus a field h Z_i
    pairs = []
    for _ in range(rng.randint(1, 2)):
        ops = oc.pick_ops(rng, [site, site])
        pairs.append((ops[0], ops[1], fnum(rng, rng.random() < 0.4)))
    good = [o for o in oc.candidate_ops(site) if oc.neutral([(site, o)]) and o != 'Id']
    Z = rng.choice(good)
    h = [fnum(rng) for _ in range(L)]
    k = len(pairs)
    grids = []
    for i in range(L):
        g = [[None] * (k + 2) for _ in range(k + 2)]
        g[0][0] = 'Id'
        g[k + 1][k + 1] = 'Id'
        g[0][k + 1] = [(Z, h[i])]
        for m, (a, b, J) in enumerate(pairs):
            g[0][m + 1] = a if rng.random() < 0.5 else [(a, 1.0)]
            g[m + 1][k + 1] = [(b, J)]
        grids.append(g)
    facts['api.from_grids'] = True
    facts['api.from_grids.' + ('finite' if finite else 'infinite')] = True
    H = MPO.from_grids([site] * L, grids, 'finite' if finite else 'infinite', IdL=0, IdR=-1, max_range=1,
                       mps_unit_cell_width=L)
    H.test_sanity()
    n = window(site, L, finite)
    mb = oc.ManyBody([site] * n)
    want = mb.zero()
    for i in range(n):
        want = want + h[i % L] * mb.product([(Z, i)])
        if i + 1 < n:
            for a, b, J in pairs:
                want = want + J * mb.product([(a, i), (b, i + 1)])
    want = oc.dense(want)
    got = cm.mpo_window_dense(H, n)
    if not close(got, want, mscale(want)):
        fails.append(('property', 'api.from_grids.mismatch', f'{spec} finite={finite} pairs={pairs}: differs by {oc.maxdiff(got, want):.3e}'))
    if finite and (H.chi[0] != 1 or H.chi[-1] != 1 or H.IdR[0] is not None or H.IdL[-1] is not None):
        fails.append(('property', 'api.from_grids.finite_projection', f'chi={H.chi} IdL={H.IdL} IdR={H.IdR}'))
    # flagged explicit_plus_hc: is_hermitian is True by definition, dagger is a copy
    H2 = MPO.from_grids([site] * L, grids, 'finite' if finite else 'infinite', IdL=0, IdR=-1, max_range=1,
                        explicit_plus_hc=True, mps_unit_cell_width=L)
    got2 = cm.mpo_window_dense(H2, n)
    if not close(got2, want + want.conj().T, mscale(want)) or H2.is_hermitian() is not True or \
            not close(cm.mpo_window_dense(H2.dagger(), n), got2, mscale(want)):
        fails.append(('property', 'api.from_grids.explicit_plus_hc', 'flagged MPO is not H + H^dagger / not hermitian'))


def _with_max_range(H, mr):
    H2 = H.copy()
    H2.max_range = mr
    return H2


def sc_apply_infinite(rng, fails, facts):
    """MPO.apply_naively / apply_zipup / apply(variational is finite only) of a product operator (bond dimension 1) and
    of a sum-form MPO's U_II on an infinite MPS: the local expectation values transform exactly (product operator)"""
    from tenpy.networks.mpo import MPO
    import tenpy.linalg.np_conserved as npc
    spec = rng.choice([s for s in SIMPLE_SITES if s['kw'].get('conserve') is None])
    site = oc.make_site(spec)
    L = rng.randint(1, 3)
    d = site.dim
    rs = np.random.RandomState(rng.randrange(1 << 30))
    # product of local unitaries (the unitaries on the other sites drop out of a one-site reduced density matrix)
    locs = [np.linalg.qr(rs.normal(size=(d, d)) + 1j * rs.normal(size=(d, d)))[0] for _ in range(L)]
    Ws = [npc.Array.from_ndarray_trivial(m.reshape(1, 1, d, d), labels=['wL', 'wR', 'p', 'p*']) for m in locs]
    finite = rng.random() < 0.3 and L >= 2
    U = MPO([site] * L, Ws, 'finite' if finite else 'infinite', IdL=[0] * (L + 1), IdR=[0] * (L + 1), mps_unit_cell_width=L)
    if finite:
        from tenpy.networks.mps import MPS
        Bs = [rs.normal(size=(d, 1 if i == 0 else 2, 1 if i == L - 1 else 2)) + 0j for i in range(L)]
        psi = MPS.from_Bflat([site] * L, Bs, bc='finite', form=None, unit_cell_width=L)
        psi.canonical_form()
    else:
        psi = cm.random_imps([site] * L, rng.randrange(1 << 30), chi=2, width=L)
    facts['api.apply.product_operator'] = True
    ops = [o for o in oc.candidate_ops(site) if o != 'Id'][:3]
    for method in (('SVD', 'zip_up') if finite else ('SVD',)):      # zip_up: finite only (documented)
        p2 = psi.copy()
        opts = {'compression_method': method, 'trunc_params': {'chi_max': 64, 'svd_min': 1e-14}, 'm_temp': 2,
                'trunc_weight': 1.0}
        U.apply(p2, opts)
        facts['api.apply.' + method + ('.finite' if finite else '.infinite')] = True
        for i in range(L):
            rho = cm.rho_window_dense(psi, 1, first=i)
            m = locs[i]
            for o in ops:
                O = site.get_op(o).to_ndarray()
                want = np.trace(rho @ m.conj().T @ O @ m)
                got = p2.expectation_value(o, sites=[i])[0]
                if abs(got - want) > 1e-8 * max(1.0, abs(want)):
                    sig = f'api.apply.{method}.product_operator_mismatch'
                    if not finite and method == 'SVD':
                        sig = 'api.apply.SVD.infinite.S0_guess_overwritten'
                    fails.append(('property', sig,
                                  f'<{o}_{i}> after U = {got!r}, expected {complex(want)!r} (finite={finite}, L={L})'))
                    return


SCENARIOS = {
    'from_Wflat': sc_from_Wflat,
    'from_wavepacket': sc_from_wavepacket,
    'accessors': sc_accessors,
    'transformations': sc_transformations,
    'expectation': sc_expectation,
    'apply_infinite': sc_apply_infinite,
    'from_grids': sc_from_grids,
}
WEIGHTS = {'from_Wflat': 5, 'from_wavepacket': 4, 'accessors': 4, 'transformations': 6, 'expectation': 6, 'apply_infinite': 3,
           'from_grids': 4}


def gen_cases(rng, n):
    names = [k for k, w in WEIGHTS.items() for _ in range(w)]
    out = [{'kind': 'api', 'name': k, 'seed': rng.randrange(1 << 30)} for k in SCENARIOS]
    while len(out) < n:
        out.append({'kind': 'api', 'name': rng.choice(names), 'seed': rng.randrange(1 << 30)})
    return out


def run_case(case):
    fails, facts = [], {}
    rng = random.Random(case['seed'])
    try:
        with warnings.catch_warnings():
            warnings.simplefilter('ignore')
            SCENARIOS[case['name']](rng, fails, facts)
    except Exception as e:  # noqa: BLE001
        fails.append(('property', f'api.{case["name"]}.error.{type(e).__name__}', traceback.format_exc()[-1500:]))
    return fails, facts
