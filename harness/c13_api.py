"""C13 coverage round: engine / environment API paths the main generator did not reach.

Scenarios (each with an ExactDiag / analytic oracle or the documented contract):
  excited     DMRG with `orthogonal_to` (first and second excited state of the sector), all engines / combine / diag
  resume      get_resume_data -> new engine with resume_data (init_env with resume data, reset_stats); sequential runs;
              dmrg.run(); max_hours -> shelve; E_tol_to_trunc / P_tol_to_trunc; chi_list(); plot functions
  segment     iDMRG -> extract_segment + get_initialization_data -> segment DMRG (update_segment_boundaries)
  env_api     MPOEnvironment on random complex MPS: full_contraction at every bond (also explicit_plus_hc, bra != ket),
              init_LP / init_RP, get_initialization_data round trip; adjoint of OneSiteH / TwoSiteH; ZeroSiteH;
              from_LP_W0_RP
  mixer       the decomposition itself: Mixer.mix_and_decompose_2site (DensityMatrixMixer and SubspaceExpansion) at every
              bond of a random complex MPS for mix_left only / mix_right only / both, and mix_and_decompose_1site for
              both directions: isometry of the tensor that is kept, U S VH reproduces theta, the kept bond contains
              the expansion directions LP W theta (resp. theta W RP) computed independently, both mixers agree
  inf_env     infinite: MPOTransferMatrix.find_init_LP_RP and MPOEnvironmentBuilder.init_LP_RP_iterative energy density,
              environment_sweeps, start_env / start_env_sites / update_env
"""
import numpy as np

from harness import c13_lib as L

SCENARIOS = ['excited', 'excited', 'excited', 'resume', 'resume', 'env_api', 'env_api', 'env_api', 'segment', 'inf_env',
             'mixer', 'mixer', 'mixer']


def gen_case(rng, quick=True, scenario=None):
    sc = scenario or rng.choice(SCENARIOS)
    Ls = rng.choice([3, 4, 4, 5, 6])
    kind, p = L.gen_model(rng, Ls)
    if kind == 'Spin' and p.get('S') == 1.0:
        p['L'] = min(Ls, 4)
    case = dict(part='api', scenario=sc, kind=kind, model=p, engine=rng.choice(['TwoSiteDMRGEngine', 'SingleSiteDMRGEngine']),
                init=L.gen_product_state(rng, kind, p), nseed=rng.getrandbits(32),
                opts={'combine': rng.random() < 0.5, 'diag_method': rng.choice(['default', 'lanczos', 'ED_block']),
                      'mixer': None})
    if sc in ('segment', 'inf_env'):
        case['kind'] = 'TFI'
        # (segment: only the paramagnetic phase g > 1 — for g < 1 the iMPS is a cat state, `canonical_form` in
        #  post_run_cleanup truncates it and the engine's environments no longer fit the returned state)
        # (iDMRG needs a unit cell of at least 2 sites: with L = 1 the single stored LP is deleted by update_env and
        #  get_LP finds 'No left part' — the precondition L >= 2 of C13_env_fresh_infinite)
        case['model'] = dict(L=rng.choice([2, 2, 3, 4]) if sc == 'inf_env' else 2, J=1.0,
                             g=rng.choice([1.5, 2.0, 0.5]) if sc == 'inf_env' else rng.choice([1.5, 2.0, 3.0]),
                             bc_MPS='infinite', conserve=rng.choice([None, 'parity']))
        case['enlarge'] = rng.choice([2, 3, 4])
        case['opts']['start_env'] = rng.choice([0, 1, 2])
        case['opts']['start_env_sites'] = rng.choice([None, 0, 2])
        case['opts']['update_env'] = rng.choice([0, 1])
    if sc == 'env_api' and rng.random() < 0.4:
        case['model']['explicit_plus_hc'] = True
    if sc == 'inf_env':
        case['opts']['inf_mixer'] = rng.choice([True, True, 'SubspaceExpansion', 'SubspaceExpansion'])
    if sc == 'mixer':
        case['opts']['amplitude'] = rng.choice([0.5, 0.1, 1e-2])
        case['chi'] = rng.choice([1, 2, 3, 4])
    return case


def run_api_case(case):
    L.quiet()
    fails = []
    out = {'sweeps_done': 2}
    try:
        {'excited': sc_excited, 'resume': sc_resume, 'segment': sc_segment, 'env_api': sc_env, 'inf_env': sc_inf,
         'mixer': sc_mixer}[
            case['scenario']](case, fails)
    except Exception as e:  # noqa
        import traceback
        fails.append((f'api.{case["scenario"]}.raises', f'{type(e).__name__}: {str(e)[:150]}\n' + traceback.format_exc()[-700:]))
    out['fails'] = fails
    return out


def _ed(M, psi):
    from tenpy.algorithms.exact_diag import ExactDiag
    ed = ExactDiag(M, charge_sector=psi.get_total_charge(True), max_size=2.e7)
    ed.build_full_H_from_mpo()
    ed.full_diagonalization()
    return ed


def _dense_energy(ed, psi):
    import tenpy.linalg.np_conserved as npc
    v = ed.mps_to_full(psi)
    nrm = npc.inner(v, v, axes='range', do_conj=True).real
    return float(npc.inner(v, npc.tensordot(ed.full_H, v, axes=1), axes='range', do_conj=True).real / nrm), v


# --------------------------------------------------------------------------------------------


def sc_excited(case, fails):
    from tenpy.algorithms import dmrg
    from tenpy.networks.mps import MPS
    import tenpy.linalg.np_conserved as npc
    kind, p = case['kind'], dict(case['model'])
    M = L.build_model(kind, p)
    mk = lambda: MPS.from_product_state(M.lat.mps_sites(), case['init'], bc='finite')  # noqa
    ed = _ed(M, mk())
    Es = np.sort(np.real(ed.E))
    if len(Es) < 3:
        return
    scale = max(1.0, np.max(np.abs(Es)))
    # shift the spectrum below zero: the projected-out states sit at eigenvalue 0 of P H P (documented requirement)
    shift = -float(np.ceil(Es[-1] + 1.0))
    base = {'mixer': True, 'mixer_params': {'amplitude': 1e-3, 'decay': 2.0, 'disable_after': 4}, 'max_sweeps': 9,
            'min_sweeps': 7, 'trunc_params': {'chi_max': 200, 'svd_min': 1e-14}, 'max_trunc_err': None,
            'max_E_err': 1e-12, 'max_S_err': 1e-8, 'lanczos_params': {'E_shift': shift, 'N_max': 40, 'reortho': True}}
    E0, psi0 = dmrg.TwoSiteDMRGEngine(mk(), M, dict(base)).run()
    found = [psi0]
    Efound = [E0]
    for level in (1, 2):
        o = dict(base, combine=case['opts']['combine'], diag_method=case['opts']['diag_method'])
        if case['engine'] == 'SingleSiteDMRGEngine':
            o['mixer'] = 'SubspaceExpansion'
        if Es[level] > -0.1 and o['diag_method'] != 'lanczos':
            # the dense solvers do not apply E_shift: the projected-out states sit at 0 and win (documented limitation)
            break
        psi = mk()
        eng = getattr(dmrg, case['engine'])(psi, M, o, orthogonal_to=[f.copy() for f in found])
        E, psi = eng.run()
        EH, _ = _dense_energy(ed, psi)
        if max(abs(psi.overlap(f)) for f in found) > 1e-6:
            fails.append(('excited.result-not-orthogonal-to-the-given-states',
                          f'level {level}: overlaps {[abs(psi.overlap(f)) for f in found]}'))
        if np.max(np.abs(psi.norm_test())) > 1e-8:
            fails.append(('excited.result-not-canonical', f'level {level}: {np.max(np.abs(psi.norm_test())):.2e}'))
        if abs(E - EH) > 1e-8 * scale:
            fails.append(('excited.E-differs-from-<psi|H|psi>', f'level {level}: E={E!r} <H>={EH!r}'))
        # variational bound in the complement of exact eigenstates: E >= (level+1)-th eigenvalue
        exact_found = all(abs(Efound[k] - Es[k]) < 1e-8 * scale for k in range(len(found)))
        if exact_found and E < Es[level] - 1e-8 * scale:
            fails.append(('excited.E-below-the-exact-excited-level', f'level {level}: E={E!r} exact={Es[level]!r}'))
        found.append(psi)
        Efound.append(E)


def sc_resume(case, fails):
    from tenpy.algorithms import dmrg
    from tenpy.networks.mps import MPS
    kind, p = case['kind'], dict(case['model'])
    M = L.build_model(kind, p)
    mk = lambda: MPS.from_product_state(M.lat.mps_sites(), case['init'], bc='finite')  # noqa
    ed = _ed(M, mk())
    E0 = float(np.min(np.real(ed.E)))
    scale = max(1.0, np.max(np.abs(ed.E)))
    o = {'mixer': None, 'max_sweeps': 2, 'min_sweeps': 1, 'trunc_params': {'chi_max': 64, 'svd_min': 1e-12},
         'max_trunc_err': None, 'combine': case['opts']['combine'], 'diag_method': case['opts']['diag_method'],
         'E_tol_to_trunc': 0.1, 'P_tol_to_trunc': 0.1}
    cls = getattr(dmrg, case['engine'])
    eng = cls(mk(), M, dict(o))
    Ea, psia = eng.run()
    data = eng.get_resume_data()
    if data['psi'] is not psia and abs(data['psi'].overlap(psia) - 1) > 1e-10:
        fails.append(('resume.resume-data-has-a-different-state', ''))
    seq = eng.get_resume_data(sequential_simulations=True)
    # resumed run: continues from the stored state and environments, energy can only go down, stays >= E0
    # a run that performs no iteration at all (sweep counter of the resume data already beyond max_sweeps) must
    # return, not crash
    try:
        engz = cls(data['psi'].copy(), M, dict(o), resume_data=eng.get_resume_data())
        engz.run()
    except AttributeError as e:
        fails.append(('resume.run-without-iteration-raises', f'AttributeError: {str(e)[:80]}'))
    eng2 = cls(data['psi'], M, dict(o, max_sweeps=eng.sweeps + 2, min_sweeps=eng.sweeps + 1), resume_data=data)
    Eb, psib = eng2.run()
    if Eb > Ea + 1e-9 * scale or Eb < E0 - 1e-9 * scale:
        fails.append(('resume.energy-after-resume', f'E before={Ea!r} after={Eb!r} exact={E0!r}'))
    EH, _ = _dense_energy(ed, psib)
    if abs(EH - Eb) > 1e-8 * scale + 2 * abs(eng2.sweep_stats['max_E_trunc'][-1] or 0):
        fails.append(('resume.E-differs-from-<psi|H|psi>', f'E={Eb!r} <H>={EH!r}'))
    if eng2.sweeps < eng.sweeps:
        fails.append(('resume.sweep-counter-not-continued', f'{eng.sweeps} -> {eng2.sweeps}'))
    # sequential simulation: resume data for the next run on the same state
    eng3 = cls(seq['psi'].copy(), M, dict(o, max_sweeps=eng.sweeps + 2, min_sweeps=eng.sweeps + 1), resume_data=seq)
    Ec, _ = eng3.run()
    if Ec > Ea + 1e-9 * scale or Ec < E0 - 1e-9 * scale:
        fails.append(('resume.sequential.energy', f'{Ea!r} -> {Ec!r}'))
    # module-level run(): engine selected by active_sites
    info = dmrg.run(mk(), M, dict(o, active_sites=1 if case['engine'] == 'SingleSiteDMRGEngine' else 2))
    if set(info) < {'E', 'shelve', 'bond_statistics', 'sweep_statistics'} or abs(info['E'] - Ea) > 1e-9 * scale:
        fails.append(('resume.dmrg.run-result', f'{sorted(info)} E={info.get("E")!r} vs {Ea!r}'))
    try:
        dmrg.run(mk(), M, dict(o, active_sites=3))
        fails.append(('resume.dmrg.run-accepts-active_sites=3', ''))
    except ValueError:
        pass
    # max_hours = 0: shelve after the first iteration
    eng4 = cls(mk(), M, dict(o, max_hours=1e-9, max_sweeps=50, min_sweeps=40))
    try:
        eng4.run()
        if not eng4.shelve or eng4.sweeps > 2 * eng4.N_sweeps_check:
            fails.append(('resume.max_hours-not-honoured', f'shelve={eng4.shelve} sweeps={eng4.sweeps}'))
    except AttributeError as e:
        fails.append(('resume.run-without-iteration-raises', f'max_hours: AttributeError: {str(e)[:80]}'))
    # reset_stats keeps the sweep counter consistent with resume data
    eng4.reset_stats()
    if eng4.sweeps != 0 or eng4.update_stats['E_total'] != []:
        fails.append(('resume.reset_stats', f'{eng4.sweeps}'))
    # chi_list helper: ramp of dchi every nsweeps up to chi_max
    for chi_max, dchi, ns in ((12, 12, 5), (24, 12, 5), (27, 12, 5), (5, 20, 3), (100, 30, 2)):
        got = dmrg.chi_list(chi_max, dchi, ns)
        want = {}
        c, k = dchi, 0
        while c < chi_max:
            want[k * ns] = c
            c += dchi
            k += 1
        want[k * ns] = chi_max
        if chi_max < dchi:
            want = {0: chi_max}
        if got != want:
            fails.append(('resume.chi_list', f'chi_list({chi_max},{dchi},{ns}) = {got}, expected {want}'))

    class Ax:
        def __init__(self):
            self.n = 0

        def __getattr__(self, name):
            def f(*a, **k):
                self.n += 1
                return self
            return f

        def __iter__(self):
            return iter([self, self])
    ax = Ax()
    eng.plot_update_stats(ax, xaxis='time', yaxis='E')
    eng.plot_update_stats(ax, xaxis='sweep', yaxis='E', y_exact=E0)
    eng.plot_sweep_stats(ax, xaxis='sweep', yaxis='E', y_exact=E0)
    if ax.n == 0:
        fails.append(('resume.plot-functions-draw-nothing', ''))


def sc_segment(case, fails):
    from tenpy.algorithms import dmrg
    from tenpy.models.tf_ising import TFIChain
    from tenpy.networks.mps import MPS
    p = dict(case['model'])
    M = TFIChain(p)
    psi0 = MPS.from_lat_product_state(M.lat, [['up']])
    o = dict(mixer=True, max_E_err=1e-10, trunc_params=dict(chi_max=30, svd_min=1e-10), max_trunc_err=None, max_sweeps=60)
    eng0 = dmrg.TwoSiteDMRGEngine(psi0, M, dict(o))
    E_inf, _ = eng0.run()
    e0 = L.e0_tfi(p['g'], p['J'])
    if abs(E_inf - e0) > 1e-6:
        fails.append(('segment.idmrg-energy-density', f'{E_inf!r} vs {e0!r}'))
    Mseg = M.extract_segment(enlarge=case['enlarge'])
    first, last = Mseg.lat.segment_first_last
    pseg = psi0.extract_segment(first, last)
    init = eng0.env.get_initialization_data(first, last)
    p1 = pseg.copy()
    np.random.seed(case['nseed'])
    p1.perturb()
    cls = getattr(dmrg, case['engine'])
    o1 = dict(o, combine=case['opts']['combine'])
    if case['engine'] == 'SingleSiteDMRGEngine':
        o1['mixer'] = 'SubspaceExpansion'
    eng1 = cls(p1, Mseg, o1, resume_data={'init_env_data': init})
    eng1.run()
    S0 = float(np.mean(psi0.entanglement_entropy()))
    S1 = p1.entanglement_entropy()
    if np.max(np.abs(S1 - S0)) > 1e-4:
        fails.append(('segment.entanglement-differs-from-the-infinite-state', f'{S1.tolist()} vs {S0!r}'))
    for op in ('Sigmaz', 'Sigmax'):
        a = float(np.mean(psi0.expectation_value(op)))
        b = p1.expectation_value(op)
        if np.max(np.abs(b - a)) > 1e-4:
            fails.append((f'segment.<{op}>-differs-from-the-infinite-state', f'{b.tolist()} vs {a!r}'))
    if np.max(np.abs(p1.norm_test())) > 1e-6:
        fails.append(('segment.result-not-canonical', f'{np.max(np.abs(p1.norm_test())):.2e}'))


def sc_env(case, fails):
    from tenpy.algorithms.mps_common import OneSiteH, TwoSiteH, ZeroSiteH
    from tenpy.networks.mps import MPS
    from tenpy.networks.mpo import MPOEnvironment
    import tenpy.linalg.np_conserved as npc
    kind, p = case['kind'], dict(case['model'])
    M = L.build_model(kind, p)
    Lc = p['L']
    np.random.seed(case['nseed'])
    psi = L.random_mps(M, case['init'], 3)
    phi = L.random_mps(M, case['init'], 3)
    pref = dict(p)
    pref.pop('explicit_plus_hc', None)
    ed = _ed(L.build_model(kind, pref), psi)
    EH, v = _dense_energy(ed, psi)
    w = ed.mps_to_full(phi)
    mixed = npc.inner(w, npc.tensordot(ed.full_H, v, axes=1), axes='range', do_conj=True)
    scale = max(1.0, np.max(np.abs(ed.E)))
    env = MPOEnvironment(psi, M.H_MPO, psi)
    env.test_sanity()
    for i0 in range(Lc - 1):
        fc = env.full_contraction(i0)
        if abs(fc - EH) > 1e-9 * scale:
            fails.append(('env.full_contraction-differs-from-<psi|H|psi>', f'i0={i0}: {fc!r} vs {EH!r} plus_hc={M.H_MPO.explicit_plus_hc}'))
            break
    if abs(M.H_MPO.expectation_value(psi) - EH) > 1e-9 * scale:
        fails.append(('env.H_MPO.expectation_value', f'{M.H_MPO.expectation_value(psi)!r} vs {EH!r}'))
    env2 = MPOEnvironment(phi, M.H_MPO, psi)
    if not M.H_MPO.explicit_plus_hc:
        fc = env2.full_contraction(Lc // 2 - 1 if Lc > 2 else 0)
        # <phi|H|psi> in the convention of overlap(): bra conjugated
        if abs(fc - mixed) > 1e-9 * scale:
            fails.append(('env.full_contraction.bra-differs-from-ket', f'{fc!r} vs {mixed!r}'))
    # init_LP / init_RP of a finite chain: trivial boundary parts, contraction from them reproduces the stored parts
    LP0, RP0 = env.init_LP(0), env.init_RP(Lc - 1)
    if abs(npc.norm(LP0 - env.get_LP(0)) + npc.norm(RP0 - env.get_RP(Lc - 1))) > 1e-12:
        fails.append(('env.init_LP/init_RP-differ-from-the-stored-boundary-parts', ''))
    data = env.get_initialization_data()
    env3 = MPOEnvironment(psi, M.H_MPO, psi, **data)
    if abs(env3.full_contraction(0) - EH) > 1e-9 * scale:
        fails.append(('env.get_initialization_data-roundtrip', ''))
    # effective Hamiltonians: adjoint().to_matrix() is the conjugate transpose; ZeroSiteH; from_LP_W0_RP
    for cls, n in ((OneSiteH, 1), (TwoSiteH, 2)):
        for i0 in range(0, Lc - n + 1):
            for combine in (False, True):
                H = cls(env, i0, combine, True)
                if H.N > 60:
                    continue
                A = H.to_matrix().to_ndarray()
                try:
                    Hadj = H.adjoint()
                except AttributeError as e:
                    sig = 'effH.adjoint-raises' + ('.OneSiteH.combine' if (cls is OneSiteH and combine) else '')
                    if not any(f[0] == sig for f in fails):
                        fails.append((sig, f'{cls.__name__} i0={i0} combine={combine}: AttributeError: {str(e)[:80]}'))
                    continue
                B = Hadj.to_matrix().to_ndarray()
                if np.linalg.norm(B - A.conj().T) > 1e-10 * max(1.0, np.linalg.norm(A)):
                    fails.append(('effH.adjoint-is-not-the-conjugate-transpose', f'{cls.__name__} i0={i0} combine={combine}'))
                d = L.effH_to_matrix_defect(Hadj) if i0 in (0, Lc // 2) else 0.0
                if d > 1e-10:
                    fails.append(('effH.adjoint.to_matrix-differs-from-matvec', f'{cls.__name__} i0={i0} combine={combine} {d:.2e}'))
    i0 = Lc // 2
    H1 = OneSiteH(env, i0, False, True)
    H1b = OneSiteH.from_LP_W0_RP(H1.LP, env.H.get_W(i0), H1.RP, i0=i0)
    th = psi.get_theta(i0, n=1)
    if npc.norm(H1.matvec(th) - H1b.matvec(th)) > 1e-12:
        fails.append(('effH.from_LP_W0_RP', ''))
    Z = ZeroSiteH(env, i0)
    Zb = ZeroSiteH.from_LP_RP(Z.LP, Z.RP, i0=i0)
    s = psi.get_SL(i0)
    th0 = npc.diag(s.astype(complex), psi.get_B(i0, 'B').get_leg('vL'), labels=['vL', 'vR']) if i0 > 0 else None
    if th0 is not None:
        r1, r2 = Z.matvec(th0), Zb.matvec(th0)
        e = npc.inner(th0, r1, axes='labels', do_conj=True)
        plus_hc = M.H_MPO.explicit_plus_hc
        e_tot = 2 * np.real(e) if plus_hc else e       # (with explicit_plus_hc the MPO is only "half" of H)
        if npc.norm(r1 - r2) > 1e-12 or abs(e_tot - EH) > 1e-9 * scale:
            fails.append(('effH.ZeroSiteH', f'<S|H0|S>={e_tot!r} vs {EH!r} plus_hc={plus_hc}'))
        Zd = Z.adjoint()
        ed_ = npc.inner(th0, Zd.matvec(th0), axes='labels', do_conj=True)
        if abs(ed_ - np.conj(e)) > 1e-9 * scale:
            fails.append(('effH.ZeroSiteH.adjoint', f'{ed_!r} vs conj {e!r}'))


def sc_inf(case, fails):
    from tenpy.algorithms import dmrg
    from tenpy.models.tf_ising import TFIChain
    from tenpy.networks.mps import MPS
    from tenpy.networks.mpo import MPOTransferMatrix, MPOEnvironmentBuilder, MPOEnvironment
    p = dict(case['model'])
    M = TFIChain(p)
    Lc = p['L']
    e0 = L.e0_tfi(p['g'], p['J'])
    psi = MPS.from_lat_product_state(M.lat, [['up']])
    o = dict(mixer=case['opts'].get('inf_mixer', True), max_E_err=1e-10, trunc_params=dict(chi_max=20, svd_min=1e-10),
             max_trunc_err=None, max_sweeps=80, start_env=case['opts']['start_env'], update_env=case['opts']['update_env'], N_sweeps_check=4,
             combine=case['opts']['combine'])
    if case['opts']['start_env_sites'] is not None:
        o['start_env_sites'] = case['opts']['start_env_sites']
    single = case['engine'] == 'SingleSiteDMRGEngine'
    eng = getattr(dmrg, case['engine'])(psi, M, o)
    E, psi = eng.run()
    nt = float(np.max(np.abs(psi.norm_test())))
    E_bond = float(np.mean(psi.expectation_value(M.H_bond)))
    converged = eng.sweeps < o['max_sweeps']
    if nt > 1e-6:
        fails.append(('inf.result-not-canonical', f'{nt:.2e}'))
        return
    if E_bond < e0 - 1e-7:
        fails.append(('inf.energy-density-of-the-state-below-exact', f'{E_bond!r} < {e0!r}'))
    if converged and abs(E - E_bond) > 1e-6:
        sig = 'inf.reported-energy-differs-from-the-energy-density-of-the-returned-state'
        if single and o['update_env'] % 2 == 1:
            sig += '.single-site.odd-update_env'
        fails.append((sig, f'E={E!r} mean bond energy={E_bond!r} exact={e0!r} ratio={E / E_bond:.4f} opts={o}'))
    if converged and abs(E_bond - e0) > 1e-5 and p['g'] > 1:
        fails.append(('inf.converged-energy-density-not-reached', f'{E_bond!r} vs {e0!r}'))
    # environment sweeps only grow the environments; state unchanged
    ages0 = (eng.env.get_LP_age(0), eng.env.get_RP_age(Lc - 1))
    before = psi.copy()
    try:
        eng.environment_sweeps(2)
        ages1 = (eng.env.get_LP_age(0), eng.env.get_RP_age(Lc - 1))
        if not (ages1[0] > ages0[0] and ages1[1] > ages0[1]):
            fails.append(('inf.environment_sweeps-do-not-grow-the-environments', f'{ages0} -> {ages1}'))
        if abs(abs(psi.overlap(before)) - 1) > 1e-6:
            fails.append(('inf.environment_sweeps-change-the-state', f'{abs(psi.overlap(before))!r}'))
    except ValueError as e:
        if 'incompatible LegCharge' not in str(e):
            raise
        # post_run_cleanup called psi.canonical_form(), which changed the bond dimensions; engine.env still holds the
        # environments of the state before
        chi_env = eng.env.get_LP(0).get_leg('vR').ind_len if eng.env.has_LP(0) else None
        fails.append(('inf.engine-environments-do-not-fit-psi-after-run', f'chi(psi)={before.chi} chi(LP[0])={chi_env}'))
    psi = before
    # environments from the transfer matrix / the iterative builder: energy per site of the same state
    data, Etm, eps = MPOTransferMatrix.find_init_LP_RP(M.H_MPO, psi, calc_E=True)
    Etm = float(np.real(np.mean(Etm)))      # (returned as [E_right, E_left])
    # (the transfer-matrix energy is sensitive to errors of the canonical form — documented; the iterative one is not;
    #  observed deviations up to 1.5e-3 on states with norm_test < 1e-6 whose mean bond energy is exact: sanity bound only)
    if abs(Etm - E_bond) > 1e-2:
        fails.append(('inf.MPOTransferMatrix.energy-per-site', f'{Etm!r} vs bond energy {E_bond!r}'))
    MPOEnvironment(psi, M.H_MPO, psi, **data).test_sanity()
    data2, _, Eit = MPOEnvironmentBuilder(M.H_MPO, psi).init_LP_RP_iterative('both', calc_E=True)
    Eit = float(np.real(np.mean(np.atleast_1d(Eit))))
    if abs(Eit - E_bond) > 1e-7:
        fails.append(('inf.init_LP_RP_iterative.energy-per-site', f'{Eit!r} vs bond energy {E_bond!r} (L={Lc})'))
    MPOEnvironment(psi, M.H_MPO, psi, **data2).test_sanity()


def sc_mixer(case, fails):
    """The decomposition with a mixer, called directly at every bond of a random complex MPS (nothing is truncated):

    * the tensor that would be kept and contracted into the environment (U for mix_left, VH for mix_right) is an isometry;
    * U S VH is theta (up to the documented rescaling);
    * the kept bond is the EXPANDED one: the column space of U contains LP W0[:, w] theta for every MPO index w that
      the mixers include (all but IdR), the row space of VH contains theta W1[w, :] RP (all but IdL) — computed here
      from LP/RP and the W tensors, not with the mixer helpers;
    * DensityMatrixMixer and SubspaceExpansion give the same kept spaces (documented as equivalent)."""
    from tenpy.algorithms import dmrg
    from tenpy.algorithms.mps_common import DensityMatrixMixer, SubspaceExpansion
    import tenpy.linalg.np_conserved as npc
    kind, p = case['kind'], dict(case['model'])
    p.pop('explicit_plus_hc', None)
    M = L.build_model(kind, p)
    Lc = p['L']
    np.random.seed(case['nseed'])
    psi = L.random_mps(M, case['init'], case['chi']) if case['chi'] > 1 else L.random_mps(M, case['init'], 1, rounds=0)
    amp = case['opts']['amplitude']
    H = M.H_MPO

    def dense_cols(T, first):     # npc matrix (a, b) -> ndarray
        return T.to_ndarray()

    def span_defect(Q, X, weight=1.0):
        """weight (in units of the normalised theta) of the part of the columns of X outside the column space of
        the isometry Q; the truncation (svd_min = 1e-7 here) may drop directions below its threshold"""
        return float(weight * np.linalg.norm(X - Q @ (Q.conj().T @ X)))

    spaces = {}
    for mixname, mixcls in (('DensityMatrixMixer', DensityMatrixMixer), ('SubspaceExpansion', SubspaceExpansion)):
        for combine in ((False, True) if case['opts']['combine'] else (False,)):
            o = {'mixer': mixname, 'mixer_params': {'amplitude': amp, 'decay': 1.0, 'disable_after': 100},
                 'trunc_params': {'chi_max': 10000, 'svd_min': 1e-7}, 'combine': combine}
            eng = dmrg.TwoSiteDMRGEngine(psi.copy(), M, o)
            if eng.mixer is None:
                eng.mixer_activate()
            if not isinstance(eng.mixer, mixcls):
                fails.append(('mixer.option-selects-another-class', f'{mixname}: {type(eng.mixer).__name__}'))
                continue
            for i0 in range(Lc - 1):
                for move_right in (True, False):
                    eng.i0, eng.move_right, eng.update_LP_RP = i0, move_right, (move_right, not move_right)
                    theta = eng.prepare_svd(eng.prepare_update_local())
                    th = theta.to_ndarray()                          # rows (vL.p0), columns (p1.vR)
                    th = th / np.linalg.norm(th)
                    # independent expansion directions
                    LP, RP = eng.env.get_LP(i0), eng.env.get_RP(i0 + 1)
                    W0, W1 = H.get_W(i0), H.get_W(i0 + 1)
                    IdL, IdR = H.get_IdL(i0 + 1), H.get_IdR(i0)
                    t4 = psi.get_theta(i0, n=2)                      # vL, p0, p1, vR
                    lw = npc.tensordot(LP, W0, axes=['wR', 'wL'])    # vR*, vR, wR, p, p*
                    lx = npc.tensordot(lw, t4, axes=[['vR', 'p*'], ['vL', 'p0']])     # vR*, wR, p, p1, vR
                    lx = lx.replace_labels(['vR*', 'p'], ['vL', 'p0']).combine_legs([['vL', 'p0'], ['p1', 'vR']], qconj=[+1, -1])
                    lx.itranspose(['(vL.p0)', 'wR', '(p1.vR)'])
                    rw = npc.tensordot(W1, RP, axes=['wR', 'wL'])    # wL, p, p*, vL, vL*
                    rx = npc.tensordot(t4, rw, axes=[['p1', 'vR'], ['p*', 'vL']])     # vL, p0, wL, p, vL*
                    rx = rx.replace_labels(['vL*', 'p'], ['vR', 'p1']).combine_legs([['vL', 'p0'], ['p1', 'vR']], qconj=[+1, -1])
                    rx.itranspose(['(vL.p0)', 'wL', '(p1.vR)'])
                    # bring the pipes to the ones of theta (same legs, so the dense index order agrees)
                    lxd, rxd = lx.to_ndarray(), rx.to_ndarray()
                    if lxd.shape[0] != th.shape[0] or lxd.shape[2] != th.shape[1]:
                        fails.append(('mixer.harness.shape', f'{lxd.shape} vs {th.shape}'))
                        return
                    # (sanity of the independent contraction: the index IdL of W0 / IdR of W1 gives theta itself)
                    nt = np.linalg.norm(t4.to_ndarray())
                    wgt = np.sqrt(amp) / nt
                    if IdL is not None and np.linalg.norm(lxd[:, IdL, :] / nt - th) > 1e-9:
                        fails.append(('mixer.harness.reference-expansion', f'IdL column differs from theta at i0={i0}'))
                        return
                    XL = [lxd[:, w, :] for w in range(lxd.shape[1]) if w != IdR and w != IdL]
                    XR = [rxd[:, w, :] for w in range(rxd.shape[1]) if w != IdL and w != IdR]
                    qtot = [psi.get_B(i0, form=None).qtotal, theta.qtotal - psi.get_B(i0, form=None).qtotal]
                    for mix_left, mix_right in ((True, False), (False, True), (True, True)):
                        tag = f'{mixname} i0={i0}/{Lc} combine={combine} move_right={move_right} mix_left={mix_left} mix_right={mix_right} amplitude={amp}'
                        try:
                            U, S, VH, err, S_a = eng.mixer.mix_and_decompose_2site(eng, theta.copy(), i0, mix_left, mix_right, qtot)
                        except ZeroDivisionError:
                            continue
                        Ud, Vd = U.to_ndarray(), VH.to_ndarray()
                        Sd = S.to_ndarray() if isinstance(S, npc.Array) else np.diag(np.asarray(S))
                        if Ud.shape[0] != th.shape[0] or Vd.shape[1] != th.shape[1]:
                            fails.append(('mixer.decomposition-has-other-legs-than-theta', tag))
                            continue
                        key = (i0, combine if False else 0, mix_left, mix_right)
                        if mix_left:
                            d = np.linalg.norm(Ud.conj().T @ Ud - np.eye(Ud.shape[1]))
                            if d > 1e-9:
                                fails.append(('mixer.mix_left.U-is-not-an-isometry', f'{tag}: |U^H U - 1| = {d:.2e}'))
                                continue
                            worst = max([span_defect(Ud, th)] + [span_defect(Ud, X, wgt) for X in XL])
                            if worst > 1e-5:
                                fails.append(('mixer.mix_left.kept-bond-does-not-contain-the-expansion',
                                              f'{tag}: weight of theta / LP W theta outside span(U): {worst:.2e}; bond dimension {Ud.shape[1]}'))
                            spaces.setdefault(key + ('U',), {})[mixname] = Ud @ Ud.conj().T
                        if mix_right:
                            d = np.linalg.norm(Vd @ Vd.conj().T - np.eye(Vd.shape[0]))
                            if d > 1e-9:
                                fails.append(('mixer.mix_right.VH-is-not-an-isometry', f'{tag}: |VH VH^H - 1| = {d:.2e}'))
                                continue
                            Q = Vd.conj().T
                            worst = max([span_defect(Q, th.conj().T)] + [span_defect(Q, X.conj().T, wgt) for X in XR])
                            if worst > 1e-5:
                                fails.append(('mixer.mix_right.kept-bond-does-not-contain-the-expansion',
                                              f'{tag}: weight of theta / theta W RP outside span(VH): {worst:.2e}; bond dimension {Vd.shape[0]}'))
                            spaces.setdefault(key + ('VH',), {})[mixname] = Q @ Q.conj().T
                        rec = Ud @ Sd @ Vd
                        nr = np.linalg.norm(rec)
                        if nr < 1e-12 or np.linalg.norm(rec / nr - th) > 1e-7:
                            fails.append(('mixer.U-S-VH-is-not-theta', f'{tag}: |U S VH / norm - theta| = {np.linalg.norm(rec / max(nr, 1e-300) - th):.2e}'))
        # single-site decomposition (only mixers that implement it)
        if mixcls.can_decompose_1site:
            o1 = {'mixer': mixname, 'mixer_params': {'amplitude': amp, 'decay': 1.0, 'disable_after': 100},
                  'trunc_params': {'chi_max': 10000, 'svd_min': 1e-7}, 'combine': False}
            eng = dmrg.SingleSiteDMRGEngine(psi.copy(), M, o1)
            if eng.mixer is None:
                eng.mixer_activate()
            for i0 in range(Lc):
                for move_right in (True, False):
                    if (move_right and i0 == Lc - 1) or (not move_right and i0 == 0):
                        continue
                    eng.i0, eng.move_right, eng.update_LP_RP = i0, move_right, (move_right, not move_right)
                    theta = eng.prepare_svd(eng.prepare_update_local())
                    th = theta.to_ndarray()
                    th = th / np.linalg.norm(th)
                    tag = f'{mixname} 1-site i0={i0}/{Lc} move_right={move_right} amplitude={amp}'
                    U, S, VH, err = eng.mixer.mix_and_decompose_1site(eng, theta.copy(), i0, move_right)
                    Ud, Vd = U.to_ndarray(), VH.to_ndarray()
                    Sd = S.to_ndarray() if isinstance(S, npc.Array) else np.diag(np.asarray(S))
                    T = Ud if move_right else Vd.conj().T
                    d = np.linalg.norm(T.conj().T @ T - np.eye(T.shape[1]))
                    if d > 1e-9:
                        fails.append(('mixer.1site.kept-tensor-is-not-an-isometry', f'{tag}: {d:.2e}'))
                        continue
                    rec = Ud @ Sd @ Vd
                    nr = np.linalg.norm(rec)
                    if rec.shape != th.shape or np.linalg.norm(rec / max(nr, 1e-300) - th) > 1e-7:
                        fails.append(('mixer.1site.U-S-VH-is-not-theta', f'{tag}'))
                    # expansion: LP W0 theta (right move) / theta W0 RP (left move)
                    LP, RP, W0 = eng.env.get_LP(i0), eng.env.get_RP(i0), H.get_W(i0)
                    t3 = psi.get_theta(i0, n=1)                        # vL, p0, vR
                    wgt = np.sqrt(amp) / np.linalg.norm(t3.to_ndarray())
                    if move_right:
                        IdL, IdR = H.get_IdL(i0 + 1), H.get_IdR(i0)
                        lw = npc.tensordot(LP, W0, axes=['wR', 'wL'])
                        x = npc.tensordot(lw, t3, axes=[['vR', 'p*'], ['vL', 'p0']]).replace_labels(['vR*', 'p'], ['vL', 'p0'])
                        x = x.combine_legs(['vL', 'p0'], qconj=+1).itranspose(['(vL.p0)', 'wR', 'vR']).to_ndarray()
                        Xs = [x[:, w, :] for w in range(x.shape[1]) if w not in (IdL, IdR)]
                    else:
                        IdL, IdR = H.get_IdL(i0), H.get_IdR(i0 - 1)
                        rw = npc.tensordot(W0, RP, axes=['wR', 'wL'])
                        x = npc.tensordot(t3, rw, axes=[['p0', 'vR'], ['p*', 'vL']]).replace_labels(['vL*', 'p'], ['vR', 'p0'])
                        x = x.combine_legs(['p0', 'vR'], qconj=-1).itranspose(['vL', 'wL', '(p0.vR)']).to_ndarray()
                        Xs = [x[:, w, :].conj().T for w in range(x.shape[1]) if w not in (IdL, IdR)]
                    ref = th if move_right else th.conj().T
                    if Xs and Xs[0].shape[0] == T.shape[0]:
                        worst = max([span_defect(T, ref)] + [span_defect(T, X, wgt) for X in Xs])
                        if worst > 1e-5:
                            fails.append(('mixer.1site.kept-bond-does-not-contain-the-expansion', f'{tag}: {worst:.2e}'))
    for key, d in spaces.items():
        if len(d) == 2:
            a, b = d['DensityMatrixMixer'], d['SubspaceExpansion']
            if a.shape != b.shape or np.linalg.norm(a - b) > 1e-6:
                fails.append(('mixer.the-two-mixers-keep-different-spaces',
                              f'(i0, -, mix_left, mix_right, tensor) = {key}: |P_DM - P_SE| = {np.linalg.norm(a - b):.2e}, '
                              f'dimensions {int(round(np.trace(a).real))} vs {int(round(np.trace(b).real))}'))
                break
