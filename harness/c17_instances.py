"""Instance zoo for property C17 (HDF5 round trip of every exportable tenpy class).

API
---
discover_classes()            -> list of classes of the importable `tenpy` having `save_hdf5`
make_instances(cls, rng)      -> list of (tag, obj) with ``type(obj) is cls``
SKIP                          -> {'module.QualName': reason} for classes that could not be built
FAILED_VARIANTS               -> [(class name, tag, exception text)] single variants of a recipe
                                 that raised (the recipe as a whole still returned other variants)
class_name(cls)               -> 'module.QualName'

Structure: specific recipes keyed by qualified class name (looked up along ``cls.__mro__``; a
recipe marked ``inherit=False`` is only used for the exact class), then generic strategies.
Everything is purely reflective w.r.t. the currently importable `tenpy`; no path is hard-coded.

Self test:  ``python -m harness.c17_instances [seed ...]``
"""
# ruff: noqa: E501
import contextlib
import importlib
import inspect
import logging
import pkgutil
import random
import sys
import warnings

import numpy as np

__all__ = ['discover_classes', 'make_instances', 'SKIP', 'FAILED_VARIANTS', 'class_name']

SKIP = {}  # 'module.QualName' -> reason (filled by make_instances for un-instantiable classes)
FAILED_VARIANTS = []  # (class name, tag, 'ExcType: msg') for single variants that raised
RECIPES = {}  # 'module.QualName' -> (function(cls, rng) -> [(tag, obj)], inherit: bool)


def class_name(cls):
    return cls.__module__ + '.' + cls.__qualname__


# ----------------------------------------------------------------------------------------------
# infrastructure
# ----------------------------------------------------------------------------------------------


@contextlib.contextmanager
def _quiet():
    """Locally suppress python warnings and tenpy's logging output (restored afterwards)."""
    logger = logging.getLogger('tenpy')
    old_level = logger.level
    with warnings.catch_warnings():
        warnings.simplefilter('ignore')
        logger.setLevel(logging.CRITICAL + 1)
        try:
            yield
        finally:
            logger.setLevel(old_level)


_DISCOVERED = {}  # id(tenpy module) -> list of classes


def discover_classes():
    """All classes defined in ``tenpy.*`` having a callable ``save_hdf5`` (plus Hdf5Exportable)."""
    with _quiet():
        import tenpy

        key = (id(tenpy), tuple(tenpy.__path__))
        if key in _DISCOVERED:
            return list(_DISCOVERED[key])

        def _ignore(name):
            pass

        for info in pkgutil.walk_packages(tenpy.__path__, 'tenpy.', onerror=_ignore):
            try:
                importlib.import_module(info.name)
            except BaseException:  # noqa: BLE001  (optional dependencies, scripts calling sys.exit, ...)
                continue
        import tenpy.tools.hdf5_io as hdf5_io
    found = {}
    for modname, mod in list(sys.modules.items()):
        if mod is None or not (modname == 'tenpy' or modname.startswith('tenpy.')):
            continue
        try:
            members = list(vars(mod).values())
        except Exception:  # noqa: BLE001
            continue
        for val in members:
            if not inspect.isclass(val):
                continue
            mod_of_cls = getattr(val, '__module__', None) or ''
            if not (mod_of_cls == 'tenpy' or mod_of_cls.startswith('tenpy.')):
                continue
            try:
                has = callable(getattr(val, 'save_hdf5', None))
            except Exception:  # noqa: BLE001
                has = False
            if has:
                found[(val.__module__, val.__qualname__)] = val
    base = hdf5_io.Hdf5Exportable
    found[(base.__module__, base.__qualname__)] = base
    res = [found[k] for k in sorted(found)]
    _DISCOVERED[key] = res
    return list(res)


def recipe(*names, inherit=True):
    """Decorator registering a recipe ``f(cls, rng) -> [(tag, obj), ...]`` for class names."""

    def deco(func):
        for name in names:
            RECIPES[name] = (func, inherit)
        return func

    return deco


class _Variants:
    """Collects (tag, obj); a failing variant is recorded in FAILED_VARIANTS, not propagated."""

    def __init__(self, cls):
        self.cls = cls
        self.items = []

    def add(self, tag, thunk):
        try:
            obj = thunk()
        except Exception as e:  # noqa: BLE001
            FAILED_VARIANTS.append((class_name(self.cls), tag, f'{type(e).__name__}: {e}'))
            return None
        self.items.append((tag, obj))
        return obj


def _exc(e):
    return f'{type(e).__name__}: {str(e)[:200]}'


def make_instances(cls, rng, size='small'):
    """Return list of (tag, obj) with ``type(obj) is cls``; see module docstring."""
    name = class_name(cls)
    errors = []
    with _quiet():
        for depth, base in enumerate(inspect.getmro(cls)):
            entry = RECIPES.get(class_name(base))
            if entry is None:
                continue
            func, inherit = entry
            if depth > 0 and not inherit:
                continue
            n_failed = len(FAILED_VARIANTS)
            try:
                res = func(cls, rng)
            except Exception as e:  # noqa: BLE001
                del FAILED_VARIANTS[n_failed:]
                errors.append(f'recipe[{class_name(base)}]: {_exc(e)}')
                continue
            res = [(tag, obj) for tag, obj in res if type(obj) is cls]
            if res:
                SKIP.pop(name, None)
                return res[:1] if size == 'tiny' else res
            errors.append(
                f'recipe[{class_name(base)}]: no instance of exact type; '
                + '; '.join(f'[{t}] {e}' for _, t, e in FAILED_VARIANTS[n_failed:])
            )
            del FAILED_VARIANTS[n_failed:]  # reported via SKIP / `errors` instead
        for sname, strat in _generic_strategies(cls):
            n_failed = len(FAILED_VARIANTS)
            try:
                res = strat(cls, rng)
            except Exception as e:  # noqa: BLE001
                del FAILED_VARIANTS[n_failed:]
                errors.append(f'generic[{sname}]: {_exc(e)}')
                continue
            del FAILED_VARIANTS[n_failed:]
            res = [(tag, obj) for tag, obj in res if type(obj) is cls]
            if res:
                SKIP.pop(name, None)
                return res[:1] if size == 'tiny' else res
            errors.append(f'generic[{sname}]: no instance of exact type')
    SKIP[name] = '; '.join(errors) if errors else 'no strategy applicable'
    return []


# ----------------------------------------------------------------------------------------------
# small random helpers (all driven by a random.Random instance)
# ----------------------------------------------------------------------------------------------


def _f(rng, lo=0.2, hi=1.8):
    """Random nonzero float with few digits."""
    val = round(rng.uniform(lo, hi), 3)
    return val if val != 0.0 else 0.5


def _sf(rng):
    """Random signed nonzero float."""
    return _f(rng) * rng.choice([-1.0, 1.0])


def _nprng(rng):
    return np.random.default_rng(rng.getrandbits(32))


def _cons_str(val):
    return 'None' if val is None else str(val)


# ----------------------------------------------------------------------------------------------
# tenpy.linalg
# ----------------------------------------------------------------------------------------------


@recipe('tenpy.linalg.charges.ChargeInfo')
def _r_chargeinfo(cls, rng):
    v = _Variants(cls)
    v.add('trivial', lambda: cls())
    m = rng.choice([2, 3, 4])
    v.add(f'U1xZ{m}', lambda: cls([1, m], ['N', f'Z{m}']))
    v.add('U1-unnamed', lambda: cls([1]))
    return v.items


@recipe('tenpy.linalg.charges.DipolarChargeInfo')
def _r_dipolarchargeinfo(cls, rng):
    v = _Variants(cls)
    v.add('N,P-1d', lambda: cls([1, 1], ['N', 'P'], [0], [1], [0]))
    m = rng.choice([2, 3])
    v.add(f'N,Z{m},P-1d', lambda: cls([1, m, 1], ['N', 'Q', 'P'], [0], [2], [0]))
    return v.items


def _some_chinfo(rng):
    from tenpy.linalg import charges

    which = rng.choice(['U1', 'Z2', 'U1xZ3', 'trivial'])
    if which == 'U1':
        return which, charges.ChargeInfo([1], ['2*Sz'])
    if which == 'Z2':
        return which, charges.ChargeInfo([2], ['parity'])
    if which == 'U1xZ3':
        return which, charges.ChargeInfo([1, 3], ['N', 'Z3'])
    return which, charges.ChargeInfo()


def _some_leg(rng, chinfo, nblocks=None, qconj=None):
    from tenpy.linalg import charges

    nblocks = nblocks or rng.randint(2, 4)
    qflat = []
    for _ in range(nblocks):
        q = [int(x) for x in chinfo.make_valid([rng.randint(-2, 2) for _ in range(chinfo.qnumber)])]
        qflat.extend([q] * rng.randint(1, 2))
    qconj = qconj or rng.choice([1, -1])
    return charges.LegCharge.from_qflat(chinfo, qflat, qconj)


@recipe('tenpy.linalg.charges.LegCharge')
def _r_legcharge(cls, rng):
    from tenpy.linalg import charges

    v = _Variants(cls)
    name, chinfo = _some_chinfo(rng)
    v.add(f'from_qflat-{name}', lambda: cls.from_qflat(chinfo, _some_leg(rng, chinfo).to_qflat(), rng.choice([1, -1])))
    n = rng.randint(1, 4)
    v.add(f'trivial-{n}', lambda: cls.from_trivial(n))
    ci = charges.ChargeInfo([1], ['N'])
    v.add('sorted-bunched-U1', lambda: cls.from_qflat(ci, [[-1], [0], [0], [2]], -1).bunch()[1])
    v.add('unsorted-blocked', lambda: cls(ci, [0, 2, 3, 5], [[1], [-1], [1]], 1))
    return v.items


@recipe('tenpy.linalg.charges.LegPipe')
def _r_legpipe(cls, rng):
    from tenpy.linalg import charges

    v = _Variants(cls)
    ci = charges.ChargeInfo([1], ['N'])
    l1 = charges.LegCharge.from_qflat(ci, [[0], [1], [1]], 1)
    l2 = charges.LegCharge.from_qflat(ci, [[-1], [0], [2]], rng.choice([1, -1]))
    qc = rng.choice([1, -1])
    v.add(f'2legs-sorted-qconj={qc}', lambda: cls([l1, l2], qconj=qc))
    v.add('2legs-unsorted-unbunched', lambda: cls([l1, l2], sort=False, bunch=False))
    name, chinfo = _some_chinfo(rng)
    legs = [_some_leg(rng, chinfo, 2) for _ in range(rng.randint(2, 3))]
    v.add(f'{len(legs)}legs-{name}', lambda: cls(legs))
    return v.items


@recipe('tenpy.linalg.np_conserved.Array')
def _r_array(cls, rng):
    import tenpy.linalg.np_conserved as npc
    from tenpy.linalg import charges
    from tenpy.networks import site

    v = _Variants(cls)
    nprng = _nprng(rng)
    shape = (rng.randint(1, 3), rng.randint(1, 4))
    v.add(f'trivial-{shape[0]}x{shape[1]}', lambda: cls.from_ndarray_trivial(nprng.normal(size=shape), labels=['a', 'b']))
    v.add('SpinHalf-Sp', lambda: site.SpinHalfSite('Sz').Sp)
    ci = charges.ChargeInfo([1], ['N'])
    leg = charges.LegCharge.from_qflat(ci, [[-1], [0], [0], [1]], 1)
    v.add(
        'random-U1-complex',
        lambda: cls.from_func(
            lambda size: nprng.normal(size=size) + 1.0j * nprng.normal(size=size),
            [leg, leg.conj()],
            dtype=np.complex128,
            labels=['p', 'p*'],
        ),
    )
    leg2 = charges.LegCharge.from_qflat(ci, [[0], [1]], 1)

    def with_pipe():
        a = cls.from_func(nprng.normal, [leg, leg2, leg.conj()], qtotal=[1], shape_kw='size', labels=['x', 'y', 'z'])
        return a.combine_legs(['x', 'y'])

    v.add('pipe-qtotal=1', with_pipe)
    v.add('zeros-int', lambda: npc.zeros([leg2, leg2.conj()], dtype=np.int64, labels=['a', 'b']))
    return v.items


@recipe('tenpy.linalg.truncation.TruncationError')
def _r_truncerr(cls, rng):
    v = _Variants(cls)
    v.add('default', lambda: cls())
    eps, ov = rng.uniform(0, 1e-3), rng.uniform(0.9, 1.0)
    v.add('eps-ov', lambda: cls(eps, ov))
    v.add('from_norm', lambda: cls.from_norm(rng.uniform(0.5, 1.0), 1.0))
    v.add('sum', lambda: cls(1.0e-5, 1.0 - 2.0e-5) + cls(eps, ov))
    return v.items


# ----------------------------------------------------------------------------------------------
# tenpy.tools
# ----------------------------------------------------------------------------------------------


@recipe('tenpy.tools.hdf5_io.Hdf5Exportable', inherit=False)
def _r_exportable(cls, rng):
    v = _Variants(cls)
    v.add('empty', lambda: cls())

    def plain():
        obj = cls()
        obj.some_attr = 'something'
        obj.number = rng.randint(-5, 5)
        obj.real = rng.uniform(-1, 1)
        obj.cplx = complex(rng.uniform(-1, 1), rng.uniform(-1, 1))
        obj.a_list = [1, 2.5, 'three', None, (4, 5)]
        obj.an_array = _nprng(rng).normal(size=(2, 3))
        obj.a_dict = {'a': 1, 'b': [1, 2], 3: 'int-key'}
        return obj

    v.add('attrs', plain)

    def nested():
        obj = plain()
        obj.child = cls()
        obj.child.value = np.arange(4)
        obj.shared = [obj.child, obj.child]
        return obj

    v.add('nested-shared', nested)
    return v.items


@recipe('tenpy.tools.params.Config')
def _r_config(cls, rng):
    v = _Variants(cls)
    v.add('empty', lambda: cls({}, 'empty'))

    def nested(read_some):
        chi = rng.choice([10, 50, 100])
        opts = {
            'dt': rng.uniform(0.01, 0.1),
            'N_steps': rng.randint(1, 5),
            'order': rng.choice([1, 2, 4]),
            'trunc_params': {'chi_max': chi, 'svd_min': 1.0e-10},
            'mixer': rng.choice([True, False]),
            'name_list': ['a', 'b'],
            'array': np.arange(3) * 0.5,
            'nothing': None,
        }
        cfg = cls(opts, 'MyAlgorithm')
        if read_some:
            cfg.get('dt', 0.1)
            cfg.get('missing_with_default', 7)
            sub = cfg.subconfig('trunc_params')
            sub.get('chi_max', 100)
            cfg.touch('mixer')
        return cfg

    v.add('nested-all-unused', lambda: nested(False))
    v.add('nested-some-read', lambda: nested(True))

    def nonstr_keys():
        # unused keys are saved as str(key); keep them mutually sortable (Config.__del__ sorts them)
        cfg = cls({1: 'one', 2: [3, 4], 'two': 2}, 'nonstr')
        cfg.get('two', None)
        return cfg

    v.add('non-str-keys-unused', nonstr_keys)
    return v.items


# ----------------------------------------------------------------------------------------------
# tenpy.networks.site
# ----------------------------------------------------------------------------------------------


@recipe('tenpy.networks.site.Site', inherit=False)
def _r_site(cls, rng):
    from tenpy.linalg import charges

    v = _Variants(cls)
    ci = charges.ChargeInfo([1], ['2*Sz'])

    def spin_half(sort_charge):
        leg = charges.LegCharge.from_qflat(ci, [[1], [-1]])
        Sz = np.diag([0.5, -0.5])
        Sp = np.array([[0.0, 1.0], [0.0, 0.0]])
        s = cls(leg, ['up', 'down'], sort_charge=sort_charge, Sz=Sz, Sp=Sp, Sm=Sp.T)
        s.add_op('SzSz', 0.25 * np.eye(2), hc='SzSz')
        return s

    sc = rng.choice([True, False])
    v.add(f'spin-half-sort_charge={sc}', lambda: spin_half(sc))
    d = rng.randint(2, 4)

    def trivial():
        leg = charges.LegCharge.from_trivial(d)
        return cls(leg, [f's{i}' for i in range(d)], N=np.diag(np.arange(d, dtype=float)))

    v.add(f'trivial-d{d}', trivial)
    v.add('no-labels-no-ops', lambda: cls(charges.LegCharge.from_qflat(ci, [[0], [2]]), None))

    def with_jw():
        leg = charges.LegCharge.from_qflat(ci, [[0], [1]])
        C = np.array([[0.0, 1.0], [0.0, 0.0]])
        s = cls(leg, ['empty', 'full'], JW=np.diag([1.0, -1.0]))
        s.add_op('C', C, need_JW=True, hc=False)
        s.add_op('Cd', C.T, need_JW=True, hc='C')
        return s

    v.add('with-JW-ops', with_jw)
    return v.items


@recipe('tenpy.networks.site.SpinHalfSite')
def _r_spinhalfsite(cls, rng):
    v = _Variants(cls)
    for cons in rng.sample(['Sz', 'parity', 'None'], 2):
        sc = rng.choice([True, False])
        v.add(f'conserve={cons}-sort_charge={sc}', lambda: cls(conserve=cons, sort_charge=sc))
    v.add('default', lambda: cls())
    return v.items


@recipe('tenpy.networks.site.SpinSite')
def _r_spinsite(cls, rng):
    v = _Variants(cls)
    for S in rng.sample([0.5, 1, 1.5], 2):
        cons = rng.choice(['Sz', 'parity', 'None'])
        sc = rng.choice([True, False])
        v.add(f'S={S}-conserve={cons}-sort_charge={sc}', lambda: cls(S=S, conserve=cons, sort_charge=sc))
    v.add('S=1-dipole', lambda: cls(S=1, conserve='dipole'))
    return v.items


@recipe('tenpy.networks.site.FermionSite')
def _r_fermionsite(cls, rng):
    v = _Variants(cls)
    for cons in rng.sample(['N', 'parity', 'None'], 2):
        fill = rng.choice([0.5, 0.25, 1.0])
        v.add(f'conserve={cons}-filling={fill}', lambda: cls(conserve=cons, filling=fill))
    return v.items


@recipe('tenpy.networks.site.SpinHalfFermionSite', 'tenpy.networks.site.SpinHalfHoleSite')
def _r_spinhalffermionsite(cls, rng):
    v = _Variants(cls)
    combos = [(n, s) for n in ['N', 'parity', None] for s in ['Sz', 'parity', None]]
    for cons_N, cons_Sz in rng.sample(combos, 3):
        v.add(
            f'cons_N={_cons_str(cons_N)}-cons_Sz={_cons_str(cons_Sz)}',
            lambda: cls(cons_N=cons_N, cons_Sz=cons_Sz, filling=rng.choice([1.0, 0.5])),
        )
    return v.items


@recipe('tenpy.networks.site.BosonSite')
def _r_bosonsite(cls, rng):
    v = _Variants(cls)
    for cons in rng.sample(['N', 'parity', 'None'], 2):
        Nmax = rng.randint(1, 3)
        fill = rng.choice([0.0, 0.5, 1.0])
        v.add(f'Nmax={Nmax}-conserve={cons}-filling={fill}', lambda: cls(Nmax=Nmax, conserve=cons, filling=fill))
    Nmax = rng.randint(1, 2)
    v.add(f'Nmax={Nmax}-dipole', lambda: cls(Nmax=Nmax, conserve='dipole'))
    return v.items


@recipe('tenpy.networks.site.ClockSite')
def _r_clocksite(cls, rng):
    v = _Variants(cls)
    for q in rng.sample([2, 3, 4], 2):
        cons = rng.choice(['Z', 'None'])
        sc = rng.choice([True, False])
        v.add(f'q={q}-conserve={cons}-sort_charge={sc}', lambda: cls(q, conserve=cons, sort_charge=sc))
    return v.items


@recipe('tenpy.networks.site.GroupedSite')
def _r_groupedsite(cls, rng):
    from tenpy.networks import site

    v = _Variants(cls)
    cons = rng.choice(['Sz', 'parity'])
    ch = rng.choice(['same', 'drop', 'independent'])
    v.add(
        f'2xSpinHalf-{cons}-charges={ch}',
        lambda: cls([site.SpinHalfSite(cons), site.SpinHalfSite(cons)], charges=ch),
    )
    v.add(
        'Fermion+Fermion-labels',
        lambda: cls([site.FermionSite('N'), site.FermionSite('N')], labels=['a', 'b'], charges='same'),
    )
    v.add(
        'Spin1+SpinHalf-independent',
        lambda: cls([site.SpinSite(1, 'Sz'), site.SpinHalfSite('Sz')], charges='independent'),
    )
    return v.items


def _pick_site(rng, kinds=('spinhalf', 'fermion', 'boson', 'spin1', 'trivial')):
    """Return (tag, site) of a random simple site."""
    from tenpy.networks import site

    kind = rng.choice(list(kinds))
    if kind == 'spinhalf':
        cons = rng.choice(['Sz', 'parity', 'None'])
        return f'SpinHalf({cons})', site.SpinHalfSite(cons)
    if kind == 'fermion':
        cons = rng.choice(['N', 'parity', 'None'])
        return f'Fermion({cons})', site.FermionSite(cons)
    if kind == 'boson':
        cons = rng.choice(['N', 'parity', 'None'])
        return f'Boson(2,{cons})', site.BosonSite(2, cons)
    if kind == 'spin1':
        cons = rng.choice(['Sz', 'parity', 'None'])
        return f'Spin1({cons})', site.SpinSite(1, cons)
    return 'SpinHalf(None)', site.SpinHalfSite('None')


# ----------------------------------------------------------------------------------------------
# lattices
# ----------------------------------------------------------------------------------------------


def _bc_1d(rng):
    bc_MPS = rng.choice(['finite', 'infinite'])
    bc = 'periodic' if bc_MPS == 'infinite' else rng.choice(['open', 'periodic'])
    return bc, bc_MPS


def _bc_2d(rng):
    bc_MPS = rng.choice(['finite', 'infinite'])
    bc_x = 'periodic' if bc_MPS == 'infinite' else 'open'
    bc_y = rng.choice(['open', 'periodic'])
    return [bc_x, bc_y], bc_MPS


@recipe('tenpy.models.lattice.Lattice', inherit=False)
def _r_lattice(cls, rng):
    v = _Variants(cls)
    t1, s1 = _pick_site(rng)
    bc, bc_MPS = _bc_1d(rng)
    L = rng.randint(2, 4)
    v.add(f'1D-L{L}-{t1}-bc={bc}-{bc_MPS}', lambda: cls([L], [s1], bc=bc, bc_MPS=bc_MPS))
    t2, s2 = _pick_site(rng, ['spinhalf', 'fermion'])
    bc2, bc_MPS2 = _bc_2d(rng)
    order = rng.choice(['default', 'snake', 'Fstyle', 'snakeFstyle'])

    def two_dim():
        pairs = {'nearest_neighbors': [(0, 1, np.array([0, 0])), (1, 0, np.array([1, 0])), (0, 0, np.array([0, 1]))]}
        return cls(
            [2, 2],
            [s2, s2],
            order=order,
            bc=bc2,
            bc_MPS=bc_MPS2,
            basis=[[1.0, 0.0], [0.5, 0.75]],
            positions=[[0.0, 0.0], [0.5, 0.1]],
            pairs=pairs,
        )

    v.add(f'2D-2x2x2-{t2}-order={order}-bc={bc2[0]},{bc2[1]}-{bc_MPS2}', two_dim)

    def disorder():
        lat = cls([3], [s1, s1], bc='open', bc_MPS='finite', positions=[[0.0], [0.4]])
        lat.position_disorder = _nprng(rng).normal(scale=0.05, size=lat.shape + (1,))
        return lat

    v.add('1D-position_disorder', disorder)

    def shifted():
        return cls([2, 3], [s2], bc=['periodic', rng.choice([-1, 1])], bc_MPS='infinite')

    v.add('2D-bc_shift-infinite', shifted)

    def segment():
        lat = cls([4], [s1], bc='periodic', bc_MPS='infinite')
        return lat.extract_segment(1, 2)

    v.add('1D-extract_segment', segment)
    return v.items


@recipe('tenpy.models.lattice.TrivialLattice', inherit=False)
def _r_triviallattice(cls, rng):
    from tenpy.networks import site

    v = _Variants(cls)
    t1, s1 = _pick_site(rng)
    L = rng.randint(2, 5)
    v.add(f'L{L}-{t1}', lambda: cls([s1] * L))
    bc, bc_MPS = _bc_1d(rng)
    sA, sB = site.SpinHalfSite('Sz'), site.SpinSite(1, 'Sz')
    v.add(f'mixed-sites-bc={bc}-{bc_MPS}', lambda: cls([sA, sB, sA, sB], bc=bc, bc_MPS=bc_MPS))
    return v.items


@recipe('tenpy.models.lattice.SimpleLattice', inherit=False)
def _r_simplelattice(cls, rng):
    v = _Variants(cls)
    t1, s1 = _pick_site(rng)
    bc, bc_MPS = _bc_1d(rng)
    L = rng.randint(2, 4)
    v.add(f'1D-L{L}-{t1}-bc={bc}-{bc_MPS}', lambda: cls([L], s1, bc=bc, bc_MPS=bc_MPS))
    bc2, bc_MPS2 = _bc_2d(rng)
    order = rng.choice(['default', 'snake', 'Fstyle'])
    v.add(
        f'2D-2x3-order={order}-bc={bc2[0]},{bc2[1]}-{bc_MPS2}',
        lambda: cls([2, 3], s1, order=order, bc=bc2, bc_MPS=bc_MPS2, basis=[[1.0, 0.0], [0.5, 1.0]]),
    )
    v.add('3D-2x2x2', lambda: cls([2, 2, 2], s1, bc='open', bc_MPS='finite'))
    return v.items


@recipe('tenpy.models.lattice.MultiSpeciesLattice', inherit=False)
def _r_multispecies(cls, rng):
    import copy

    from tenpy.models import lattice
    from tenpy.networks import site

    v = _Variants(cls)

    def fermions(simple_lat, conserve):
        f = site.FermionSite(conserve)
        sites = [f, copy.copy(f)]
        site.set_common_charges(sites, 'same')
        return cls(simple_lat, sites, ['up', 'down'])

    bc, bc_MPS = _bc_1d(rng)
    L = rng.randint(2, 3)
    cons = rng.choice(['N', 'parity', 'None'])
    v.add(f'Chain-L{L}-2xFermion({cons})-{bc_MPS}', lambda: fermions(lattice.Chain(L, None, bc=bc, bc_MPS=bc_MPS), cons))
    v.add('Honeycomb-1x2-2xFermion(N)', lambda: fermions(lattice.Honeycomb(1, 2, None), 'N'))

    def spin_half_species():
        sites, names = site.spin_half_species(site.FermionSite, 'N', 'Sz')
        return cls(lattice.Square(2, 2, None, bc=['open', 'periodic']), sites, names)

    v.add('Square-2x2-spin_half_species', spin_half_species)

    def default_names():
        s1, s2 = site.SpinHalfSite('None'), site.SpinSite(1, 'None')
        return cls(lattice.Chain(2, None), [s1, s2])

    v.add('Chain-default-names', default_names)
    return v.items


@recipe('tenpy.models.lattice.IrregularLattice', inherit=False)
def _r_irregular(cls, rng):
    from tenpy.models import lattice
    from tenpy.networks import site

    v = _Variants(cls)
    F, S = site.FermionSite('None'), site.SpinHalfSite('None')
    L = rng.randint(2, 4)

    def remove_last():
        reg = lattice.Lattice([L], [F, S], bc='open', bc_MPS='finite')
        return cls(reg, remove=[[L - 1, 1]])

    v.add(f'remove-last-L{L}', remove_last)

    def add_center():
        reg = lattice.Lattice([L], [F])
        return cls(reg, add=([[(L - 1) // 2, 1]], [None]), add_unit_cell=[S], add_positions=[[0.5]])

    v.add(f'add-center-L{L}', add_center)

    def square_hole():
        reg = lattice.Square(2, 3, S, bc=['open', rng.choice(['open', 'periodic'])])
        return cls(reg, remove=[[rng.randint(0, 1), rng.randint(0, 2), 0]])

    v.add('Square-2x3-remove-one', square_hole)

    def remove_and_add():
        reg = lattice.Chain(4, F)
        return cls(reg, remove=[[0, 0]], add=([[2, 1]], [2.5]), add_unit_cell=[S])

    v.add('Chain-remove-and-add', remove_and_add)
    return v.items


@recipe('tenpy.models.lattice.HelicalLattice', inherit=False)
def _r_helical(cls, rng):
    from tenpy.models import lattice
    from tenpy.networks import site

    v = _Variants(cls)
    cons = rng.choice(['Sz', 'parity', 'None'])
    s = site.SpinHalfSite(cons)
    Ly = rng.randint(2, 3)
    N = rng.choice([1, 2])
    v.add(
        f'Square-2x{Ly}-N_unit_cells={N}-{cons}',
        lambda: cls(lattice.Square(2, Ly, s, bc=['periodic', -1], bc_MPS='infinite'), N),
    )
    v.add(
        'Honeycomb-1x2-N_unit_cells=1',
        lambda: cls(lattice.Honeycomb(1, 2, s, order='Cstyle', bc=['periodic', -1], bc_MPS='infinite'), 1),
    )
    v.add(
        'Triangular-2x2-N_unit_cells=4',
        lambda: cls(lattice.Triangular(2, 2, s, bc=['periodic', -1], bc_MPS='infinite'), 4),
    )
    return v.items


@recipe('tenpy.models.lattice.Chain')
def _r_chain(cls, rng):
    v = _Variants(cls)
    for order in ['default', 'folded']:
        t, s = _pick_site(rng)
        bc, bc_MPS = _bc_1d(rng)
        L = rng.randint(2, 5)
        v.add(f'L{L}-{t}-order={order}-bc={bc}-{bc_MPS}', lambda: cls(L, s, order=order, bc=bc, bc_MPS=bc_MPS))
    _, s = _pick_site(rng)
    v.add('segment', lambda: cls(4, s, bc='periodic', bc_MPS='infinite').extract_segment(0, 2))
    return v.items


@recipe('tenpy.models.lattice.Ladder')
def _r_ladder(cls, rng):
    from tenpy.networks import site

    v = _Variants(cls)
    t, s = _pick_site(rng)
    bc, bc_MPS = _bc_1d(rng)
    L = rng.randint(2, 3)
    order = rng.choice(['default', 'folded'])
    v.add(f'L{L}-{t}-order={order}-bc={bc}-{bc_MPS}', lambda: cls(L, s, order=order, bc=bc, bc_MPS=bc_MPS))
    sA, sB = site.SpinHalfSite('Sz'), site.SpinSite(1, 'Sz')
    v.add('L2-two-different-sites', lambda: cls(2, [sA, sB]))
    return v.items


@recipe('tenpy.models.lattice.NLegLadder')
def _r_nlegladder(cls, rng):
    v = _Variants(cls)
    t, s = _pick_site(rng)
    bc, bc_MPS = _bc_1d(rng)
    N = rng.randint(2, 3)
    order = rng.choice(['default', 'folded'])
    v.add(f'L2-N{N}-{t}-order={order}-bc={bc}-{bc_MPS}', lambda: cls(2, N, s, order=order, bc=bc, bc_MPS=bc_MPS))
    v.add('L3-N2-default', lambda: cls(3, 2, s))
    return v.items


@recipe('tenpy.models.lattice.Square', 'tenpy.models.lattice.Triangular')
def _r_square(cls, rng):
    v = _Variants(cls)
    for _ in range(2):
        t, s = _pick_site(rng)
        bc, bc_MPS = _bc_2d(rng)
        order = rng.choice(['default', 'snake', 'Fstyle', 'snakeFstyle'])
        Lx, Ly = rng.randint(1, 2), rng.randint(2, 3)
        v.add(
            f'{Lx}x{Ly}-{t}-order={order}-bc={bc[0]},{bc[1]}-{bc_MPS}',
            lambda: cls(Lx, Ly, s, order=order, bc=bc, bc_MPS=bc_MPS),
        )
    _, s = _pick_site(rng, ['spinhalf'])
    v.add('2x2-bc_shift-infinite', lambda: cls(2, 2, s, bc=['periodic', -1], bc_MPS='infinite'))
    return v.items


@recipe('tenpy.models.lattice.Honeycomb', 'tenpy.models.lattice.Kagome')
def _r_honeycomb(cls, rng):
    from tenpy.networks import site

    v = _Variants(cls)
    t, s = _pick_site(rng)
    bc, bc_MPS = _bc_2d(rng)
    order = rng.choice(['default', 'snake', 'rings'])
    Lx, Ly = rng.randint(1, 2), 2
    v.add(
        f'{Lx}x{Ly}-{t}-order={order}-bc={bc[0]},{bc[1]}-{bc_MPS}',
        lambda: cls(Lx, Ly, s, order=order, bc=bc, bc_MPS=bc_MPS),
    )
    sA, sB = site.SpinHalfSite('Sz'), site.SpinSite(1, 'Sz')
    n_u = len(cls(1, 1, None).unit_cell)
    v.add('1x2-different-sites', lambda: cls(1, 2, [sA, sB, sA][:n_u]))
    return v.items


@recipe('tenpy.models.toric_code.DualSquare')
def _r_dualsquare(cls, rng):
    v = _Variants(cls)
    t, s = _pick_site(rng, ['spinhalf'])
    bc, bc_MPS = _bc_2d(rng)
    Lx, Ly = rng.randint(1, 2), 2
    v.add(f'{Lx}x{Ly}-{t}-bc={bc[0]},{bc[1]}-{bc_MPS}', lambda: cls(Lx, Ly, s, bc=bc, bc_MPS=bc_MPS))
    v.add('2x3-default', lambda: cls(2, 3, s))
    return v.items


@recipe('tenpy.models.mixed_xk.MixedXKLattice')
def _r_mixedxklattice(cls, rng):
    from tenpy.linalg import charges

    v = _Variants(cls)
    for _ in range(2):
        N_rings, Ly = rng.randint(1, 2), rng.randint(2, 3)
        conserve_k = rng.choice([True, False])
        bc_MPS = rng.choice(['finite', 'infinite'])
        bc = 'periodic' if bc_MPS == 'infinite' else 'open'
        spinful = rng.choice([True, False])
        if spinful:
            N_orb, chinfo, chs = 2, charges.ChargeInfo([1, 1], ['Charge', 'Spin']), [[1, 1], [1, -1]]
        else:
            N_orb, chinfo, chs = 1, charges.ChargeInfo([1], ['Charge']), [[1]]
        ring_order = None
        if rng.choice([True, False]):
            ring_order = list(range(Ly * N_orb))
            rng.shuffle(ring_order)
        v.add(
            f'rings{N_rings}-Ly{Ly}-N_orb{N_orb}-conserve_k={conserve_k}-{bc_MPS}-ring_order={ring_order}',
            lambda: cls.from_charges_of_orbitals(
                N_rings, Ly, N_orb, chinfo, chs, conserve_k, ring_order=ring_order, bc=bc, bc_MPS=bc_MPS
            ),
        )
    return v.items


# ----------------------------------------------------------------------------------------------
# tenpy.networks.terms
# ----------------------------------------------------------------------------------------------

_OPS = ['Sz', 'Sp', 'Sm', 'Sx', 'Id']


@recipe('tenpy.networks.terms.OnsiteTerms')
def _r_onsiteterms(cls, rng):
    v = _Variants(cls)
    L = rng.randint(2, 5)

    def build():
        ot = cls(L)
        for _ in range(rng.randint(1, 5)):
            ot.add_onsite_term(_sf(rng), rng.randrange(L), rng.choice(_OPS))
        return ot

    v.add(f'L{L}-random', build)
    v.add('L3-empty', lambda: cls(3))

    def cplx():
        ot = cls(2)
        ot.add_onsite_term(complex(_sf(rng), _sf(rng)), 0, 'Sp')
        ot.add_onsite_term(_sf(rng), 0, 'Sp')  # summed up with previous
        return ot

    v.add('L2-complex-strength', cplx)
    return v.items


def _fill_coupling(ct, L, rng, n):
    for _ in range(n):
        i = rng.randrange(L)
        j = i + rng.randint(1, L + 1)  # j > i, may be beyond the unit cell
        ct.add_coupling_term(_sf(rng), i, j, rng.choice(_OPS[:4]), rng.choice(_OPS[:4]), rng.choice(['Id', 'JW']))


@recipe('tenpy.networks.terms.CouplingTerms', inherit=False)
def _r_couplingterms(cls, rng):
    v = _Variants(cls)
    L = rng.randint(2, 5)

    def build():
        ct = cls(L)
        _fill_coupling(ct, L, rng, rng.randint(1, 5))
        return ct

    v.add(f'L{L}-random', build)
    v.add('L2-empty', lambda: cls(2))
    return v.items


@recipe('tenpy.networks.terms.MultiCouplingTerms')
def _r_multicouplingterms(cls, rng):
    v = _Variants(cls)
    L = rng.randint(3, 5)

    def build():
        mc = cls(L)
        _fill_coupling(mc, L, rng, rng.randint(1, 3))
        for _ in range(rng.randint(1, 3)):
            n = rng.randint(3, 4)
            ijkl = sorted(rng.sample(range(L + 2), n))
            ops = [rng.choice(_OPS[:4]) for _ in range(n)]
            op_str = [rng.choice(['Id', 'JW']) for _ in range(n - 1)]
            mc.add_multi_coupling_term(_sf(rng), ijkl, ops, op_str)
        return mc

    v.add(f'L{L}-random', build)
    v.add('L3-empty', lambda: cls(3))

    def only_two_body():
        mc = cls(4)
        _fill_coupling(mc, 4, rng, 3)
        return mc

    v.add('L4-only-2-body', only_two_body)
    return v.items


@recipe('tenpy.networks.terms.ExponentiallyDecayingTerms')
def _r_expdecterms(cls, rng):
    v = _Variants(cls)
    L = rng.randint(3, 6)

    def build():
        edt = cls(L)
        edt.add_exponentially_decaying_coupling(_sf(rng), rng.uniform(0.1, 0.9), 'Sz', 'Sz')
        subs = sorted(rng.sample(range(L), 2))
        edt.add_exponentially_decaying_coupling(_sf(rng), rng.uniform(0.1, 0.9), 'Sp', 'Sm', subsites=subs, op_string='JW')
        return edt

    v.add(f'L{L}-uniform+subsites', build)

    def nonuniform_centered():
        edt = cls(L)
        lam = [rng.uniform(0.1, 0.9) for _ in range(L)]
        edt.add_exponentially_decaying_coupling(_sf(rng), np.array(lam), 'Sx', 'Sx')
        edt.add_centered_exponentially_decaying_term(_sf(rng), rng.uniform(0.1, 0.9), 'Sz', 'Sz', rng.randrange(L))
        return edt

    v.add(f'L{L}-nonuniform+centered', nonuniform_centered)
    v.add('L2-empty', lambda: cls(2))
    return v.items


@recipe('tenpy.networks.terms.TermList')
def _r_termlist(cls, rng):
    v = _Variants(cls)

    def build():
        terms, strengths = [], []
        for _ in range(rng.randint(1, 5)):
            n = rng.randint(1, 3)
            idx = sorted(rng.sample(range(6), n))
            terms.append([(rng.choice(_OPS[:4]), i) for i in idx])
            strengths.append(_sf(rng))
        return cls(terms, strengths)

    v.add('random', build)
    v.add('single-strength', lambda: cls([[('Sz', 0)], [('Sp', 0), ('Sm', 1)]], 1.0))
    v.add(
        'complex-strength',
        lambda: cls([[('Cd', 0), ('C', 2)], [('C', 0), ('Cd', 2)]], [complex(_sf(rng), _sf(rng)), -0.5j]),
    )
    return v.items


# ----------------------------------------------------------------------------------------------
# MPS family
# ----------------------------------------------------------------------------------------------


def _product_state(rng, site_, L):
    labels = [lbl for lbl in ['up', 'down', 'empty', 'full', '0', '1'] if lbl in site_.state_labels]
    if len(labels) >= 2:
        return [rng.choice(labels[:2]) for _ in range(L)]
    return [rng.randrange(site_.dim) for _ in range(L)]


def _entangle(psi, rng, chi=3):
    """Cheaply generate some entanglement: random unitary two-site gates."""
    from tenpy.algorithms.tebd import RandomUnitaryEvolution

    eng = RandomUnitaryEvolution(psi, {'N_steps': 2, 'trunc_params': {'chi_max': chi}})
    # note: uses numpy's *global* random state -> seed it deterministically and restore
    state = np.random.get_state()
    np.random.seed(rng.getrandbits(31))
    try:
        eng.run()
    finally:
        np.random.set_state(state)
    return psi


@recipe('tenpy.networks.mps.MPS', inherit=False)
def _r_mps(cls, rng):
    from tenpy.models import lattice
    from tenpy.networks import site

    v = _Variants(cls)
    # finite product state, nontrivial charges
    cons = rng.choice(['Sz', 'parity', 'None'])
    s = site.SpinHalfSite(cons)
    L = rng.randint(2, 5)
    v.add(
        f'finite-L{L}-product-SpinHalf({cons})',
        lambda: cls.from_product_state([s] * L, _product_state(rng, s, L), bc='finite', unit_cell_width=L),
    )
    # singlets
    L2 = rng.choice([4, 6])

    def singlets():
        idx = list(range(L2))
        rng.shuffle(idx)
        pairs = [tuple(sorted(idx[2 * k : 2 * k + 2])) for k in range(L2 // 2)]
        return cls.from_singlets(site.SpinHalfSite('Sz'), L2, pairs, bc='finite', unit_cell_width=L2)

    v.add(f'finite-L{L2}-singlets', singlets)
    # infinite, entangled by random unitaries, fermions with filling (shifted charges)
    consf = rng.choice(['N', 'parity', 'None'])

    def infinite_entangled():
        f = site.FermionSite(consf, filling=0.5)
        psi = cls.from_product_state([f] * 4, ['empty', 'full'] * 2, bc='infinite', unit_cell_width=4)
        return _entangle(psi, rng)

    v.add(f'infinite-L4-entangled-Fermion({consf})', infinite_entangled)

    # lattice product state (2D), complex dtype
    def lat_product():
        sq = lattice.Square(2, 2, site.SpinHalfSite('Sz'), bc=['open', 'periodic'])
        p_state = [[['up'], ['down']], [['down'], ['up']]]
        return cls.from_lat_product_state(sq, p_state, dtype=np.complex128)

    v.add('finite-Square2x2-lat_product-complex', lat_product)

    # segment
    def segment():
        s1 = site.SpinSite(1, 'Sz')
        psi = cls.from_product_state([s1] * 4, ['up', 'down'] * 2, bc='infinite', unit_cell_width=4)
        _entangle(psi, rng)
        return psi.extract_segment(1, 3)

    v.add('segment-from-infinite-Spin1', segment)

    # mixed canonical form, two charges
    def mixed_form():
        sf = site.SpinHalfFermionSite('N', 'Sz')
        psi = cls.from_product_state([sf] * 3, ['up', 'down', 'full'], bc='finite', unit_cell_width=3)
        _entangle(psi, rng, 4)
        psi.convert_form('A')
        psi.norm = 0.5 + rng.random()
        return psi

    v.add('finite-L3-SpinHalfFermion-form=A-norm', mixed_form)
    return v.items


@recipe('tenpy.networks.purification_mps.PurificationMPS', inherit=False)
def _r_purification(cls, rng):
    from tenpy.networks import site

    v = _Variants(cls)
    cons = rng.choice(['Sz', 'parity', 'None'])
    s = site.SpinHalfSite(cons)
    L = rng.randint(2, 4)
    v.add(f'infiniteT-finite-L{L}-SpinHalf({cons})', lambda: cls.from_infiniteT([s] * L, bc='finite', unit_cell_width=L))
    f = site.FermionSite(rng.choice(['N', 'parity']))
    v.add('infiniteT-infinite-L2-Fermion', lambda: cls.from_infiniteT([f] * 2, bc='infinite', unit_cell_width=2))

    def canonical():
        sz = site.SpinHalfSite('Sz')
        return cls.from_infiniteT_canonical([sz] * 4, [0], unit_cell_width=4)

    v.add('infiniteT_canonical-L4', canonical)
    return v.items


def _small_umps(rng, entangled, cons='None'):
    from tenpy.networks import mps, site, uniform_mps

    s = site.SpinHalfSite(conserve=cons, sort_charge=False)
    L = rng.choice([2, 4])
    psi = mps.MPS.from_product_state([s] * L, [0, 1] * (L // 2), bc='infinite', unit_cell_width=L)
    if entangled:
        _entangle(psi, rng, 2)
    return uniform_mps.UniformMPS.from_MPS(psi), L


@recipe('tenpy.networks.uniform_mps.UniformMPS', inherit=False)
def _r_umps(cls, rng):
    from tenpy.networks import mps, site

    v = _Variants(cls)

    def from_mps(entangled, cons):
        s = site.SpinHalfSite(conserve=cons)
        L = rng.choice([2, 4])
        psi = mps.MPS.from_product_state([s] * L, ['up', 'down'] * (L // 2), bc='infinite', unit_cell_width=L)
        if entangled:
            _entangle(psi, rng, 2)
        return cls.from_MPS(psi)

    cons = rng.choice(['Sz', 'parity', 'None'])
    v.add(f'from_MPS-product-SpinHalf({cons})', lambda: from_mps(False, cons))
    cons2 = rng.choice(['Sz', 'parity', 'None'])
    v.add(f'from_MPS-entangled-SpinHalf({cons2})', lambda: from_mps(True, cons2))

    def singlet():
        psi = mps.MPS.from_singlets(site.SpinHalfSite('Sz'), 2, [(0, 1)], bc='infinite', unit_cell_width=2)
        return cls.from_MPS(psi)

    v.add('from_MPS-singlet-L2', singlet)
    return v.items


@recipe('tenpy.networks.momentum_mps.MomentumMPS', inherit=False)
def _r_momentum_mps(cls, rng):
    v = _Variants(cls)

    def build(entangled, cons):
        upsi, L = _small_umps(rng, entangled, cons)
        nprng = _nprng(rng)
        Xs = []
        for B in upsi._AC:
            B = B.copy()
            B = B + 0.3 * type(B).from_func(
                nprng.normal, B.legs, dtype=B.dtype, qtotal=B.qtotal, shape_kw='size', labels=B.get_leg_labels()
            )
            Xs.append(B / B.norm())
        return cls(Xs, upsi, p=round(rng.uniform(-1.0, 1.0), 3))

    v.add('product-uMPS-None', lambda: build(False, 'None'))
    cons = rng.choice(['Sz', 'parity'])
    v.add(f'entangled-uMPS-{cons}', lambda: build(True, cons))
    return v.items


@recipe('tenpy.networks.mpo.MPO', inherit=False)
def _r_mpo(cls, rng):
    from tenpy.models import tf_ising, xxz_chain
    from tenpy.networks import site

    v = _Variants(cls)
    L = rng.randint(2, 4)
    cons = rng.choice(['parity', 'None'])
    v.add(
        f'TFIChain-finite-L{L}-{cons}',
        lambda: tf_ising.TFIChain({'L': L, 'J': _f(rng), 'g': _f(rng), 'conserve': cons, 'bc_MPS': 'finite'}).H_MPO,
    )
    consx = rng.choice(['Sz', 'parity', 'None'])
    v.add(
        f'XXZChain-infinite-L2-{consx}',
        lambda: xxz_chain.XXZChain({'L': 2, 'Jxx': _f(rng), 'Jz': _f(rng), 'hz': _f(rng), 'conserve': consx, 'bc_MPS': 'infinite'}).H_MPO,
    )

    def grids():
        s = site.SpinHalfSite('Sz')
        lam, hz = rng.uniform(0.1, 0.9), _sf(rng)
        grid = [[s.Id, s.Sz, hz * s.Sz], [None, lam * s.Id, s.Sz], [None, None, s.Id]]
        L_mpo = rng.randint(1, 3)
        return cls.from_grids([s] * L_mpo, [grid] * L_mpo, bc='infinite', IdL=0, IdR=2, max_range=np.inf, mps_unit_cell_width=L_mpo)

    v.add('from_grids-infinite-exp-decay', grids)

    def plus_hc():
        return tf_ising.TFIChain({'L': 3, 'J': _f(rng), 'g': _f(rng), 'explicit_plus_hc': True, 'bc_MPS': 'finite'}).H_MPO

    v.add('explicit_plus_hc-finite-L3', plus_hc)

    def u_mpo():
        M = xxz_chain.XXZChain({'L': 3, 'Jxx': _f(rng), 'Jz': _f(rng), 'hz': 0.0, 'bc_MPS': 'finite'})
        return M.H_MPO.make_U_II(-0.05j)

    v.add('make_U_II-complex-finite-L3', u_mpo)
    return v.items


# ----------------------------------------------------------------------------------------------
# models: abstract-ish bases, instantiated directly
# ----------------------------------------------------------------------------------------------


def _spin_chain_lattice(rng, cons=None, L=None):
    from tenpy.models import lattice
    from tenpy.networks import site

    cons = cons or rng.choice(['Sz', 'parity', 'None'])
    bc_MPS = rng.choice(['finite', 'infinite'])
    bc = 'periodic' if bc_MPS == 'infinite' else 'open'
    L = L or rng.randint(2, 4)
    lat = lattice.Chain(L, site.SpinHalfSite(cons), bc=bc, bc_MPS=bc_MPS)
    return f'Chain-L{L}-SpinHalf({cons})-{bc_MPS}', lat


def _add_xxz_terms(model, rng, cons):
    """Add some terms compatible with the conserved charge to a CouplingModel."""
    model.add_onsite(_sf(rng), 0, 'Sz')
    model.add_coupling(_sf(rng), 0, 'Sz', 0, 'Sz', 1)
    model.add_coupling(_sf(rng), 0, 'Sp', 0, 'Sm', 1, plus_hc=True)
    if cons == 'None':
        model.add_onsite(_sf(rng), 0, 'Sx')
    if cons in ('None', 'parity'):
        model.add_coupling(_sf(rng), 0, 'Sx', 0, 'Sx', 1)


def _lat_cons(lat):
    names = lat.unit_cell[0].leg.chinfo.names
    if not names:
        return 'None'
    return 'Sz' if names[0] == '2*Sz' else 'parity'


@recipe('tenpy.models.model.Model', inherit=False)
def _r_model(cls, rng):
    from tenpy.models import lattice
    from tenpy.networks import site

    v = _Variants(cls)
    tag, lat = _spin_chain_lattice(rng)
    v.add(tag, lambda: cls(lat))
    t, s = _pick_site(rng)
    v.add(f'Square-2x2-{t}', lambda: cls(lattice.Square(2, 2, s)))

    def with_rng():
        m = cls(lattice.Honeycomb(1, 2, site.FermionSite('N')))
        m.rng.random(size=rng.randint(1, 4))  # creates m._rng and advances its state
        return m

    v.add('Honeycomb-with-used-rng', with_rng)
    return v.items


@recipe('tenpy.models.model.CouplingModel', inherit=False)
def _r_couplingmodel(cls, rng):
    v = _Variants(cls)
    for plus_hc in [False, True]:
        tag, lat = _spin_chain_lattice(rng)

        def build():
            m = cls(lat, explicit_plus_hc=plus_hc)
            _add_xxz_terms(m, rng, _lat_cons(lat))
            if rng.choice([True, False]) and lat.N_sites >= 3:
                m.add_multi_coupling(_sf(rng), [('Sz', 0, 0), ('Sz', 1, 0), ('Sz', 2, 0)])
            return m

        v.add(f'{tag}-explicit_plus_hc={plus_hc}', build)

    def exp_decay():
        tag, lat = _spin_chain_lattice(rng, 'Sz', 3)
        m = cls(lat)
        m.add_exponentially_decaying_coupling(_sf(rng), rng.uniform(0.1, 0.9), 'Sz', 'Sz')
        m.add_local_term(_sf(rng), [('Sz', [0, 0]), ('Sz', [2, 0])])
        return m

    v.add('exp-decaying+local-term', exp_decay)
    tag2, lat2 = _spin_chain_lattice(rng)
    v.add(f'{tag2}-no-terms', lambda: cls(lat2))
    return v.items


@recipe('tenpy.models.model.MPOModel', inherit=False)
def _r_mpomodel(cls, rng):
    from tenpy.models import tf_ising, xxz_chain

    v = _Variants(cls)
    for bc_MPS in ['finite', 'infinite']:
        L = rng.randint(2, 4)
        cons = rng.choice(['Sz', 'parity', 'None'])

        def build():
            M = xxz_chain.XXZChain({'L': L, 'Jxx': _f(rng), 'Jz': _f(rng), 'hz': _f(rng), 'conserve': cons, 'bc_MPS': bc_MPS})
            return cls(M.lat, M.H_MPO)

        v.add(f'from-XXZChain-L{L}-{cons}-{bc_MPS}', build)

    def square():
        M = tf_ising.TFIModel({'lattice': 'Square', 'Lx': 2, 'Ly': 2, 'J': _f(rng), 'g': _f(rng), 'bc_MPS': 'finite'})
        return cls(M.lat, M.H_MPO)

    v.add('from-TFIModel-Square2x2', square)
    return v.items


@recipe('tenpy.models.model.NearestNeighborModel', inherit=False)
def _r_nnmodel(cls, rng):
    from tenpy.models import tf_ising, xxz_chain

    v = _Variants(cls)
    for bc_MPS in ['finite', 'infinite']:
        L = rng.randint(2, 4)
        cons = rng.choice(['Sz', 'parity', 'None'])

        def build():
            M = xxz_chain.XXZChain({'L': L, 'Jxx': _f(rng), 'Jz': _f(rng), 'hz': _f(rng), 'conserve': cons, 'bc_MPS': bc_MPS})
            return cls(M.lat, M.H_bond)

        v.add(f'H_bond-of-XXZChain-L{L}-{cons}-{bc_MPS}', build)

    def from_mpo_model():
        M = tf_ising.TFIModel({'L': 3, 'J': _f(rng), 'g': _f(rng), 'bc_MPS': 'finite'})
        return cls.from_MPOModel(M)

    v.add('from_MPOModel-TFIModel-L3', from_mpo_model)
    return v.items


def _init_with_hooks(cls, params, **hooks):
    """Instantiate `cls(params)` with subclass hooks (init_lattice/init_sites/init_terms) bound
    on the *instance* for the duration of ``__init__`` only, such that an abstract-ish base class
    gets initialized by its own code and ``type(obj) is cls`` holds."""
    obj = cls.__new__(cls)
    for name, func in hooks.items():
        setattr(obj, name, func.__get__(obj))
    try:
        obj.__init__(params)
    finally:
        for name in hooks:
            obj.__dict__.pop(name, None)
    return obj


@recipe('tenpy.models.model.CouplingMPOModel', inherit=False)
def _r_couplingmpomodel(cls, rng):
    from tenpy.models import lattice
    from tenpy.networks import site

    v = _Variants(cls)
    for given_lattice in [True, False]:
        cons = rng.choice(['Sz', 'parity', 'None'])
        plus_hc = rng.choice([True, False])
        sort_legs = rng.choice([True, False])
        if given_lattice:
            tag, lat = _spin_chain_lattice(rng, cons)
            params = {'lattice': lat}
        else:
            gtag, params = _geom_2d(rng, ('Square', 'Ladder', 'Honeycomb'))
            tag = f'{gtag}-SpinHalf({cons})-via-init_sites'
        params.update({'explicit_plus_hc': plus_hc, 'sort_mpo_legs': sort_legs})

        def init_sites(self, model_params):
            return site.SpinHalfSite(cons)

        def init_terms(self, model_params):
            for u in range(len(self.lat.unit_cell)):
                self.add_onsite(_sf(rng), u, 'Sz')
            for u1, u2, dx in self.lat.pairs['nearest_neighbors']:
                self.add_coupling(_sf(rng), u1, 'Sz', u2, 'Sz', dx)
                self.add_coupling(_sf(rng), u1, 'Sp', u2, 'Sm', dx, plus_hc=True)
                if cons != 'Sz':
                    self.add_coupling(_sf(rng), u1, 'Sx', u2, 'Sx', dx)

        v.add(
            f'{tag}-explicit_plus_hc={plus_hc}-sort_mpo_legs={sort_legs}',
            lambda: _init_with_hooks(cls, params, init_sites=init_sites, init_terms=init_terms),
        )

    def ladder():
        lat = lattice.Ladder(2, site.FermionSite('N'), bc='periodic', bc_MPS='infinite')

        def init_terms(self, model_params):
            for u1, u2, dx in self.lat.pairs['nearest_neighbors']:
                self.add_coupling(_sf(rng), u1, 'Cd', u2, 'C', dx, plus_hc=True)
            self.add_onsite(_sf(rng), 0, 'N')

        m = _init_with_hooks(cls, {'lattice': lat}, init_terms=init_terms)
        m.rng.random(size=2)  # creates and advances m._rng
        return m

    v.add('Ladder-L2-infinite-fermion-hopping-used-rng', ladder)
    return v.items


@recipe('tenpy.models.mixed_xk.MixedXKModel', inherit=False)
def _r_mixedxkmodel(cls, rng):
    """MixedXKModel.init_lattice needs extra arguments normally supplied by a subclass."""
    from tenpy.linalg import charges

    v = _Variants(cls)
    for spinful in [False, True]:
        Lx, Ly = rng.randint(1, 2), 2 if spinful else rng.randint(2, 3)
        bc_MPS = rng.choice(['finite', 'infinite'])
        conserve_k = rng.choice([True, False])
        if spinful:
            N_orb, chinfo, chs = 2, charges.ChargeInfo([1, 1], ['Charge', 'Spin']), [[1, 1], [1, -1]]
        else:
            N_orb, chinfo, chs = 1, charges.ChargeInfo([1], ['Charge']), [[1]]

        def init_lattice(self, model_params):
            return cls.init_lattice(self, model_params, N_orb, chinfo, chs)

        def init_terms(self, model_params):
            t, mu = _f(rng), _sf(rng)
            hop = np.zeros((Ly, N_orb, Ly, N_orb))
            intra = np.zeros((Ly, N_orb, Ly, N_orb), dtype=complex)
            cos_k = np.real(self.lat.get_exp_ik(np.arange(Ly)))
            for k in range(Ly):
                for l in range(N_orb):
                    hop[k, l, k, l] = -t
                    intra[k, l, k, l] = -2.0 * t * cos_k[k] - mu
            self.add_inter_ring_hopping(hop, dx=1)
            self.add_intra_ring_hopping(intra)

        params = {'Lx': Lx, 'Ly': Ly, 'bc_MPS': bc_MPS, 'conserve_k': conserve_k}
        v.add(
            f'Lx{Lx}-Ly{Ly}-spinful={spinful}-{bc_MPS}-conserve_k={conserve_k}',
            lambda: _init_with_hooks(cls, params, init_lattice=init_lattice, init_terms=init_terms),
        )
    return v.items


# ----------------------------------------------------------------------------------------------
# models: concrete classes, table of parameter generators
# ----------------------------------------------------------------------------------------------

MODEL_PARAMS = {}  # 'module.QualName' -> function(rng) -> [(tag, params_dict), ...]


def model_params(*names):
    def deco(func):
        for name in names:
            MODEL_PARAMS[name] = func
            RECIPES[name] = (_r_table_model, True)
        return func

    return deco


def _r_table_model(cls, rng):
    gen = None
    for base in inspect.getmro(cls):
        gen = MODEL_PARAMS.get(class_name(base))
        if gen is not None:
            break
    v = _Variants(cls)
    for tag, params in gen(rng):
        v.add(tag, lambda: cls(params))
    return v.items


def _geom_1d(rng, Lmin=2, Lmax=4, infinite=None):
    """(tag, params) for a chain; `infinite` None -> random."""
    if infinite is None:
        infinite = rng.choice([True, False])
    bc_MPS = 'infinite' if infinite else 'finite'
    L = rng.randint(Lmin, Lmax)
    return f'{bc_MPS}-L{L}', {'L': L, 'bc_MPS': bc_MPS}


def _geom_2d(rng, lattices=('Square', 'Triangular', 'Ladder', 'Honeycomb')):
    lat = rng.choice(list(lattices))
    bc_MPS = rng.choice(['finite', 'infinite'])
    if lat == 'Ladder':
        L = rng.randint(2, 3)
        return f'{bc_MPS}-Ladder-L{L}', {'lattice': lat, 'L': L, 'bc_MPS': bc_MPS}
    bc_y = rng.choice(['cylinder', 'ladder'])
    Lx = rng.randint(1, 2) if bc_MPS == 'infinite' else 2
    params = {'lattice': lat, 'Lx': Lx, 'Ly': 2, 'bc_y': bc_y, 'bc_MPS': bc_MPS}
    return f'{bc_MPS}-{lat}-{Lx}x2-{bc_y}', params


def _variants_1d_2d(rng, couplings, two_d=True, lattices=('Square', 'Triangular', 'Ladder', 'Honeycomb')):
    """Combine geometry and couplings: finite chain, infinite chain, (optionally) a 2D lattice.

    `couplings` is a function(rng) -> (tag, dict)."""
    res = []
    geoms = [_geom_1d(rng, infinite=False), _geom_1d(rng, infinite=True)]
    if two_d:
        geoms.append(_geom_2d(rng, lattices))
    for gtag, gpar in geoms:
        ctag, cpar = couplings(rng)
        params = dict(gpar)
        params.update(cpar)
        res.append((f'{gtag}-{ctag}', params))
    return res


def _c_tfi(rng):
    cons = rng.choice(['parity', 'None'])
    sc = rng.choice([True, False])
    par = {'J': _f(rng), 'g': _f(rng), 'conserve': cons, 'sort_charge': sc}
    if rng.random() < 0.3:
        par['explicit_plus_hc'] = True
    return f'conserve={cons}-sort_charge={sc}' + ('-plus_hc' if 'explicit_plus_hc' in par else ''), par


@model_params('tenpy.models.tf_ising.TFIModel')
def _p_tfimodel(rng):
    return _variants_1d_2d(rng, _c_tfi)


@model_params('tenpy.models.tf_ising.TFIChain')
def _p_tfichain(rng):
    return _variants_1d_2d(rng, _c_tfi, two_d=False)


def _c_clock(rng):
    q = rng.randint(2, 4)
    cons = rng.choice(['Z', 'None'])
    return f'q={q}-conserve={cons}', {'q': q, 'J': _f(rng), 'g': _f(rng), 'conserve': cons, 'sort_charge': rng.choice([True, False])}


@model_params('tenpy.models.clock.ClockModel')
def _p_clockmodel(rng):
    return _variants_1d_2d(rng, _c_clock, lattices=('Square', 'Ladder'))


@model_params('tenpy.models.clock.ClockChain')
def _p_clockchain(rng):
    return _variants_1d_2d(rng, _c_clock, two_d=False)


def _c_fermion(rng):
    cons = rng.choice(['N', 'parity', 'None'])
    return f'conserve={cons}', {'J': _f(rng), 'V': _f(rng), 'mu': _sf(rng), 'conserve': cons}


@model_params('tenpy.models.fermions_spinless.FermionModel')
def _p_fermionmodel(rng):
    res = _variants_1d_2d(rng, _c_fermion, two_d=False)
    phi = round(rng.uniform(0.1, 0.9), 3)
    res.append(
        (
            f'infinite-Square-1x2-cylinder-phi_ext={phi}',
            {'lattice': 'Square', 'Lx': 1, 'Ly': 2, 'bc_y': 'cylinder', 'bc_MPS': 'infinite', 'J': _f(rng), 'V': _f(rng), 'phi_ext': phi},
        )
    )
    return res


@model_params('tenpy.models.fermions_spinless.FermionChain')
def _p_fermionchain(rng):
    return _variants_1d_2d(rng, _c_fermion, two_d=False)


@model_params('tenpy.models.haldane.BosonicHaldaneModel', 'tenpy.models.haldane.FermionicHaldaneModel')
def _p_haldane(rng):
    res = []
    for bc_MPS in ['finite', 'infinite']:
        cons = rng.choice(['N', 'parity', 'None'])
        Lx = 1 if bc_MPS == 'infinite' else rng.randint(1, 2)
        bc_y = rng.choice(['cylinder', 'ladder'])
        par = {'Lx': Lx, 'Ly': 2, 'bc_MPS': bc_MPS, 'bc_y': bc_y, 'conserve': cons, 't1': -_f(rng), 'V': _f(rng), 'mu': _sf(rng)}
        if rng.choice([True, False]):
            par['t2'] = complex(_f(rng, 0.05, 0.3), _f(rng, 0.05, 0.3))
        res.append((f'{bc_MPS}-{Lx}x2-{bc_y}-conserve={cons}' + ('-t2' if 't2' in par else ''), par))
    return res


def _p_hofstadter_common(rng):
    res = []
    for bc_MPS in ['finite', 'infinite']:
        gauge = rng.choice(['landau_x', 'landau_y'])
        cons = rng.choice(['N', 'parity', 'None'])
        # landau_x: need mx = Lx multiple of q (phi = p/q) for infinite/periodic x
        par = {'Lx': 3, 'Ly': 3, 'phi': (1, 3), 'bc_MPS': bc_MPS, 'gauge': gauge, 'conserve': cons, 'mu': _sf(rng)}
        par['bc_y'] = rng.choice(['cylinder', 'ladder'])
        res.append((f"{bc_MPS}-3x3-{par['bc_y']}-gauge={gauge}-conserve={cons}", par))
    return res


@model_params('tenpy.models.hofstadter.HofstadterFermions')
def _p_hofstadter_f(rng):
    res = _p_hofstadter_common(rng)
    for _, par in res:
        par['v'] = _f(rng)
    return res


@model_params('tenpy.models.hofstadter.HofstadterBosons')
def _p_hofstadter_b(rng):
    res = _p_hofstadter_common(rng)
    for _, par in res:
        par['U'] = _f(rng)
        par['Nmax'] = 1
    return res


def _c_bosehubbard(rng):
    cons = rng.choice(['N', 'parity', 'None'])
    n_max = rng.randint(1, 3)
    return f'n_max={n_max}-conserve={cons}', {'n_max': n_max, 'conserve': cons, 't': _f(rng), 'U': _f(rng), 'V': _f(rng), 'mu': _sf(rng)}


@model_params('tenpy.models.hubbard.BoseHubbardModel')
def _p_bosehubbardmodel(rng):
    return _variants_1d_2d(rng, _c_bosehubbard, lattices=('Square', 'Ladder'))


@model_params('tenpy.models.hubbard.BoseHubbardChain')
def _p_bosehubbardchain(rng):
    return _variants_1d_2d(rng, _c_bosehubbard, two_d=False)


@model_params('tenpy.models.hubbard.DipolarBoseHubbardChain')
def _p_dipolarbosehubbard(rng):
    res = []
    for bc_MPS in ['finite', 'infinite']:
        # finite variant always conserves the dipole moment (DipolarChargeInfo), the other is random
        cons = rng.choice(['best', 'dipole'] if bc_MPS == 'finite' else ['best', 'dipole', 'N', 'parity', None])
        Nmax = rng.randint(1, 2)
        L = rng.randint(4, 5)
        par = {'L': L, 'Nmax': Nmax, 'conserve': cons, 'bc_MPS': bc_MPS, 'U': _f(rng), 't': _f(rng), 't4': rng.choice([0, _f(rng)]), 'mu': _sf(rng)}
        res.append((f'{bc_MPS}-L{L}-Nmax={Nmax}-conserve={_cons_str(cons)}', par))
    return res


def _c_fermihubbard(rng):
    cons_N = rng.choice(['N', 'parity', 'None'])
    cons_Sz = rng.choice(['Sz', 'parity', 'None'])
    par = {'cons_N': cons_N, 'cons_Sz': cons_Sz, 't': _f(rng), 'U': _f(rng), 'V': _f(rng), 'mu': _sf(rng)}
    return f'cons_N={cons_N}-cons_Sz={cons_Sz}', par


@model_params('tenpy.models.hubbard.FermiHubbardModel')
def _p_fermihubbardmodel(rng):
    return _variants_1d_2d(rng, _c_fermihubbard, lattices=('Square', 'Ladder'))


@model_params('tenpy.models.hubbard.FermiHubbardModel2')
def _p_fermihubbardmodel2(rng):
    def coup(rng):
        # note: cons_Sz='parity' is rejected by spin_half_species ("charges invalid", -1 mod 4)
        tag, par = _c_fermihubbard(rng)
        if par['cons_Sz'] == 'parity':
            par['cons_Sz'] = 'Sz'
        return f"cons_N={par['cons_N']}-cons_Sz={par['cons_Sz']}", par

    return _variants_1d_2d(rng, coup, lattices=('Square', 'Ladder'))


@model_params('tenpy.models.hubbard.FermiHubbardChain')
def _p_fermihubbardchain(rng):
    return _variants_1d_2d(rng, _c_fermihubbard, two_d=False)


@model_params('tenpy.models.mixed_xk.SpinlessMixedXKSquare')
def _p_spinlessmixedxk(rng):
    res = []
    for bc_MPS in ['finite', 'infinite']:
        Lx, Ly = rng.randint(1, 2), rng.randint(2, 3)
        ck = rng.choice([True, False])
        par = {'Lx': Lx, 'Ly': Ly, 'bc_MPS': bc_MPS, 'conserve_k': ck, 't': _f(rng), 'V': _f(rng)}
        res.append((f'{bc_MPS}-Lx{Lx}-Ly{Ly}-conserve_k={ck}', par))
    return res


@model_params('tenpy.models.mixed_xk.HubbardMixedXKSquare')
def _p_hubbardmixedxk(rng):
    res = []
    for bc_MPS in ['finite', 'infinite']:
        Lx = rng.randint(1, 2)
        ck = rng.choice([True, False])
        par = {'Lx': Lx, 'Ly': 2, 'bc_MPS': bc_MPS, 'conserve_k': ck, 't': _f(rng), 'U': _f(rng)}
        res.append((f'{bc_MPS}-Lx{Lx}-Ly2-conserve_k={ck}', par))
    return res


@model_params('tenpy.models.molecular.MolecularModel')
def _p_molecular(rng):
    res = []
    for with_two_body in [False, True]:
        norb = rng.randint(2, 3)
        nprng = _nprng(rng)
        h1 = nprng.normal(size=(norb, norb))
        h1 = np.round(h1 + h1.T, 3)
        cons_N = rng.choice(['N', 'parity', None])
        cons_Sz = rng.choice(['Sz', 'parity', None])
        par = {'one_body_tensor': h1, 'cons_N': cons_N, 'cons_Sz': cons_Sz, 'constant': _sf(rng)}
        if with_two_body:
            # (pq|rs) with the 8-fold symmetry of real orbitals
            h2 = nprng.normal(size=(norb,) * 4)
            h2 = h2 + h2.transpose(1, 0, 2, 3)
            h2 = h2 + h2.transpose(0, 1, 3, 2)
            h2 = h2 + h2.transpose(2, 3, 0, 1)
            par['two_body_tensor'] = np.round(h2, 3)
        res.append((f'norb={norb}-two_body={with_two_body}-cons_N={_cons_str(cons_N)}-cons_Sz={_cons_str(cons_Sz)}', par))
    return res


@model_params('tenpy.models.pxp.PXPChain')
def _p_pxp(rng):
    res = []
    for bc_MPS in ['finite', 'infinite']:
        cons = rng.choice(['best', 'parity', 'None'])
        L = rng.randint(3, 5) if bc_MPS == 'finite' else rng.choice([2, 4])
        par = {'L': L, 'bc_MPS': bc_MPS, 'conserve': cons, 'J': _f(rng)}
        if bc_MPS == 'finite' and rng.choice([True, False]):
            par['J_boundary'] = _f(rng)
        res.append((f'{bc_MPS}-L{L}-conserve={cons}', par))
    return res


def _c_spin(rng):
    S = rng.choice([0.5, 1, 1.5])
    cons = rng.choice(['best', 'Sz', 'parity', 'None'])
    par = {'S': S, 'conserve': cons, 'Jx': _f(rng), 'Jz': _f(rng), 'hz': _sf(rng), 'D': _sf(rng), 'sort_charge': rng.choice([True, False])}
    par['Jy'] = par['Jx'] if cons == 'Sz' or rng.choice([True, False]) else _f(rng)
    if cons in ('best', 'None') and rng.choice([True, False]):
        par['hx'] = _sf(rng)
    if cons in ('best', 'None') and rng.random() < 0.3:
        par['muJ'] = _sf(rng)
    extra = ''.join(f'-{k}' for k in ('hx', 'muJ') if k in par)
    return f'S={S}-conserve={cons}{extra}', par


@model_params('tenpy.models.spins.SpinModel')
def _p_spinmodel(rng):
    return _variants_1d_2d(rng, _c_spin)


@model_params('tenpy.models.spins.SpinChain')
def _p_spinchain(rng):
    return _variants_1d_2d(rng, _c_spin, two_d=False)


@model_params('tenpy.models.spins.DipolarSpinChain')
def _p_dipolarspin(rng):
    res = []
    for bc_MPS in ['finite', 'infinite']:
        # finite variant always conserves the dipole moment (DipolarChargeInfo), the other is random
        cons = rng.choice(['best', 'dipole'] if bc_MPS == 'finite' else ['best', 'dipole', 'Sz', 'parity', 'None'])
        S = rng.choice([1, 1.5]) if cons in ('best', 'dipole') else rng.choice([0.5, 1])
        L = rng.randint(4, 5)
        par = {'L': L, 'S': S, 'conserve': cons, 'bc_MPS': bc_MPS, 'J3': _f(rng), 'J4': rng.choice([0, _f(rng)])}
        res.append((f'{bc_MPS}-L{L}-S={S}-conserve={cons}', par))
    return res


def _c_spin_nnn(rng):
    S = rng.choice([0.5, 1])
    cons = rng.choice(['best', 'Sz', 'parity', 'None'])
    par = {'S': S, 'conserve': cons, 'Jx': _f(rng), 'Jz': _f(rng), 'Jzp': _f(rng), 'hz': _sf(rng)}
    par['Jy'] = par['Jx']
    par['Jxp'] = par['Jyp'] = _f(rng)
    if cons in ('best', 'None') and rng.choice([True, False]):
        par['hx'] = _sf(rng)
    return f'S={S}-conserve={cons}' + ('-hx' if 'hx' in par else ''), par


@model_params('tenpy.models.spins_nnn.SpinChainNNN')
def _p_spinchainnnn(rng):
    res = []
    for infinite in [False, True]:
        gtag, gpar = _geom_1d(rng, 2, 3, infinite)  # L counts grouped sites (2 spins each)
        ctag, cpar = _c_spin_nnn(rng)
        res.append((f'{gtag}-{ctag}', dict(gpar, **cpar)))
    return res


@model_params('tenpy.models.spins_nnn.SpinChainNNN2')
def _p_spinchainnnn2(rng):
    res = []
    for infinite in [False, True]:
        gtag, gpar = _geom_1d(rng, 3, 4, infinite)
        ctag, cpar = _c_spin_nnn(rng)
        cpar['sort_charge'] = rng.choice([True, False])
        res.append((f'{gtag}-{ctag}', dict(gpar, **cpar)))
    return res


def _c_tj(rng):
    cons_N = rng.choice(['N', 'parity', 'None'])
    cons_Sz = rng.choice(['Sz', 'parity', 'None'])
    return f'cons_N={cons_N}-cons_Sz={cons_Sz}', {'cons_N': cons_N, 'cons_Sz': cons_Sz, 't': _f(rng), 'J': _f(rng)}


@model_params('tenpy.models.tj_model.tJModel')
def _p_tjmodel(rng):
    return _variants_1d_2d(rng, _c_tj, lattices=('Square', 'Ladder'))


@model_params('tenpy.models.tj_model.tJChain')
def _p_tjchain(rng):
    return _variants_1d_2d(rng, _c_tj, two_d=False)


@model_params('tenpy.models.toric_code.ToricCode')
def _p_toriccode(rng):
    res = []
    for bc_MPS in ['finite', 'infinite']:
        cons = rng.choice(['parity', 'None'])
        Lx = 2 if bc_MPS == 'finite' else rng.randint(1, 2)
        Ly = rng.randint(2, 3) if Lx == 1 else 2
        par = {'Lx': Lx, 'Ly': Ly, 'bc_MPS': bc_MPS, 'conserve': cons, 'Jv': _f(rng), 'Jp': _f(rng), 'sort_charge': rng.choice([True, False])}
        if bc_MPS == 'finite':
            par['bc_y'] = rng.choice(['cylinder', 'ladder'])
        res.append((f'{bc_MPS}-{Lx}x{Ly}-conserve={cons}' + (f"-{par['bc_y']}" if 'bc_y' in par else ''), par))
    return res


def _c_xxz(rng):
    cons = rng.choice(['best', 'Sz', 'parity', 'None'])
    sc = rng.choice([True, False])
    return f'conserve={cons}-sort_charge={sc}', {'Jxx': _f(rng), 'Jz': _f(rng), 'hz': _sf(rng), 'conserve': cons, 'sort_charge': sc}


@model_params('tenpy.models.xxz_chain.XXZChain', 'tenpy.models.xxz_chain.XXZChain2')
def _p_xxz(rng):
    return _variants_1d_2d(rng, _c_xxz, two_d=False)


@model_params('tenpy.models.aklt.AKLTChain')
def _p_aklt(rng):
    def coup(rng):
        # note: conserve='best' raises AttributeError in AKLTChain.__init__ (self.name undefined)
        cons = rng.choice(['Sz', 'parity', 'None'])
        sc = rng.choice([True, False])
        return f'conserve={cons}-sort_charge={sc}', {'J': _f(rng), 'conserve': cons, 'sort_charge': sc}

    return _variants_1d_2d(rng, coup, two_d=False)


# ----------------------------------------------------------------------------------------------
# generic fallback strategies (for classes without a working specific recipe)
# ----------------------------------------------------------------------------------------------


def _first_working(cls, candidates):
    """candidates: list of (tag, thunk). Return up to 2 working variants; raise the last error if none."""
    res, last = [], None
    for tag, thunk in candidates:
        try:
            obj = thunk()
        except Exception as e:  # noqa: BLE001
            last = e
            continue
        if type(obj) is cls:
            res.append((tag, obj))
            if len(res) >= 2:
                break
    if not res and last is not None:
        raise last
    return res


def _g_model(cls, rng):
    cands = []
    for params in [
        {'L': 4},
        {'L': 4, 'bc_MPS': 'infinite'},
        {'Lx': 2, 'Ly': 2},
        {'Lx': 2, 'Ly': 2, 'bc_MPS': 'infinite'},
        {'Lx': 3, 'Ly': 3},
        {},
    ]:
        tag = 'generic-' + (','.join(f'{k}={val}' for k, val in params.items()) or 'defaults')
        cands.append((tag, lambda params=params: _limit_size(cls(dict(params)))))
    return _first_working(cls, cands)


def _limit_size(model, max_sites=16):
    n = model.lat.N_sites
    if n > max_sites:
        raise ValueError(f'generic model instance too large: {n} sites')
    return model


def _g_site(cls, rng):
    cands = [('generic-defaults', lambda: cls())]
    for cons in ['None', None]:
        cands.append((f'generic-conserve={cons}', lambda cons=cons: cls(conserve=cons)))
    for arg in [2, 3, 0.5]:
        cands.append((f'generic-arg={arg}', lambda arg=arg: cls(arg)))
    return _first_working(cls, cands)


def _g_lattice(cls, rng):
    from tenpy.networks import site

    s = site.SpinHalfSite('Sz')
    cands = [
        ('generic-(2,site)', lambda: cls(2, s)),
        ('generic-(2,site)-infinite', lambda: cls(2, s, bc='periodic', bc_MPS='infinite')),
        ('generic-(2,2,site)', lambda: cls(2, 2, s)),
        ('generic-(2,2,site)-infinite', lambda: cls(2, 2, s, bc=['periodic', 'periodic'], bc_MPS='infinite')),
        ('generic-([2,2],site)', lambda: cls([2, 2], s)),
        ('generic-([2,2],[site])', lambda: cls([2, 2], [s])),
        ('generic-([site]*3)', lambda: cls([s] * 3)),
    ]
    return _first_working(cls, cands)


def _g_noargs(cls, rng):
    return _first_working(cls, [('generic-noargs', lambda: cls())])


def _g_L(cls, rng):
    L = rng.randint(2, 4)
    return _first_working(cls, [(f'generic-L={L}', lambda: cls(L))])


def _g_subclass_recipes(cls, rng):
    """Last resort: inherited recipes marked inherit=False (e.g. Lattice for a Lattice subclass
    keeping the base signature)."""
    last = None
    for base in inspect.getmro(cls)[1:]:
        entry = RECIPES.get(class_name(base))
        if entry is None or entry[1]:
            continue
        try:
            res = [(t, o) for t, o in entry[0](cls, rng) if type(o) is cls]
        except Exception as e:  # noqa: BLE001
            last = e
            continue
        if res:
            return res
    if last is not None:
        raise last
    return []


def _generic_strategies(cls):
    strategies = []

    def _is_sub(modname, clsname):
        mod = sys.modules.get(modname)
        base = getattr(mod, clsname, None) if mod is not None else None
        return inspect.isclass(base) and issubclass(cls, base)

    if _is_sub('tenpy.models.model', 'Model'):
        strategies.append(('Model(params)', _g_model))
    if _is_sub('tenpy.networks.site', 'Site'):
        strategies.append(('Site()', _g_site))
    if _is_sub('tenpy.models.lattice', 'Lattice'):
        strategies.append(('Lattice(L.., site)', _g_lattice))
    strategies.append(('cls()', _g_noargs))
    strategies.append(('cls(L)', _g_L))
    strategies.append(('non-inheritable base recipes', _g_subclass_recipes))
    return strategies


# ----------------------------------------------------------------------------------------------
# self test
# ----------------------------------------------------------------------------------------------


def _roundtrip_status(obj):
    """Return (save_error, load_error) strings or None; only used in the self test."""
    import io

    import h5py
    from tenpy.tools import hdf5_io

    save_err = load_err = None
    with _quiet():
        with h5py.File(io.BytesIO(), 'w') as f:
            try:
                hdf5_io.save_to_hdf5(f, {'obj': obj})
            except Exception as e:  # noqa: BLE001
                return _exc(e), 'not attempted'
            try:
                data = hdf5_io.load_from_hdf5(f)
                if type(data['obj']) is not type(obj):
                    load_err = f"loaded type {type(data['obj']).__name__} != {type(obj).__name__}"
            except Exception as e:  # noqa: BLE001
                load_err = _exc(e)
    return save_err, load_err


def _self_test(seeds):
    import time

    classes = discover_classes()
    exit_code = 0
    for seed in seeds:
        rng = random.Random(seed)
        SKIP.clear()
        del FAILED_VARIANTS[:]
        print(f'===== seed {seed}: {len(classes)} classes discovered =====')
        t_total = 0.0
        t_io = 0.0
        n_inst = 0
        instantiated = 0
        io_problems = []
        for cls in classes:
            t0 = time.perf_counter()
            insts = make_instances(cls, rng)
            dt = time.perf_counter() - t0
            t_total += dt
            n_inst += len(insts)
            bad_type = [tag for tag, obj in insts if type(obj) is not cls]
            if insts:
                instantiated += 1
            t1 = time.perf_counter()
            problems = []
            for tag, obj in insts:
                save_err, load_err = _roundtrip_status(obj)
                if save_err or load_err:
                    problems.append((tag, save_err, load_err))
            t_io += time.perf_counter() - t1
            status = 'save/load ok' if not problems else f'save/load RAISED for {len(problems)}/{len(insts)}'
            slow = '  SLOW' if dt > 0.3 * max(1, len(insts)) else ''
            print(f'{class_name(cls):55s} n={len(insts)} t={dt:6.3f}s{slow}  {status}')
            for tag, _ in insts:
                print(f'      - {tag}')
            if bad_type:
                print(f'      !! wrong exact type for {bad_type}')
                exit_code = 1
            for tag, save_err, load_err in problems:
                print(f'      !! {tag}: save: {save_err}; load: {load_err}')
                io_problems.append((class_name(cls), tag, save_err, load_err))
        for name, tag, err in FAILED_VARIANTS:
            print(f'FAILED VARIANT {name} [{tag}]: {err}')
        for name, reason in SKIP.items():
            print(f'SKIPPED {name}: {reason}')
        print(f'save/load problems: {len(io_problems)} instances in classes {sorted({p[0] for p in io_problems})}')
        print(
            f'classes={len(classes)} instantiated={instantiated} skipped={sorted(SKIP)} '
            f'instances={n_inst} failed_variants={len(FAILED_VARIANTS)}'
        )
        print(f'total construction time {t_total:.2f}s; save+load time {t_io:.2f}s (seed {seed})')
    return exit_code


if __name__ == '__main__':
    _seeds = [int(a) for a in sys.argv[1:]] or [0]
    sys.exit(_self_test(_seeds))
