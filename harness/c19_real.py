"""C19: run the real tenpy lattice code on a case, and the independent oracle (brute force, no model).

A *case* is a JSON-able dict
  cls      'Lattice' | 'SimpleLattice' | 'Chain' | 'Ladder' | 'NLegLadder' | 'Square' | 'Triangular' | 'Honeycomb' | 'Kagome'
  Ls, Lu   sizes; Lu = len(unit_cell)
  order    {'name': str} | {'standard': [snake, priority|None]} | {'grouped': [groups, priority|None]} | {'rows': [[...]]}
  bc       list of 'open' | 'periodic' | int (shift), one per direction
  bc_MPS   'finite' | 'infinite' | 'segment'
  variant  None | {'multi': n_species} | {'irregular': {'remove': rows|None, 'add': [rows, [None|[num,den]]]|None, 'n_add_uc': k}}
           | {'helical': n_cells} | {'helical_enlarge': [n_cells, factor]} | {'enlarge': factor}
  q        list of queries (see `run_queries`)
"""
import itertools
import warnings
from fractions import Fraction

import numpy as np

FIXED_LU = {'Chain': 1, 'Square': 1, 'Triangular': 1, 'SimpleLattice': 1, 'Ladder': 2, 'Honeycomb': 2, 'Kagome': 3}
SIMPLE = ('Chain', 'Square', 'Triangular', 'SimpleLattice')
_SITE = []


def _site():
    if not _SITE:
        from tenpy.networks.site import SpinHalfSite
        _SITE.append(SpinHalfSite(conserve=None))
    return _SITE[0]


def order_arg(spec):
    if 'name' in spec:
        return spec['name']
    if 'standard' in spec:
        snake, prio = spec['standard']
        return ('standard', tuple(snake), None if prio is None else tuple(prio))
    if 'grouped' in spec:
        groups, prio = spec['grouped']
        groups = [tuple(g) for g in groups]
        return ('grouped', groups) if prio is None else ('grouped', groups, tuple(prio))
    raise ValueError(spec)


def _construct(case, order, real_sites=False):
    from tenpy.models import lattice as la
    cls = getattr(la, case['cls'])
    Ls, Lu = case['Ls'], case['Lu']
    site = _site() if real_sites else None
    kw = dict(bc=list(case['bc']), bc_MPS=case['bc_MPS'], order=order)
    name = case['cls']
    if name == 'Chain':
        return cls(Ls[0], site, **kw)
    if name == 'Ladder':
        return cls(Ls[0], site, **kw)
    if name == 'NLegLadder':
        return cls(Ls[0], Lu, site, **kw)
    if name in ('Square', 'Triangular', 'Honeycomb', 'Kagome'):
        return cls(Ls[0], Ls[1], site, **kw)
    if name == 'SimpleLattice':
        return cls(Ls, site, **kw)
    return cls(Ls, [site] * Lu, **kw)


def build_real(case, real_sites=False):
    """Construct the tenpy object described by the case (unit cell of `None` placeholders unless real_sites)."""
    from tenpy.models import lattice as la
    spec = case['order']
    var = case.get('variant') or {}
    helical = real_sites or 'helical' in var or 'helical_enlarge' in var
    site = _site() if real_sites else None
    if 'multi' in var:
        simple = _construct(case, 'default', real_sites=real_sites)
        lat = la.MultiSpeciesLattice(simple, [site] * var['multi'])
        if spec != {'name': 'default'}:
            lat.order = lat.ordering(order_arg(spec))
        return lat
    if 'rows' in spec:
        lat = _construct(case, 'default', real_sites=helical)
        lat.order = np.array(spec['rows'], dtype=np.intp)
    else:
        lat = _construct(case, order_arg(spec), real_sites=helical)
    if not var:
        return lat
    if 'enlarge' in var:
        lat.enlarge_mps_unit_cell(var['enlarge'])
        return lat
    if 'irregular' in var:
        ir = var['irregular']
        add = ir.get('add')
        if add is not None:
            add = (np.array(add[0], dtype=np.intp).reshape(len(add[0]), len(case['Ls']) + 1),
                   [None if m is None else (m[0] / m[1] if m[1] != 1 else m[0]) for m in add[1]])
        k = ir.get('n_add_uc', 0)
        return la.IrregularLattice(lat, remove=ir.get('remove'), add=add, add_unit_cell=[site] * k,
                                   add_positions=np.zeros((k, lat.unit_cell_positions.shape[1])))
    if 'helical' in var:
        return la.HelicalLattice(lat, var['helical'])
    if 'helical_enlarge' in var:
        h = la.HelicalLattice(lat, var['helical_enlarge'][0])
        h.enlarge_mps_unit_cell(var['helical_enlarge'][1])
        return h
    raise ValueError(var)


def _ints(a):
    return [int(x) for x in np.asarray(a).reshape(-1)]


def _rows(a, width):
    a = np.asarray(a, dtype=np.int64).reshape(-1, width)
    return [[int(x) for x in r] for r in a]


def dx_box(ms):
    return [list(d) for d in itertools.product(*[range(-m, m + 1) for m in ms])]


def _coup(lat, u1, u2, dx):
    mi, mj, li, sh = lat.possible_couplings(u1, u2, np.array(dx, dtype=np.int64))
    return [_ints(mi), _ints(mj), _rows(li, lat.dim), _ints(sh)]


def _is_helical(lat):
    from tenpy.models import lattice as la
    return isinstance(lat, la.HelicalLattice)


def run_query(lat, q):
    """Answer of the real code to one query, in the canonical JSON form also produced by the Lean driver."""
    t = q[0]
    D = lat.dim
    if t == 'order':
        return _rows(lat.order, D + 1)
    if t == 'perm':
        return _ints(lat._perm)
    if t == 'sizes':
        return [int(lat.N_sites), int(lat.N_cells), [int(x) for x in lat.Ls], len(lat.unit_cell)]
    if t == 'vals_idx':
        return [_ints(lat._mps2lat_vals_idx), [_ints(a) for a in lat._mps2lat_vals_idx_fix_u]]
    if t == 'fix_u':
        return _ints(lat.mps_idx_fix_u(q[1]))
    if t == 'mps2lat':
        idx = list(q[1])
        arr = _rows(lat.mps2lat_idx(np.array(idx, dtype=np.int64)), D + 1) if idx else []
        single = [[int(x) for x in lat.mps2lat_idx(i)] for i in idx]
        if arr != single:
            raise AssertionError(f'mps2lat_idx: array call {arr} != scalar calls {single}')
        return arr
    if t == 'lat2mps':
        rows = q[1]
        arr = _ints(lat.lat2mps_idx(np.array(rows, dtype=np.int64).reshape(len(rows), D + 1))) if rows else []
        single = [int(lat.lat2mps_idx(r)) for r in rows]
        if arr != single:
            raise AssertionError(f'lat2mps_idx: array call {arr} != scalar calls {single}')
        return arr
    if t == 'cshape':
        sh, sf = lat.coupling_shape(q[1])
        return [_ints(sh), _ints(sf)]
    if t == 'mshape':
        sh, sf = lat.multi_coupling_shape(np.array(q[1], dtype=np.int64).reshape(len(q[1]), D))
        return [_ints(sh), _ints(sf)]
    if t == 'coup':
        return _coup(lat, q[1], q[2], q[3])
    if t == 'coupall':
        Lu = len(lat.unit_cell)
        out = []
        for u1 in range(Lu):
            for u2 in range(Lu):
                for dx in dx_box(q[1]):
                    mi, mj, _, _ = lat.possible_couplings(u1, u2, np.array(dx, dtype=np.int64))
                    out.append([_ints(mi), _ints(mj)])
        return out
    if t == 'coupS':
        mi, mj, sv = lat.possible_couplings(q[1], q[2], np.array(q[3], dtype=np.int64),
                                            np.array(q[4], dtype=np.int64).reshape(lat.coupling_shape(q[3])[0]))
        return [_ints(mi), _ints(mj), _ints(sv)]
    if t == 'multi':
        ops = [('X', list(dx), int(u)) for dx, u in q[1]]
        try:
            ijkl, li, sh = lat.possible_multi_couplings(ops)
        except ValueError as e:
            if 'negative dimensions' in str(e):
                return 'error'
            raise
        return [_rows(ijkl, len(ops)), _rows(li, D), _ints(sh)]
    if t == 'values':
        res = lat.mps2lat_values(np.array(q[1], dtype=np.int64), 0, q[2])
        return _ints(res)
    if t == 'masked':
        res = lat.mps2lat_values_masked(np.array(q[1], dtype=np.int64), 0, np.array(q[2], dtype=np.int64), q[3])
        data = np.ma.getdata(res).reshape(-1)
        mask = np.ma.getmaskarray(res).reshape(-1)
        return [[int(s) for s in res.shape], [None if m else int(d) for d, m in zip(data, mask)]]
    if t == 'helical_ok':
        return True
    raise ValueError(q)


def run_queries(case, lat=None):
    """-> (lat, answers) ; answers[k] = canonical answer or {'raised': 'ExcName'}."""
    with warnings.catch_warnings():
        warnings.simplefilter('ignore')
        if lat is None:
            lat = build_real(case)
        out = []
        for q in case['q']:
            try:
                out.append(run_query(lat, q))
            except AssertionError:
                raise
            except Exception as e:  # noqa: BLE001
                out.append({'raised': type(e).__name__, 'msg': str(e)[:200]})
    return lat, out


# ---------------------------------------------------------------------------------------------
# independent oracle: the property stated on the real object, by brute force


def expected_sites(case):
    """The set of existing sites (x..., u) from the *description* of the lattice (not from lat.order)."""
    var = case.get('variant') or {}
    Ls, Lu = list(case['Ls']), case['Lu']
    if 'multi' in var:
        Lu = Lu * var['multi']
    if 'enlarge' in var:
        Ls[0] *= var['enlarge']
    sites = set(itertools.product(*[range(L) for L in Ls], range(Lu)))
    if 'irregular' in var:
        ir = var['irregular']
        for r in ir.get('remove') or []:
            sites.discard(tuple(int(a) % m for a, m in zip(r, Ls + [Lu])))
        if ir.get('add'):
            for r in ir['add'][0]:
                sites.add(tuple(r))
    return sites, Ls, Lu


def bc_of(case):
    """-> (open flags, shifts) per direction from the description."""
    bc = case['bc']
    is_open = [b == 'open' for b in bc]
    shift = [int(b) if isinstance(b, int) else 0 for b in bc]
    return is_open, shift


class Geometry:
    """Sites, MPS numbering taken from `lat.order` row by row, and the identification of points under the
    boundary conditions: going once around direction a >= 1 (x_a -> x_a - L_a) shifts x_0 by `-shift_a`... i.e.
    the point X is identified with X - sum_a k_a P_a, P_a = L_a e_a + shift_a e_0 (a >= 1), P_0 = L_0 e_0, where
    k_a must be 0 in an open direction. For infinite MPS the copy k_0 along x has MPS index shifted by k_0 * N."""

    def __init__(self, case, lat):
        self.case = case
        var = case.get('variant') or {}
        self.helical = 'helical' in var or 'helical_enlarge' in var
        self.sites, self.Ls, self.Lu = expected_sites(case)
        self.open, self.shift = bc_of(case)
        self.finite = case['bc_MPS'] == 'finite'
        self.regular = 'irregular' not in var
        self.D = len(self.Ls)
        if self.helical:
            # the numbering is the one of the (possibly enlarged) regular lattice, C-style up to the unit cell
            reg = lat.regular_lattice
            self.Ls = [int(x) for x in reg.Ls]
            self.sites = set(itertools.product(*[range(L) for L in self.Ls], range(self.Lu)))
            order = reg.order
            self.N = int(reg.N_sites)
            self.N_hel = int(lat.N_sites)
        else:
            order = lat.order
            self.N = len(order)
        self.order = [tuple(int(x) for x in r) for r in order]
        self.mps = {r: i for i, r in enumerate(self.order)}

    def check_bijection(self):
        """rows of `order` = the existing sites, each exactly once"""
        if len(self.mps) != len(self.order):
            return 'order has duplicate rows'
        if set(self.order) != self.sites:
            return f'order rows != existing sites (missing {sorted(self.sites - set(self.order))[:3]}, ' \
                   f'extra {sorted(set(self.order) - self.sites)[:3]})'
        return None

    def image(self, X):
        """Reduce an unwrapped unit-cell position X (ints) -> (cell y, k_0) or None if an open boundary is crossed."""
        X = list(X)
        for a in range(1, self.D):
            k = X[a] // self.Ls[a]
            if k != 0:
                if self.open[a]:
                    return None
                X[a] -= k * self.Ls[a]
                X[0] -= k * self.shift[a]
        k0 = X[0] // self.Ls[0]
        if k0 != 0:
            if self.open[0]:
                return None
            X[0] -= k0 * self.Ls[0]
        return tuple(X), k0

    def normalize(self, idx):
        """translate a tuple of MPS indices of an infinite system such that 0 <= min < N (N of the MPS unit cell)"""
        if self.finite:
            return tuple(idx)
        N = self.N
        m = min(idx)
        s = (m % N) - m
        return tuple(i + s for i in idx)

    def pairs_bruteforce(self, u1, u2, dx):
        """All (i, j) with site(i) = (x, u1), site(j) = (y, u2) existing and y the image of x + dx: brute force over
        all pairs of existing sites, testing whether x + dx - y is an allowed combination of the periods."""
        res = []
        D, Ls = self.D, self.Ls
        for a in self.order:
            if a[-1] != u1:
                continue
            for b in self.order:
                if b[-1] != u2:
                    continue
                diff = [a[k] + dx[k] - b[k] for k in range(D)]
                ok = True
                for k in range(1, D):
                    if diff[k] % Ls[k] != 0:
                        ok = False
                        break
                    kk = diff[k] // Ls[k]
                    if kk != 0 and self.open[k]:
                        ok = False
                        break
                    diff[0] -= kk * self.shift[k]
                if not ok or diff[0] % Ls[0] != 0:
                    continue
                k0 = diff[0] // Ls[0]
                if k0 != 0 and self.open[0]:
                    continue
                i, j = self.mps[a], self.mps[b]
                if self.finite:
                    res.append((i, j))
                else:
                    res.append(self.normalize((i, j + k0 * self.N)))
        if self.helical:
            self.last_full = sorted(res)   # the family of the regular lattice, 0 <= min < N_reg
            res = [p for p in res if min(p) < self.N_hel]
        return sorted(res)

    def multi_bruteforce(self, ops):
        """All tuples of MPS indices of sites (x + dx_k, u_k), over base cells x (one representative per class of
        identified positions), such that every op lands on an existing site without crossing an open boundary."""
        D, Ls = self.D, self.Ls
        maxabs = [max(abs(dx[a]) for dx, _ in ops) for a in range(D)]
        extra0 = sum(abs(self.shift[a]) * (maxabs[a] // Ls[a] + 1) for a in range(1, D))
        ranges = []
        for a in range(D):
            if self.open[a]:
                m = maxabs[a] + (extra0 if a == 0 else 0)
                ranges.append(range(-m, Ls[a] + m))
            else:
                ranges.append(range(Ls[a]))
        res = []
        for x in itertools.product(*ranges):
            idx = []
            for dx, u in ops:
                im = self.image([x[a] + dx[a] for a in range(D)])
                if im is None or im[0] + (u,) not in self.mps:
                    idx = None
                    break
                y, k0 = im
                idx.append(self.mps[y + (u,)] + (0 if self.finite else k0 * self.N))
            if idx is not None:
                res.append(self.normalize(idx))
        if self.helical:
            res = [p for p in res if min(p) < self.N_hel]
        return sorted(res)


def oracle_roundtrip(geo, lat):
    """mps2lat / lat2mps are mutually inverse on the existing sites; periodic extension for non-finite MPS."""
    Nfull = geo.N
    rng_i = range(Nfull) if geo.finite else range(-2 * Nfull, 3 * Nfull)
    for i in rng_i:
        x = [int(v) for v in lat.mps2lat_idx(i)]
        back = int(lat.lat2mps_idx(x))
        if back != i:
            return 'roundtrip.lat2mps(mps2lat(i))!=i', f'i={i} -> lat {x} -> {back}'
        q, r = divmod(i, Nfull)
        want = list(geo.order[r])
        want[0] += q * geo.Ls[0]
        if x != want:
            return 'mps2lat.not-periodic-extension-of-order', f'i={i}: {x} expected {want}'
    shifts = [0] if geo.finite else [-2, -1, 0, 1, 2]
    for s in shifts:
        for i, row in enumerate(geo.order):
            x = list(row)
            x[0] += s * geo.Ls[0]
            got = int(lat.lat2mps_idx(x))
            if got != i + s * Nfull:
                return 'lat2mps.wrong-index', f'lat {x} -> {got} expected {i + s * Nfull}'
            if [int(v) for v in lat.mps2lat_idx(got)] != x:
                return 'roundtrip.mps2lat(lat2mps(x))!=x', f'lat {x} -> {got} -> {lat.mps2lat_idx(got)}'
    return None


def oracle_fix_u(geo, lat):
    rows = [tuple(int(x) for x in r) for r in lat.order]
    for u in range(geo.Lu):
        want = [i for i, r in enumerate(rows) if r[-1] == u]
        if _ints(lat.mps_idx_fix_u(u)) != want:
            return 'mps_idx_fix_u.wrong', f'u={u}: {_ints(lat.mps_idx_fix_u(u))} expected {want}'
    return None


def oracle_values(geo, lat, A, u):
    """res[x] == A[i] for every site i at x (mps2lat_values); A is a 1D int list."""
    from tenpy.models import lattice as la
    res = lat.mps2lat_values(np.array(A, dtype=np.int64), 0, u)
    simple = isinstance(lat, la.SimpleLattice)
    if simple:
        u = 0
    if u is None:
        if tuple(res.shape) != tuple(lat.shape):
            return 'mps2lat_values.shape', f'{res.shape} vs {lat.shape}'
        for i, r in enumerate(geo.order):
            if int(res[r]) != A[i]:
                return 'mps2lat_values.misplaced', f'A[{i}]={A[i]} not at {r}: found {int(res[r])}'
    else:
        if tuple(res.shape) != tuple(lat.Ls):
            return 'mps2lat_values.shape', f'{res.shape} vs {lat.Ls}'
        sel = [i for i, r in enumerate(geo.order) if r[-1] == u]
        for k, i in enumerate(sel):
            if int(res[geo.order[i][:-1]]) != A[k]:
                return 'mps2lat_values.misplaced', f'u={u} A[{k}] not at {geo.order[i][:-1]}'
    return None


def oracle_masked(geo, lat, A, inds, include_u):
    """every A[k] sits at the lattice coordinates of site inds[k] (x_0 < 0 counted from the end, as documented),
    everything else is masked"""
    if geo.finite and any(i < 0 or i >= geo.N for i in inds):
        return None  # not a valid input for a finite MPS
    try:
        res = lat.mps2lat_values_masked(np.array(A, dtype=np.int64), 0, np.array(inds, dtype=np.int64), include_u)
    except IndexError as e:
        sig, det = 'mps2lat_values_masked.raised-IndexError', str(e)[:200]
        res = None
    if res is not None:
        sig = det = None
        data, mask = np.ma.getdata(res), np.ma.getmaskarray(res)
        want = {}
        for k, i in enumerate(inds):
            q, r = divmod(i, geo.N)
            x = list(geo.order[r])
            x[0] += q * geo.Ls[0]
            pos = tuple(x if include_u else x[:-1])
            want.setdefault(pos, []).append(A[k])   # same site coordinates (u dropped): any of the values
        placed = {}
        for pos, vals in want.items():
            if pos[0] >= res.shape[0] or -pos[0] > res.shape[0]:
                sig, det = 'mps2lat_values_masked.shape-too-small', f'{res.shape} for x0={pos[0]}'
                break
            p = (pos[0] % res.shape[0],) + pos[1:]
            if p in placed:
                sig, det = 'mps2lat_values_masked.misplaced', f'coordinates {pos} and {placed[p]} share entry {p}'
                break
            placed[p] = pos
            if mask[p] or int(data[p]) not in vals:
                sig, det = 'mps2lat_values_masked.misplaced', f'value of site {pos} not at {p}'
                break
        if sig is None and int((~mask).sum()) != len(placed):
            sig, det = 'mps2lat_values_masked.extra-unmasked', f'{int((~mask).sum())} unmasked, {len(placed)} expected'
    if sig is None:
        return None
    # input class of the known finding: the first dimension allotted from MPS-index arithmetic
    # (max_i, min_i, N_rings/N_sites) is smaller than what the x_0 of the sites need
    N, R = geo.N, geo.Ls[0]
    alloc_pos = R + ((max(inds) - N) * R // N + 1 if max(inds) >= N else 0)
    alloc_neg = ((-min(inds) - 1) * R // N + 1) if min(inds) < 0 else 0
    x0s = []
    for i in inds:
        q, r = divmod(i, N)
        x0s.append(geo.order[r][0] + q * R)
    if max(x0s) + 1 > alloc_pos or -min(x0s) > alloc_neg:
        sig += '[first-dim-from-mps-index-arithmetic-too-small]'
    return sig, det


def oracle_couplings(geo, lat, u1, u2, dx):
    """(i, j) listed by possible_couplings == brute force over all pairs of existing sites, each exactly once."""
    mi, mj, li, sh = lat.possible_couplings(u1, u2, np.array(dx, dtype=np.int64))
    got = sorted(zip(_ints(mi), _ints(mj)))
    want = geo.pairs_bruteforce(u1, u2, dx)
    if got != want:
        if len(set(got)) != len(got):
            return 'possible_couplings.duplicate-pair', f'{got}'
        miss = sorted(set(want) - set(got))
        extra = sorted(set(got) - set(want))
        kind = 'missing-pair' if miss and not extra else 'extra-pair' if extra and not miss else 'wrong-pairs'
        return f'possible_couplings.{kind}', f'u1={u1} u2={u2} dx={dx}: missing {miss[:4]} extra {extra[:4]}'
    if geo.helical:
        # the helix is translation invariant by its own (smaller) unit cell: the couplings of the regular
        # lattice are exactly the translates of the listed ones
        reps = geo.N // geo.N_hel
        full = sorted((i + m * geo.N_hel, j + m * geo.N_hel) for i, j in got for m in range(reps))
        if full != geo.last_full:
            return 'helical.couplings-not-invariant-under-translation-by-N_sites', f'u1={u1} u2={u2} dx={dx}'
    if not geo.finite:
        for p in got:
            if not (0 <= min(p) < (geo.N_hel if geo.helical else geo.N)):
                return 'possible_couplings.unit-cell-assignment', f'{p}'
    # coupling_shape / lat_indices: the strength array has exactly one entry per coupling (regular lattices)
    sh = _ints(sh)
    rows = _rows(li, geo.D) if len(got) else []
    if any(not (0 <= x < s) for r in rows for x, s in zip(r, sh)):
        return 'coupling_shape.lat_indices-outside-shape', f'u1={u1} u2={u2} dx={dx}: shape {sh} rows {rows[:4]}'
    if geo.regular and not geo.helical:
        n = 1
        for s_ in sh:
            n *= max(s_, 0)
        if len(set(map(tuple, rows))) != len(rows) or len(rows) != n:
            return 'coupling_shape.not-one-entry-per-coupling', \
                f'u1={u1} u2={u2} dx={dx}: shape {sh}, {len(rows)} couplings, {len(set(map(tuple, rows)))} distinct lat_indices'
    return None


def oracle_multi(geo, lat, ops):
    tops = [('X', list(dx), int(u)) for dx, u in ops]
    try:
        ijkl, li, sh = lat.possible_multi_couplings(tops)
    except ValueError as e:
        if 'negative dimensions' not in str(e):
            raise
        ijkl = []
    got = sorted(tuple(r) for r in _rows(ijkl, len(ops))) if len(ijkl) else []
    want = geo.multi_bruteforce(ops)
    if len(ijkl):
        rows, shp = _rows(li, geo.D), _ints(sh)
        if any(not (0 <= x < s) for r in rows for x, s in zip(r, shp)) or len(set(map(tuple, rows))) != len(rows):
            return 'multi_coupling_shape.lat_indices-not-distinct-in-shape', f'ops={ops}: shape {shp} rows {rows[:4]}'
    if got != want:
        if len(set(got)) != len(got):
            return 'possible_multi_couplings.duplicate-row', f'{got[:6]}'
        miss = sorted(set(want) - set(got))
        extra = sorted(set(got) - set(want))
        kind = 'missing-row' if miss and not extra else 'extra-row' if extra and not miss else 'wrong-rows'
        return f'possible_multi_couplings.{kind}', f'ops={ops}: missing {miss[:4]} extra {extra[:4]}'
    return None


def oracle_model_coupling(case, geo, u1, u2, dx):
    """The consumer in tenpy/models/model.py: CouplingModel.add_coupling(1, u1, 'Sz', u2, 'Sz', dx) must create
    exactly one term per brute-force pair (terms are stored with i < j; coinciding unordered pairs add up)."""
    from collections import Counter
    from tenpy.models.model import CouplingModel
    if all(d == 0 for d in dx) and u1 == u2:
        return None
    want = geo.pairs_bruteforce(u1, u2, dx)
    if any(i == j for i, j in want):
        return None  # a site coupled to itself through the boundary: add_coupling does not support it
    if not hasattr(geo, 'model_lat'):
        geo.model_lat = build_real(case, real_sites=True)
    M = CouplingModel(geo.model_lat)
    M.add_coupling(1.0, u1, 'Sz', u2, 'Sz', np.array(dx, dtype=np.int64))
    got = Counter()
    ct = M.coupling_terms.get('Sz_i Sz_j')
    if ct is not None:
        tl = ct.to_TermList()
        for term, st in zip(tl.terms, tl.strength):
            (_, i), (_, j) = term
            got[(int(i), int(j))] += int(round(float(np.real(st))))
            if abs(float(np.real(st)) - round(float(np.real(st)))) > 1e-12:
                return 'add_coupling.non-integer-strength', f'{term} {st}'
    exp = Counter((min(p), max(p)) for p in want)
    if got != exp:
        return 'add_coupling.terms-differ-from-bruteforce', \
            f'u1={u1} u2={u2} dx={dx}: got {sorted(got.items())[:5]} expected {sorted(exp.items())[:5]}'
    return None


# ---------------------------------------------------------------------------------------------
# reference for the documented meaning of an ordering specification (independent of get_order)


def _ref_standard(shape, snake, priority):
    """Documented meaning of ('standard', snake_winding, priority): nested loops over the directions, the direction
    with the highest priority increasing fastest (priority None: C-style, last direction fastest); a direction with
    snake winding is walked forth and back, i.e. each time the next slower direction advances, the whole path through
    this and all faster directions is traversed in reverse."""
    n = len(shape)
    prio = list(range(n)) if priority is None else list(priority)
    dirs = sorted(range(n), key=lambda d: prio[d])  # slowest ... fastest

    def path(k):
        if k == n:
            return [dict()]
        d = dirs[k]
        inner = path(k + 1)
        rev = k + 1 < n and bool(snake[dirs[k + 1]])
        out = []
        for x in range(shape[d]):
            blk = inner[::-1] if (rev and x % 2 == 1) else inner
            for r in blk:
                r2 = dict(r)
                r2[d] = x
                out.append(r2)
        return out
    return [[r[d] for d in range(n)] for r in path(0)]


def _ref_folded(L):
    out, lo, hi = [], 0, L - 1
    while lo < hi:
        out += [lo, hi]
        lo, hi = lo + 1, hi - 1
    if lo == hi:
        out.append(lo)
    return out


def reference_order(case):
    """-> list of rows, or None when no independent reference is implemented for this specification"""
    if case.get('variant'):
        return None
    cls, Ls, Lu, spec = case['cls'], case['Ls'], case['Lu'], case['order']
    shape = list(Ls) + [Lu]
    n = len(shape)
    if 'standard' in spec:
        snake, prio = spec['standard']
        snake = list(snake)
        if cls in SIMPLE:  # given for the spatial directions only; the (single-site) unit cell is the fastest one
            snake = snake + [False]
            prio = list(prio) + [max(prio) + 1]
        return _ref_standard(shape, snake, prio)
    if 'grouped' in spec:
        groups, prio = spec['grouped']
        if prio is not None or n < 3:
            return None
        # first within a group, then along the last spatial direction, then the next group, then C-style the rest
        rows = []
        for xs in itertools.product(*[range(L) for L in shape[:-2]]):
            for gr in groups:
                for y in range(shape[-2]):
                    for g in gr:
                        rows.append(list(xs) + [y, g])
        return rows
    name = spec.get('name')
    if name is None:
        return None
    if cls in ('Chain', 'Ladder', 'NLegLadder') and name in ('default', 'folded'):
        xs = list(range(Ls[0])) if name == 'default' else _ref_folded(Ls[0])
        return [[x, u] for x in xs for u in range(Lu)]
    if cls == 'Honeycomb' and name in ('default', 'rings'):
        return _ref_standard(shape, [False] * 3, [0, 2, 1])
    if cls == 'Honeycomb' and name in ('snake', 'snake_rings'):
        return _ref_standard(shape, [False, False, True], [0, 2, 1])
    if cls == 'Kagome' and name == 'rings':
        return reference_order(dict(case, order={'grouped': [[[0, 2], [1]], None]}))
    if name in ('default', 'Cstyle'):
        return _ref_standard(shape, [False] * n, None)
    if name == 'Fstyle':
        return _ref_standard(shape, [False] * n, list(range(n - 1, -1, -1)))
    if name in ('snake', 'snakeCstyle'):
        return _ref_standard(shape, [True] * n, None)
    if name == 'snakeFstyle':
        return _ref_standard(shape, [True] * n, list(range(n - 1, -1, -1)))
    return None


def oracle_order_spec(case, lat):
    """the order really is the documented path of its specification"""
    ref = reference_order(case)
    if ref is None:
        return None
    got = _rows(lat.order, lat.dim + 1)
    if got != ref:
        k = next((i for i, (a, b) in enumerate(zip(got, ref)) if a != b), min(len(got), len(ref)))
        kind = next(iter(case['order']))
        return f'order.not-the-documented-path[{kind}]', \
            f'{case["order"]}: row {k} is {got[k] if k < len(got) else None}, documented {ref[k] if k < len(ref) else None}'
    return None
