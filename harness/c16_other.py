"""C16: Arnoldi, ArnoldiEvolution, GMRES, gram_schmidt, the operator wrappers of sparse.py and FlatLinearOperator.

Each `eval_*` returns (fails, lines, info): fails = [(kind, signature, detail)], lines = [(tag, driver line, run)].
"""
import numpy as np
import scipy.linalg

from harness import c16_lib as L
from harness.c16_lanczos import rel, krylov_reach

TOL = 1e-9


# --------------------------------------------------------------------------------------------
# generation


def gen_case(rng, part, exact):
    if exact:
        d = rng.choice([1, 2, 2, 3, 3, 4, 4, 5, 6])
    else:
        d = rng.choice([1, 2, 3, 4, 5, 6, 8, 10, 12, 16, 20, 30, 40, 60])
    st = L.gen_structure(rng, d)
    if exact and len(st['qflat']) > d + 4:
        st['qflat'] = [c for c in st['qflat'] if c == st['q']] + [c for c in st['qflat'] if c != st['q']][:4]
        st['blocking'] = 'shuffled-bunched'
    case = dict(part=part, mode='exact' if exact else 'float', st=st, d=d)
    idx = L.sector_indices(st)
    if exact:
        sym = part in ('arnoldi',) and rng.random() < 0.6
        Hs = L.gen_int_symmetric(rng, d, rng.choice(['random', 'sparse', 'complete-graph'])) if sym \
            else L.gen_int_general(rng, d)
        if part == 'gmres':   # keep the system well conditioned: diagonally dominant
            for i in range(d):
                Hs[i][i] = rng.choice([-1, 1]) * (sum(abs(x) for x in Hs[i]) + rng.randint(1, 3))
        case['sym'] = sym
        case['H'] = L.embed_int(st, idx, Hs, rng, symmetric=False)
        case['psi0'] = L.gen_int_vector(rng, d, sparse=rng.random() < 0.3)
    else:
        case['nseed'] = rng.getrandbits(48)
        case['cplx'] = rng.random() < 0.6
    if part == 'arnoldi':
        which = rng.choice(['LM', 'LR', 'SR'])
        case['which'] = which
        if not exact:
            case['hermitian'] = which != 'LM' or rng.random() < 0.3
        n_max = rng.choice([d, d + 2, 20, max(2, d // 2), 3, 30]) if not exact else rng.choice([d, d + 1, 3, 6])
        n_max = max(2, n_max)
        num_ev = rng.choice([1, 1, 2, 3, n_max - 1, n_max])
        case['opts'] = {'which': which, 'num_ev': max(1, num_ev), 'N_max': n_max}
        if rng.random() < 0.4:
            case['opts']['N_min'] = max(2, rng.choice([2, 3, d, n_max]))
        if rng.random() < 0.25:
            case['opts']['E_shift'] = rng.choice([-2.5, 1.5, 4.0])
        if exact or rng.random() < 0.5:
            case['opts']['cutoff'] = rng.choice([1e-8, 1e-9])
    elif part == 'arnoldi_evo':
        case['hermitian'] = False
        n_max = max(2, rng.choice([d, d + 1, 20, 30, max(2, d // 2)]))
        case['opts'] = {'N_max': n_max, 'cutoff': 1e-9}
        if rng.random() < 0.3:
            case['opts']['N_min'] = max(2, rng.choice([2, 3, min(d, n_max)]))
        case['delta'] = rng.choice([[0, -0.1], [0, 0.5], [0.1, 0], [-0.3, 0], [-0.05, -0.1], [0.2, 0.3], [0, 1.0]])
        case['normalize'] = rng.choice([None, True, False])
    elif part == 'gmres':
        n_max = rng.choice([d, d, d + 2, max(1, d // 2), 3, 10]) if not exact else rng.choice([d, max(1, d - 1), 2])
        n_max = max(1, n_max)
        case['opts'] = {'N_max': n_max, 'N_min': rng.choice([0, 1, 5]) if not exact else 0,
                        'restart': rng.choice([1, 2, 5]) if not exact else 1,
                        'res': rng.choice([1e-8, 1e-12, 1e-4]) if not exact else 1e-300}
        case['x0'] = rng.choice(['zero', 'b', 'random']) if not exact else 'zero'
        if not exact:
            case['cplx_b'] = case['cplx'] or rng.random() < 0.3
    return case


def build(case):
    st = case['st']
    idx = L.sector_indices(st)
    d = case['d']
    n = len(st['qflat'])
    if case['mode'] == 'exact':
        M = np.array(case['H'], dtype=float).reshape(n, n)
        v0 = L.embed(st, idx, np.array(case['psi0'], dtype=float))
        return dict(M=M, v0=v0, idx=idx, cplx=False)
    nrng = np.random.default_rng(case['nseed'])
    cplx = case['cplx']
    if case.get('hermitian'):
        Hs, _ = L.gen_hermitian(nrng, d, 'generic', cplx)
    else:
        Hs = L.gen_general(nrng, d, cplx)
    if case['part'] == 'gmres':
        Hs = Hs + (2.0 + nrng.uniform(0, 2)) * np.eye(d)      # well-conditioned system
    M = L.fill_other_sectors(nrng, st, idx, Hs, cplx, hermitian=bool(case.get('hermitian')))
    x = nrng.normal(size=d) + (1j * nrng.normal(size=d) if (cplx or case.get('cplx_b')) else 0)
    x = x * nrng.uniform(0.3, 3.0)
    dtype = complex if np.iscomplexobj(x) else float
    return dict(M=M, v0=L.embed(st, idx, x, dtype=dtype), idx=idx, cplx=cplx, nrng=nrng)


def int_mat(M):
    return {'mat': [[int(x) for x in row] for row in M]}


# --------------------------------------------------------------------------------------------
# Arnoldi


def arnoldi_reference_defect(A, x0, N):
    """orthogonality defect of the Krylov basis that single-pass modified Gram-Schmidt in the order v_0 … v_k produces
    in float arithmetic for (A, x0) after N steps — computed by an independent numpy re-implementation, NOT read from
    the solver under test (a bug that corrupts the solver's basis must not switch the checks off)"""
    w = np.asarray(x0, dtype=complex)
    nrm = np.linalg.norm(w)
    basis = []
    for _ in range(N):
        if nrm == 0:
            break
        w = w / nrm
        basis.append(w)
        w = A @ w
        for v in basis:
            w = w - np.vdot(v, w) * v
        nrm = np.linalg.norm(w)
    V = np.array(basis).T
    return float(np.abs(V.conj().T @ V - np.eye(V.shape[1])).max()) if V.size else 0.0


def unchanged(tag, before, after_arr, fails, what):
    """the caller's arguments must not be modified by a solver"""
    after = after_arr.to_ndarray()
    if before.shape != after.shape or np.linalg.norm(before - after) > 0:
        fails.append(('property', f'{tag}.modifies-its-argument.{what}', f'|before - after| = {np.linalg.norm(before - after)!r}'))


def order_ok(E, which):
    E = np.asarray(E)
    key = {'LM': -np.abs(E), 'LR': -np.real(E), 'SR': np.real(E)}[which]
    return bool(np.all(np.diff(key) >= -1e-9 * max(1.0, np.max(np.abs(E)))))


def eval_arnoldi(case):
    from tenpy.linalg import krylov_based as kb
    inp = build(case)
    st, idx, d = case['st'], inp['idx'], case['d']
    opts = dict(case['opts'])
    fails, lines = [], []
    Hs = inp['M'][np.ix_(idx, idx)]
    x0 = inp['v0'][idx]
    scale = max(1.0, np.linalg.norm(Hs, 2))
    H = L.npc_matrix(st, inp['M'])
    psi = L.npc_vector(st, inp['v0'])
    info = {}
    if 'cutoff' not in opts and opts['N_max'] >= d:
        # the Krylov space can be exhausted within N_max steps; the absolute default cutoff (2.2e-14) does not see
        # a breakdown once ||H|| is ~10 or more (see c16_lanczos.condition_opts)
        opts['cutoff'] = 1e-9
    try:
        eng = kb.Arnoldi(H, psi, dict(opts))
        E0, psis, N = eng.run()
    except Exception as e:   # noqa
        sig = 'arnoldi.run.raises-on-valid-input'
        if opts['num_ev'] >= opts['N_max'] and isinstance(e, ValueError) and 'zero-size' in str(e):
            sig = 'arnoldi._converged.raises-when-num_ev>=N_max'
        fails.append(('property', sig, f'{type(e).__name__}: {str(e)[:100]} opts={opts}'))
        return fails, lines, dict(raised=True)
    E0 = np.array(E0)
    N = int(N)
    info['N'] = N
    info['num_ev'] = opts['num_ev']
    unchanged('arnoldi', inp['v0'], psi, fails, 'psi0')
    unchanged('arnoldi', inp['M'], H, fails, 'H')
    # single-pass Gram-Schmidt in the order v_0 … v_k removes the large components (along v_k, v_{k-1}) last; an
    # existing orthogonality error eps_jk is fed back multiplied by |alpha_k|/beta_k, so with a spectrum far from 0
    # (e.g. after E_shift) orthogonality decays like (|alpha|/beta)^k in floats.  The exact-arithmetic statements
    # are only compared where an independent numpy replica of the same float algorithm keeps the basis orthonormal;
    # tolerances widen with that reference defect.
    defect = arnoldi_reference_defect(Hs + (opts.get('E_shift') or 0.0) * np.eye(d), x0, N)
    info['defect'] = defect
    if defect > 1e-7:
        info['skipped'] = 'orthogonality-lost'
        return fails, lines, info
    slack = 100 * defect
    if len({id(p) for p in psis}) != len(psis) or any(p is psi or p is c for p in psis for c in eng._cache):
        fails.append(('property', 'arnoldi.returned-vectors-alias-each-other-or-the-basis',
                      f'{len({id(p) for p in psis})} distinct objects for {len(psis)} vectors'))
    sh = opts.get('E_shift') or 0.0
    nv = min(N, opts['num_ev'])
    if len(psis) != nv:
        fails.append(('property', 'arnoldi.run.wrong-number-of-vectors', f'{len(psis)} for N={N} num_ev={opts["num_ev"]}'))
    if len(E0) != len(psis):
        fails.append(('property', 'arnoldi.run.more-eigenvalues-than-vectors',
                      f'len(E0)={len(E0)} len(psis)={len(psis)} N={N} E0={E0.tolist()} opts={opts}'))
    if not order_ok(E0[:nv] + sh, opts['which']):
        fails.append(('property', 'arnoldi.run.ritz-values-not-ordered-as-requested', f'{E0[:nv].tolist()} which={opts["which"]} shift={sh}'))
    reach = d if d > 12 else int(np.linalg.matrix_rank(
        np.column_stack([np.linalg.matrix_power(Hs / scale, k) @ x0 for k in range(d)]), tol=1e-9))
    full = N >= reach
    lam, Vr = np.linalg.eig(Hs)
    for i, p in enumerate(psis[:nv]):
        v = p.to_ndarray()
        if np.linalg.norm(np.delete(v, idx)) > 1e-12:
            fails.append(('property', 'arnoldi.result-leaves-charge-sector', f'i={i}'))
        v = v[idx]
        if abs(np.linalg.norm(v) - 1) > 1e-10:
            fails.append(('property', 'arnoldi.result-not-normalised', f'i={i} |psi|={np.linalg.norm(v)!r}'))
        if N > 1 or True:
            rq = np.vdot(v, Hs @ v)
            if abs(rq - E0[i]) > (1e-8 + slack) * scale:
                fails.append(('property', 'arnoldi.E-is-not-rayleigh-quotient-of-result',
                              f'i={i} E={E0[i]!r} <psi|H|psi>={rq!r} N={N} opts={opts}'))
        if full and d <= 12:
            res = np.linalg.norm(Hs @ v - E0[i] * v)
            cond = np.linalg.cond(Vr)
            if res > (1e-9 + slack) * scale * max(1.0, cond):
                fails.append(('property', 'arnoldi.full-dimension.ritz-pair-is-not-an-eigenpair',
                              f'i={i} residual={res!r} N={N} d={d} cond={cond:.1e} opts={opts}'))
    if full and d <= 12 and reach == d and nv >= 1 and np.linalg.cond(Vr) < 1e6:
        key = {'LM': -np.abs(lam + sh), 'LR': -np.real(lam + sh), 'SR': np.real(lam + sh)}[opts['which']]
        best = np.sort(key)[0]
        got = {'LM': -abs(E0[0] + sh), 'LR': -np.real(E0[0] + sh), 'SR': np.real(E0[0] + sh)}[opts['which']]
        if abs(got - best) > (1e-7 + slack) * scale:
            fails.append(('property', 'arnoldi.full-dimension.first-ritz-value-not-extremal',
                          f'E0={E0[0]!r} which={opts["which"]} spectrum={lam.tolist()}'))
    if case['mode'] == 'exact':
        h = eng._h_krylov
        run = dict(N=N, cols=[[float(np.real(h[i, k])) for i in range(k + 2)] for k in range(N)],
                   psis=[p.to_ndarray() for p in psis[:nv]], h_imag=float(np.max(np.abs(np.imag(h)))))
        vfs = []
        if N > 1:
            for i in range(nv):
                vf = np.real_if_close(eng._result_krylov[:, i])
                if np.iscomplexobj(vf):
                    vfs = None
                    break
                vfs.append([L.frac_str(float(x)) for x in vf])
        o = dict(N_min=2, cutoff=np.finfo(float).eps * 100)
        o.update(opts)
        Hj = int_mat(inp['M'])
        if 'E_shift' in opts:
            Hj = {'shift': [Hj, L.frac_str(opts['E_shift'])]}
        line = {'k': 'arnoldi', 'H': Hj, 'psi0': [int(x) for x in inp['v0']], 'N_min': o['N_min'],
                'N_max': o['N_max'], 'cutoff': L.frac_str(o['cutoff']), 'nsteps': N, 'vfs': vfs or []}
        run['have_vfs'] = vfs is not None
        lines.append((('base',), line, run))
    return fails, lines, info


def compare_arnoldi(tag, line, run, out):
    if 'error' in out:
        return [('arnoldi.model-error', str(out))]
    if out['N'] != run['N']:
        return [('arnoldi.model-N', f'model {out["N"]} impl {run["N"]}')]
    if run['h_imag'] > 1e-12:
        return [('arnoldi.model-h', f'impl h has imaginary part {run["h_imag"]} on real data')]
    for k, (cm, ci) in enumerate(zip(out['cols'], run['cols'])):
        cm = L.floats(cm)
        ci = np.array(ci)
        if len(cm) != len(ci) or np.max(np.abs(cm - ci)) > 1e-8 * max(1.0, np.max(np.abs(ci))):
            # the last sub-diagonal entry of a breakdown step is rounding noise
            if k == run['N'] - 1 and len(cm) == len(ci) and np.max(np.abs(cm[:-1] - ci[:-1])) <= 1e-8 * max(1.0, np.max(np.abs(ci))) \
                    and max(abs(cm[-1]), abs(ci[-1])) < 1e-7:
                continue
            return [('arnoldi.model-h', f'column {k}: model {cm.tolist()} impl {ci.tolist()}')]
    if run['have_vfs'] and min(abs(c[-1]) for c in run['cols'][:-1] or [[1]]) > 1e-3:
        for i, (pm, pi) in enumerate(zip(out['psis'], run['psis'])):
            pm = L.floats(pm)
            if np.linalg.norm(pm - np.real(pi)) > 1e-7:
                return [('arnoldi.model-psi', f'i={i} |model-impl|={np.linalg.norm(pm - np.real(pi))!r}')]
    return []


def eval_arnoldi_evo(case):
    from tenpy.linalg import krylov_based as kb
    inp = build(case)
    st, idx, d = case['st'], inp['idx'], case['d']
    opts = dict(case['opts'])
    fails = []
    Hs = inp['M'][np.ix_(idx, idx)]
    x0 = inp['v0'][idx]
    H = L.npc_matrix(st, inp['M'])
    psi = L.npc_vector(st, inp['v0'])
    delta = complex(*case['delta']) if case['delta'][1] else float(case['delta'][0])
    eng = kb.ArnoldiEvolution(H, psi, dict(opts))
    try:
        v, N = eng.run(delta, case['normalize'])
    except Exception as e:  # noqa
        return [('property', 'arnoldi_evo.run.raises-on-valid-input', f'{type(e).__name__}: {str(e)[:100]}')], [], {}
    unchanged('arnoldi_evo', inp['v0'], psi, fails, 'psi0')
    unchanged('arnoldi_evo', inp['M'], H, fails, 'H')
    v = v.to_ndarray()
    if np.linalg.norm(np.delete(v, idx)) > 1e-12:
        fails.append(('property', 'arnoldi_evo.result-leaves-charge-sector', ''))
    v = v[idx]
    exact = scipy.linalg.expm(delta * Hs) @ x0
    normalized = bool(case['normalize'])
    target = exact / np.linalg.norm(exact) if normalized else exact
    if normalized and abs(np.linalg.norm(v) - 1) > 1e-10:
        fails.append(('property', 'arnoldi_evo.normalized-result-not-normalised', f'{np.linalg.norm(v)!r}'))
    err = np.linalg.norm(v - target) / np.linalg.norm(target)
    o = dict(N_min=2)
    o.update(opts)
    full = N >= d
    converged = N < o['N_max'] and N >= o['N_min']
    if (full and err > 1e-8) or (converged and err > 1e-6):
        fails.append(('property', 'arnoldi_evo.result-differs-from-expm',
                      f'err={err!r} N={N} d={d} delta={delta} normalize={case["normalize"]} opts={opts}'))
    # second call on the same object must give the same answer (the class documents clearing its state)
    v2, N2 = eng.run(delta, case['normalize'])
    v2 = v2.to_ndarray()[idx]
    # (the first run normalised psi0 in place; the convergence test may flip by one step on the rounding difference)
    if np.linalg.norm(v2 - v) > 1e-8 * max(1.0, np.linalg.norm(v)):
        fails.append(('property', 'arnoldi_evo.second-run-differs', f'N {N}->{N2} |dv|={np.linalg.norm(v2 - v)!r}'))
    return fails, [], dict(N=N, err=float(err))


# --------------------------------------------------------------------------------------------
# GMRES


def eval_gmres(case):
    from tenpy.linalg import krylov_based as kb
    inp = build(case)
    st, idx, d = case['st'], inp['idx'], case['d']
    opts = dict(case['opts'])
    fails, lines = [], []
    As = inp['M'][np.ix_(idx, idx)]
    b = inp['v0'][idx]
    A = L.npc_matrix(st, inp['M'])
    bn = L.npc_vector(st, inp['v0'])
    if case['x0'] == 'zero':
        x0 = np.zeros_like(inp['v0'])
    elif case['x0'] == 'b':
        x0 = inp['v0'].copy()
    else:
        x0 = L.embed(st, idx, inp['nrng'].normal(size=d), dtype=inp['v0'].dtype)
    xn = L.npc_vector(st, x0 + 0 * inp['v0']) if np.any(x0) else bn * 0.0
    try:
        g = kb.GMRES(A, xn, bn, dict(opts))
        x, res, terr, its = g.run()
    except Exception as e:  # noqa
        return [('property', 'gmres.run.raises-on-valid-input', f'{type(e).__name__}: {str(e)[:100]} opts={opts}')], [], {}
    unchanged('gmres', inp['v0'], bn, fails, 'b')
    unchanged('gmres', inp['M'], A, fails, 'A')
    unchanged('gmres', np.asarray(x0 + 0 * inp['v0']) if np.any(x0) else 0 * inp['v0'], xn, fails, 'x0')
    xf = x.to_ndarray()
    if np.linalg.norm(np.delete(xf, idx)) > 1e-12:
        fails.append(('property', 'gmres.result-leaves-charge-sector', ''))
    xs = xf[idx]
    nb = np.linalg.norm(b)
    true = np.linalg.norm(As @ xs - b) / nb
    res = float(np.real(res))
    if abs(res - true) > 1e-10 * max(1.0, true):
        fails.append(('property', 'gmres.reported-residual-differs-from-true-residual', f'reported {res!r} true {true!r}'))
    data = 'complex' if (inp['cplx'] or np.iscomplexobj(inp['v0'])) else 'real'
    # exact ("lucky") breakdown: the residual estimate hits exactly 0 (the Krylov space is invariant, the iterate is the
    # solution) but the cycle goes on because k < N_min: the next Givens rotation is 0/0
    ests = [float(t) for cyc in terr for t in cyc]
    # some estimate / restart residual other than the very last one is at rounding level (or already NaN)
    broke = any((t < 1e-13 or not np.isfinite(t)) for t in ests[1:-1])
    local = []
    if not np.isfinite(res) or not np.all(np.isfinite(ests)):
        local.append(('property', f'gmres.{data}.result-not-finite', f'residual {res!r} iters={its} d={d} opts={opts}'))
    else:
        # the running estimate |e1[k+1]|/|b| at the end of a cycle is the residual of the iterate built from it
        ncyc = len(its)
        for r in range(ncyc):
            est = float(terr[r][-1])
            after = float(terr[r + 1][0]) if r + 1 < len(terr) else true
            if abs(est - after) > 1e-7 * max(1.0, after) + 1e-9:
                local.append(('property', f'gmres.{data}.residual-estimate-differs-from-residual-of-iterate',
                              f'cycle {r}: estimate {est!r} residual {after!r} iters={its} opts={opts} d={d}'))
                break
            seq = [float(t) for t in terr[r]]
            if any(seq[i + 1] > seq[i] * (1 + 1e-9) + 1e-12 for i in range(len(seq) - 1)):
                local.append(('property', f'gmres.{data}.residual-estimates-increase', f'cycle {r}: {seq}'))
                break
        # a cycle of d iterations spans the whole space: the solution is exact
        if its and max(its) >= d and true > 1e-8:
            local.append(('property', f'gmres.{data}.full-dimension.not-solved',
                          f'residual {true!r} after iters={its} in dimension {d} opts={opts}'))
    if local and broke:
        # the cycle went on after the residual estimate had reached rounding level (k < N_min): the next vectors are
        # normalised noise, the next Givens rotation is 0/0 when the breakdown is exact
        fails.append(('property', 'gmres.continues-after-exact-breakdown',
                      f'{local[0][1]}: {local[0][2]} estimates {[float(t) for t in terr[0]][:6]}'))
    else:
        fails += local
    if case['mode'] == 'exact':
        run = dict(x=xs, errs=[float(t) * nb for t in terr[0][1:]], n=its[0])
        line = {'k': 'gmres', 'H': int_mat(inp['M']), 'x': [int(v) for v in np.real(x0)],
                'b': [int(v) for v in inp['v0']], 'n': its[0]}
        run['idx'] = idx
        run['imag'] = float(np.linalg.norm(np.imag(xs)))
        lines.append((('base',), line, run))
    return fails, lines, dict(iters=its, data=data)


def compare_gmres(tag, line, run, out):
    if 'error' in out:
        return [('gmres.model-error', str(out))]
    xm = L.floats(out['x'])[run['idx']]
    if np.linalg.norm(xm - np.real(run['x'])) > 1e-8 * max(1.0, np.linalg.norm(xm)) or run['imag'] > 1e-10:
        return [('gmres.model-x', f'model {xm.tolist()} impl {run["x"].tolist()}')]
    em = L.floats(out['errs'])
    ei = np.array(run['errs'])
    if len(em) != len(ei) or np.max(np.abs(em - ei)) > 1e-8 * max(1.0, np.max(np.abs(em))):
        return [('gmres.model-errs', f'model {em.tolist()} impl {ei.tolist()}')]
    return []


# --------------------------------------------------------------------------------------------
# gram_schmidt


def gen_gs_case(rng, exact):
    d = rng.choice([1, 2, 3, 4, 5, 6]) if exact else rng.choice([1, 2, 3, 5, 8, 12, 20, 40])
    st = L.gen_structure(rng, d)
    k = rng.randint(1, min(d + 2, 7))
    case = dict(part='gs', mode='exact' if exact else 'float', st=st, d=d, k=k)
    if exact:
        vecs = []
        for _ in range(k):
            r = rng.random()
            if vecs and r < 0.2:
                a, b = rng.choice(vecs), rng.choice(vecs)
                c1, c2 = rng.randint(-2, 2), rng.randint(-2, 2)
                v = [c1 * x + c2 * y for x, y in zip(a, b)]       # dependent (possibly zero) vector
            else:
                v = [rng.randint(-3, 3) for _ in range(d)]
            vecs.append(v)
        case['vecs'] = vecs
        case['rcond'] = rng.choice([1e-14, 1e-9, 1e-9, 0.5])
    else:
        case['nseed'] = rng.getrandbits(48)
        case['cplx'] = rng.random() < 0.5
        case['dep'] = [rng.random() < 0.2 for _ in range(k)]
        case['rcond'] = rng.choice([1e-14, 1e-10, 1e-8])
    return case


def eval_gs(case):
    from tenpy.linalg import krylov_based as kb
    st, d = case['st'], case['d']
    idx = L.sector_indices(st)
    fails, lines = [], []
    if case['mode'] == 'exact':
        V = np.array(case['vecs'], dtype=float).reshape(len(case['vecs']), d).T
    else:
        nrng = np.random.default_rng(case['nseed'])
        cols = []
        for dep in case['dep']:
            if dep and cols:
                c = nrng.normal(size=len(cols))
                cols.append(sum(ci * v for ci, v in zip(c, cols)))
            else:
                cols.append(nrng.normal(size=d) + (1j * nrng.normal(size=d) if case['cplx'] else 0))
        V = np.array(cols).T
    rcond = case['rcond']
    vecs = [L.npc_vector(st, L.embed(st, idx, V[:, j], dtype=V.dtype), dtype=V.dtype) for j in range(V.shape[1])]
    ids = [id(v) for v in vecs]
    out = kb.gram_schmidt(vecs, rcond=rcond)
    if any(id(o) not in ids for o in out):
        fails.append(('property', 'gram_schmidt.not-in-place', ''))
    W = np.array([o.to_ndarray()[idx] for o in out]).T.reshape(d, len(out))
    # distance of each vector from the span of its predecessors (SVD projector, independent of the code under
    # test).  rcond is an absolute threshold and the residual of an exactly dependent vector is rounding noise of
    # size ~eps*|v|: the keep/drop decision is only predictable away from both.
    if V.size:
        resid = []
        for k in range(V.shape[1]):
            if k == 0:
                resid.append(np.linalg.norm(V[:, 0]))
                continue
            u, sv, _ = np.linalg.svd(V[:, :k], full_matrices=False)
            Bk = u[:, sv > 1e-10 * max(1.0, sv.max())]
            resid.append(np.linalg.norm(V[:, k] - Bk @ (Bk.conj().T @ V[:, k])))
        resid = np.array(resid)
        noise = 50 * np.finfo(float).eps * max(1.0, np.max(np.linalg.norm(V, axis=0)))
    else:
        resid, noise = np.array([]), 0.0
    well_separated = all((x > 1e3 * max(rcond, noise)) or (x < 1e-3 * rcond and 10 * noise < rcond) or
                         (x < noise and 10 * noise < rcond) for x in resid)
    if well_separated:
        G = W.conj().T @ W
        if len(out) and np.linalg.norm(G - np.eye(len(out))) > 1e-9:
            fails.append(('property', 'gram_schmidt.result-not-orthonormal', f'|G-1|={np.linalg.norm(G - np.eye(len(out)))!r}'))
        rank = int(np.sum(resid > rcond))
        if len(out) != rank:
            fails.append(('property', 'gram_schmidt.wrong-number-of-vectors', f'{len(out)} vs rank {rank}'))
        elif rank:
            u, _, _ = np.linalg.svd(V[:, resid > rcond], full_matrices=False)
            Pv = u @ u.conj().T
            if np.linalg.norm(Pv - W @ W.conj().T) > 1e-7:
                fails.append(('property', 'gram_schmidt.span-changed', f'{np.linalg.norm(Pv - W @ W.conj().T)!r}'))
    if case['mode'] == 'exact':
        n = len(st['qflat'])
        full = [[int(x) for x in L.embed(st, idx, V[:, j])] for j in range(V.shape[1])]
        lines.append((('base',), {'k': 'gs', 'vecs': full, 'rcond': L.frac_str(rcond)},
                      dict(out=[o.to_ndarray() for o in out], well=well_separated)))
    return fails, lines, dict(kept=len(out), k=V.shape[1], reliable=bool(well_separated))


def compare_gs(tag, line, run, out):
    if 'error' in out:
        return [('gs.model-error', str(out))]
    if not run['well']:
        return []
    vm = [L.floats(v) for v in out['vecs']]
    if len(vm) != len(run['out']):
        return [('gs.model-count', f'model {len(vm)} impl {len(run["out"])}')]
    for i, (a, b) in enumerate(zip(vm, run['out'])):
        if np.linalg.norm(a - b) > 1e-8:
            return [('gs.model-vector', f'i={i} |model-impl|={np.linalg.norm(a - b)!r}')]
    return []


# --------------------------------------------------------------------------------------------
# operator wrappers, FlatLinearOperator, E_shift bookkeeping


def gen_ops_case(rng, exact):
    d = rng.choice([1, 2, 3, 4, 5]) if exact else rng.choice([1, 2, 3, 5, 8, 12, 20, 40, 60])
    st = L.gen_structure(rng, d)
    case = dict(part='ops', mode='exact' if exact else 'float', st=st, d=d)
    case['n_ortho'] = rng.choice([0, 1, 2]) if d >= 3 else 0
    if exact:
        idx = L.sector_indices(st)
        case['H'] = L.embed_int(st, idx, L.gen_int_symmetric(rng, d, 'random'), rng)
        case['H2'] = L.embed_int(st, idx, L.gen_int_general(rng, d), rng, symmetric=False)
        case['v'] = L.gen_int_vector(rng, d)
        case['ortho'] = [L.gen_int_vector(rng, d) for _ in range(case['n_ortho'])]
        case['shift'] = rng.choice([-2.5, 0.75, 3.0, -1.0])
    else:
        case['nseed'] = rng.getrandbits(48)
        case['cplx'] = rng.random() < 0.5
        case['shift'] = rng.choice([-2.5, 0.75, 3.0, [0.5, -1.5]])
    return case


def eval_ops(case):
    from tenpy.linalg import krylov_based as kb
    from tenpy.linalg import sparse
    npc = L.npc_mod()
    st, d = case['st'], case['d']
    idx = L.sector_indices(st)
    n = len(st['qflat'])
    fails, lines = [], []
    if case['mode'] == 'exact':
        M = np.array(case['H'], dtype=float).reshape(n, n)
        M2 = np.array(case['H2'], dtype=float).reshape(n, n)
        v = L.embed(st, idx, np.array(case['v'], dtype=float))
        O = np.zeros((n, case['n_ortho']))
        for j, o in enumerate(case['ortho']):
            O[idx, j] = o
        shift = case['shift']
        cplx = False
    else:
        nrng = np.random.default_rng(case['nseed'])
        cplx = case['cplx']
        Hs, _ = L.gen_hermitian(nrng, d, 'generic', cplx)
        M = L.fill_other_sectors(nrng, st, idx, Hs, cplx)
        M2 = L.fill_other_sectors(nrng, st, idx, L.gen_general(nrng, d, cplx), cplx, hermitian=False)
        v = L.embed(st, idx, nrng.normal(size=d) + (1j * nrng.normal(size=d) if cplx else 0),
                    dtype=complex if cplx else float)
        O = np.zeros((n, case['n_ortho']), dtype=complex if cplx else float)
        O[idx, :] = nrng.normal(size=(d, case['n_ortho'])) + (1j * nrng.normal(size=(d, case['n_ortho'])) if cplx else 0)
        shift = case['shift']
        if isinstance(shift, list):
            shift = complex(*shift) if cplx else shift[0]

    class MatOp(sparse.NpcLinearOperator):
        def __init__(self, A):
            self.A = A
            self.dtype = A.dtype

        def matvec(self, vec):
            return self.A.matvec(vec)

        def to_matrix(self):
            return self.A

        def adjoint(self):
            return MatOp(self.A.conj().itranspose(['p', 'p*']))

    H = L.npc_matrix(st, M)
    H2 = L.npc_matrix(st, M2)
    vn = L.npc_vector(st, v)
    Ms, M2s, vs, Os = M[np.ix_(idx, idx)], M2[np.ix_(idx, idx)], v[idx], O[idx, :]
    scale = max(1.0, np.linalg.norm(Ms, 2), np.linalg.norm(M2s, 2))

    def sect(a):
        a = a.to_ndarray()
        return a[idx] if a.ndim == 1 else a[np.ix_(idx, idx)]

    def chk(name, got, want):
        if np.linalg.norm(got - want) > 1e-10 * scale * max(1.0, np.linalg.norm(want)):
            fails.append(('property', f'ops.{name}', f'|got-want|={np.linalg.norm(got - want)!r}'))

    Sh = sparse.ShiftNpcLinearOperator(MatOp(H), shift)
    chk('shift.matvec', sect(Sh.matvec(vn)), Ms @ vs + shift * vs)
    chk('shift.to_matrix', sect(Sh.to_matrix()), Ms + shift * np.eye(d))
    chk('shift.adjoint', sect(Sh.adjoint().to_matrix()), (Ms + shift * np.eye(d)).conj().T)
    Su = sparse.SumNpcLinearOperator(MatOp(H), MatOp(H2))
    chk('sum.matvec', sect(Su.matvec(vn)), Ms @ vs + M2s @ vs)
    chk('sum.to_matrix', sect(Su.to_matrix()), Ms + M2s)
    chk('sum.adjoint', sect(Su.adjoint().to_matrix()), (Ms + M2s).conj().T)
    if case['n_ortho']:
        P, B = L.ortho_complement_projector(Os)
        ovs = [L.npc_vector(st, O[:, j]) for j in range(O.shape[1])]
        Or = sparse.OrthogonalNpcLinearOperator(MatOp(H2), ovs)
        kept = np.array([o.to_ndarray()[idx] for o in Or.ortho_vecs]).T.reshape(d, len(Or.ortho_vecs))
        well = np.linalg.svd(Os, compute_uv=False).min() > 1e-6 if Os.size else True
        if well:
            chk('ortho.matvec', sect(Or.matvec(vn)), P @ M2s @ P @ vs)
            if H2.legs[0].sorted and H2.legs[0].bunched:
                # (to_matrix combines the legs of each o into a pipe, which sorts and bunches: written for the
                #  multi-leg vectors of an EffectiveH; on a single leg it needs that leg to be sorted and bunched already)
                chk('ortho.to_matrix', sect(Or.to_matrix()), P @ M2s @ P)
                chk('ortho.adjoint', sect(Or.adjoint().to_matrix()), (P @ M2s @ P).conj().T)
            for j in range(kept.shape[1]):
                on = L.npc_vector(st, L.embed(st, idx, kept[:, j], dtype=kept.dtype))
                chk('ortho.projected-out-vector-not-annihilated', sect(Or.matvec(on)), np.zeros(d))
            # E_shift bookkeeping on a shared wrapper: KrylovBased.__init__ must not change the caller's operator
            Hh = L.npc_matrix(st, (M + M.conj().T) / 2)
            Oh = sparse.OrthogonalNpcLinearOperator(MatOp(Hh), [o.copy() for o in ovs])
            before = sect(Oh.matvec(vn))
            start = L.npc_vector(st, L.embed(st, idx, P @ vs if np.linalg.norm(P @ vs) > 1e-6 else vs, dtype=v.dtype))
            Es = []
            for _ in range(2):
                try:
                    E, _, _ = kb.LanczosGroundState(Oh, start.copy(), {'E_shift': -3.5, 'N_max': max(2, d), 'cutoff': 1e-9}).run()
                    Es.append(float(E))
                except Exception as e:  # noqa
                    Es.append(repr(e))
            after = sect(Oh.matvec(vn))
            if np.linalg.norm(after - before) > 1e-10 * scale or (isinstance(Es[0], float) and isinstance(Es[1], float)
                                                                   and abs(Es[0] - Es[1]) > 1e-8 * scale):
                fails.append(('property', 'krylov.E_shift.mutates-the-OrthogonalNpcLinearOperator-it-is-given',
                              f'two runs on the same wrapper: E={Es}; |matvec after - before|={np.linalg.norm(after - before)!r}'))
    # FlatLinearOperator on the charge sector, and on all sectors
    leg = H2.legs[0]
    qt = vn.qtotal
    x_s = vs.astype(H2.dtype)
    for compact in ([None, False] if leg.is_blocked() else [False]):
        tagc = f'compact_flat={compact}'
        try:
            F = sparse.FlatLinearOperator.from_NpcArray(H2, charge_sector=qt, compact_flat=compact)
            shape = F.shape
            got = F.matvec(x_s) if shape == (d, d) else None
            back = F.npc_to_flat(F.flat_to_npc(x_s)) if shape == (d, d) else None
            emb = F.flat_to_npc(x_s).to_ndarray() if shape == (d, d) else None
        except Exception as e:  # noqa
            zero_sector = not np.any(qt)
            sig = f'flat.{tagc}.raises' + ('.qconj=-1.nonzero-sector' if (leg.qconj == -1 and not zero_sector) else '')
            fails.append(('property', sig, f'{type(e).__name__}: {str(e)[:80]} qconj={leg.qconj} sector={qt.tolist()}'))
            continue
        if shape != (d, d):
            sig = f'flat.{tagc}.wrong-sector-selected' + ('.qconj=-1.nonzero-sector' if (leg.qconj == -1 and np.any(qt)) else '')
            fails.append(('property', sig, f'shape {shape} for a sector of dimension {d} qconj={leg.qconj} sector={qt.tolist()}'))
            continue
        chk(f'flat.matvec.{tagc}', got, M2s @ vs)
        try:     # an operator may map a vector to exactly zero (no stored block in the npc result)
            Z = sparse.FlatLinearOperator(lambda vec: vec * 0.0 if False else npc.zeros(vec.legs, vec.dtype, vec.qtotal, labels=vec.get_leg_labels()),
                                          leg, H2.dtype, charge_sector=qt, compact_flat=compact)
            z = Z.matvec(x_s)
            if np.linalg.norm(z) != 0 or z.shape != (d,):
                fails.append(('property', f'flat.{tagc}.zero-result-wrong', f'{z!r}'))
        except AssertionError as e:
            fails.append(('property', 'flat.matvec.raises-when-the-result-is-exactly-zero', f'{tagc}: AssertionError in npc_to_flat'))
        except Exception as e:  # noqa
            if not (leg.qconj == -1 and np.any(qt)):
                fails.append(('property', f'flat.{tagc}.zero-result-raises', f'{type(e).__name__}: {str(e)[:80]}'))
        chk('flat.roundtrip', back, vs)
        chk('flat.flat_to_npc', emb, v)
    if leg.is_blocked():     # all sectors at once (needs a 1:1 map block <-> charge)
        try:
            Fn = sparse.FlatLinearOperator.from_NpcArray(H2, charge_sector=None)
            xfull = np.arange(1, n + 1, dtype=H2.dtype) / n
            got = Fn.matvec(xfull)
            if np.linalg.norm(got - M2 @ xfull) > 1e-10 * max(1.0, np.linalg.norm(M2 @ xfull)):
                fails.append(('property', 'ops.flat.matvec.all-sectors', f'{np.linalg.norm(got - M2 @ xfull)!r}'))
        except Exception as e:  # noqa
            sig = 'flat.charge_sector=None.raises' + ('.blocked-but-unsorted-leg' if not leg.sorted else '')
            fails.append(('property', sig, f'{type(e).__name__}: {str(e)[:80]} charges={leg.charges.tolist()}'))
    if 2 <= d <= 30:
        # lanczos_arpack: ground state energy through FlatHermitianOperator.from_guess_with_pipe
        Hh = L.npc_matrix(st, (M + M.conj().T) / 2)
        lam = np.linalg.eigvalsh(((M + M.conj().T) / 2)[np.ix_(idx, idx)])
        try:
            E, psi = kb.lanczos_arpack(Hh, vn, {})
            if abs(E - lam[0]) > 1e-8 * scale:
                fails.append(('property', 'lanczos_arpack.E-not-smallest-eigenvalue', f'{E!r} vs {lam[0]!r}'))
            p = psi.to_ndarray()[idx]
            if abs(np.linalg.norm(p) - 1) > 1e-9:
                fails.append(('property', 'lanczos_arpack.result-not-normalised', f'{np.linalg.norm(p)!r}'))
        except Exception as e:  # noqa
            fails.append(('property', 'lanczos_arpack.raises', repr(e)[:150]))
    if case['mode'] == 'exact':
        Hj, H2j = int_mat(M), int_mat(M2)
        vj = [int(x) for x in v]
        want = [('shift', {'shift': [Hj, L.frac_str(shift)]}, Ms @ vs + shift * vs),
                ('sum', {'sum': [Hj, H2j]}, Ms @ vs + M2s @ vs)]
        if case['n_ortho']:
            want.append(('ortho', {'ortho': [H2j, [[int(x) for x in O[:, j]] for j in range(O.shape[1])],
                                             L.frac_str(1e-14)]}, sect(Or.matvec(vn))))
            want.append(('ortho-shift', {'ortho': [{'shift': [H2j, L.frac_str(shift)]},
                                                   [[int(x) for x in O[:, j]] for j in range(O.shape[1])],
                                                   L.frac_str(1e-14)]},
                         sect(sparse.OrthogonalNpcLinearOperator(
                             sparse.ShiftNpcLinearOperator(MatOp(H2), shift), [o.copy() for o in ovs]).matvec(vn))))
        for name, opj, impl in want:
            lines.append(((name,), {'k': 'op', 'H': opj, 'v': vj}, dict(impl=np.real(impl), idx=idx, name=name)))
    return fails, lines, dict(n_ortho=case['n_ortho'])


def compare_ops(tag, line, run, out):
    if 'error' in out:
        return [('ops.model-error', str(out))]
    vm = L.floats(out['v'])[run['idx']]
    if np.linalg.norm(vm - run['impl']) > 1e-9 * max(1.0, np.linalg.norm(vm)):
        return [(f'ops.model-{run["name"]}', f'model {vm.tolist()} impl {run["impl"].tolist()}')]
    return []
