"""C19: the family of lattice cases (enumeration for the exhaustive tier, random draws for the quick tier) and the
translation of a case into the JSON line understood by the Lean driver."""
import itertools

from harness.c19_real import FIXED_LU, SIMPLE, dx_box

BASE_NAMES = ['default', 'Cstyle', 'Fstyle', 'snake', 'snakeCstyle', 'snakeFstyle']
EXTRA_NAMES = {'Chain': ['folded'], 'Ladder': ['folded'], 'NLegLadder': ['folded'],
               'Honeycomb': ['rings', 'snake_rings'], 'Kagome': ['rings']}
CLS_DIM = {'Chain': 1, 'Ladder': 1, 'NLegLadder': 1, 'Square': 2, 'Triangular': 2, 'Honeycomb': 2, 'Kagome': 2}
MODEL_CLS = {'Lattice': 'lattice', 'SimpleLattice': 'simple', 'Chain': 'chain', 'Ladder': 'ladder',
             'NLegLadder': 'nleg', 'Square': 'square', 'Triangular': 'triangular', 'Honeycomb': 'honeycomb',
             'Kagome': 'kagome'}


def class_variants():
    """(cls, dim, Lu) combinations of the family"""
    out = [('Chain', 1, 1), ('Ladder', 1, 2), ('NLegLadder', 1, 3), ('NLegLadder', 1, 2), ('Lattice', 1, 1),
           ('Lattice', 1, 2), ('Lattice', 1, 3),
           ('Square', 2, 1), ('Triangular', 2, 1), ('Honeycomb', 2, 2), ('Kagome', 2, 3), ('SimpleLattice', 2, 1),
           ('Lattice', 2, 1), ('Lattice', 2, 2), ('Lattice', 2, 3)]
    return out


def sizes_for(dim, maxL=4):
    if dim == 1:
        return [[L] for L in range(1, maxL + 3)]
    return [list(t) for t in itertools.product(range(1, maxL + 1), repeat=dim)]


def bc_combos(dim, Lx, full=True):
    """(bc list, bc_MPS): every combination of open / periodic / shifted, finite / infinite / segment"""
    shifts = [1, -1, 2] if full else [1, -1]
    ys = ['open', 'periodic'] + shifts
    out = []
    for rest in itertools.product(ys, repeat=dim - 1):
        for x, mps in [('open', 'finite'), ('periodic', 'finite'), ('periodic', 'infinite')]:
            out.append(([x] + list(rest), mps))
    # 'segment' takes the same branches as 'infinite'; include it once per y-combination class
    out.append((['periodic'] + ['periodic'] * (dim - 1), 'segment'))
    if dim > 1:
        out.append((['periodic'] + [1] * (dim - 1), 'segment'))
    return out


def named_orders(cls):
    return [{'name': n} for n in BASE_NAMES + EXTRA_NAMES.get(cls, [])]


def random_standard(rng, cls, dim):
    n = dim if cls in SIMPLE else dim + 1
    snake = [rng.random() < 0.5 for _ in range(n)]
    prio = list(range(n))
    rng.shuffle(prio)
    if rng.random() < 0.3:
        prio = [p * 3 - 4 for p in prio]  # distinct, not a permutation of range
    if cls not in SIMPLE and rng.random() < 0.25:
        prio = None
    return {'standard': [snake, prio]}


def random_grouped(rng, dim, Lu):
    us = list(range(Lu))
    rng.shuffle(us)
    groups, k = [], 0
    while k < Lu:
        step = rng.randint(1, Lu - k)
        groups.append(us[k:k + step])
        k += step
    prio = None
    if rng.random() < 0.5:
        prio = list(range(dim))
        rng.shuffle(prio)
        prio = prio + [dim]  # unit cell direction keeps the highest priority (groups partition range(Lu))
    return {'grouped': [groups, prio]}


def random_rows(rng, Ls, Lu):
    rows = [list(r) for r in itertools.product(*[range(L) for L in Ls], range(Lu))]
    rng.shuffle(rows)
    return {'rows': rows}


def fixed_tuple_orders(cls, dim, Lu):
    """a deterministic list of ('standard', ...) / ('grouped', ...) specs that is part of the exhaustive family"""
    out = []
    if cls in SIMPLE:
        for prio in itertools.permutations(range(dim)):
            for snake in ([False] * dim, [True] * dim, ([True, False] * dim)[:dim]):
                out.append({'standard': [list(snake), list(prio)]})
    else:
        n = dim + 1
        for prio in itertools.permutations(range(n)):
            for snake in ([False] * n, ([True, False] * n)[:n]):
                out.append({'standard': [list(snake), list(prio)]})
        out.append({'standard': [([False, True] * n)[:n], None]})
        if dim >= 2:
            us = list(range(Lu))
            out.append({'grouped': [[[u] for u in reversed(us)], None]})
            if Lu >= 3:
                out.append({'grouped': [[[2, 0], [1]], [1, 0, 2]]})
            out.append({'grouped': [[us[::-1]], list(range(dim))[::-1] + [dim]]})
    return out


def base_case(cls, Ls, Lu, order, bc, bc_MPS, variant=None):
    return {'cls': cls, 'Ls': list(Ls), 'Lu': Lu, 'order': order, 'bc': list(bc), 'bc_MPS': bc_MPS,
            'variant': variant, 'q': []}


def eff_sizes(case):
    """(Ls, Lu, N) of the resulting lattice (regular grid part)"""
    var = case.get('variant') or {}
    Ls, Lu = list(case['Ls']), case['Lu']
    if 'multi' in var:
        Lu *= var['multi']
    if 'enlarge' in var:
        Ls[0] *= var['enlarge']
    if 'irregular' in var:
        Lu += var['irregular'].get('n_add_uc', 0)
    return Ls, Lu


def standard_queries(case, rng, coupall=True, n_detail=6, n_multi=4):
    """The query list attached to a case: every index array, all index probes, all couplings in the dx box."""
    from harness.c19_real import expected_sites
    var = case.get('variant') or {}
    Ls, Lu = eff_sizes(case)
    D = len(Ls)
    helical = 'helical' in var or 'helical_enlarge' in var
    irregular = 'irregular' in var
    if 'helical_enlarge' in var:
        # the regular lattice is enlarged in place when the new MPS unit cell does not fit / divide
        n, f = var['helical_enlarge']
        cells = 1
        for L in Ls:
            cells *= L
        if n * f > cells or cells % (n * f) != 0:
            Ls = [Ls[0] * f] + Ls[1:]
    if irregular:
        sites = sorted(expected_sites(case)[0])
        N = len(sites)
    else:
        sites = [tuple(r) for r in itertools.product(*[range(L) for L in Ls], range(Lu))]
        N = len(sites)
    finite = case['bc_MPS'] == 'finite'
    q = [['order'], ['perm'], ['sizes']]
    for u in list(range(Lu)) + [None]:
        q.append(['fix_u', u])
    if not helical and not irregular:
        q.append(['vals_idx'])
        q.append(['values', [rng.randint(-50, 50) for _ in range(N)], None])
        q.append(['values', [rng.randint(-50, 50) for _ in range(N // Lu)], rng.randrange(Lu)])
    q.append(['mps2lat', list(range(N)) if finite else list(range(-2 * N, 3 * N))])
    rows = [list(r) for r in sites]
    if not finite:
        for s in (-2, -1, 1, 2):
            rows += [[r[0] + s * Ls[0]] + list(r[1:]) for r in sites]
    elif not irregular:
        # finite: np.mod wraps every coordinate; probe a few wrapped ones too
        rows += [[r[k] + rng.choice([-1, 0, 1]) * (Ls + [Lu])[k] for k in range(D + 1)] for r in sites[:8]]
    q.append(['lat2mps', rows])
    # masked values
    lo, hi = (0, N) if finite else (-N, 2 * N)
    k = rng.randint(1, min(6, hi - lo))
    inds = sorted(rng.sample(range(lo, hi), k))
    q.append(['masked', [rng.randint(-50, 50) for _ in inds], inds, bool(rng.random() < 0.6 or Lu == 1)])
    box = [L for L in Ls]
    if coupall:
        q.append(['coupall', box])
    dxs = dx_box(box)
    for _ in range(n_detail):
        u1, u2 = rng.randrange(Lu), rng.randrange(Lu)
        dx = rng.choice(dxs)
        q.append(['coup', u1, u2, dx])
        q.append(['cshape', dx])
    # strengths (not for helical: the model covers Lattice.possible_couplings with strength)
    if not helical:
        is_open = [b == 'open' for b in case['bc']]
        for _ in range(2):
            u1, u2 = rng.randrange(Lu), rng.randrange(Lu)
            dx = rng.choice(dxs)
            shape = [L - abs(d) * int(o) for L, d, o in zip(Ls, dx, is_open)]
            if all(s > 0 for s in shape):
                n = 1
                for s in shape:
                    n *= s
                q.append(['coupS', u1, u2, dx, [rng.choice([0, 1, 2, -3]) for _ in range(n)]])
    for _ in range(n_multi):
        nops = rng.randint(2, 4)
        ops = [[rng.choice(dxs), rng.randrange(Lu)] for _ in range(nops)]
        if rng.random() < 0.5:
            ops[0][0] = [0] * D
        q.append(['multi', ops])
        q.append(['mshape', [o[0] for o in ops]])
    return q


def to_model(case):
    """JSON line for the Lean driver. Boundary conditions: True = open; bc_shift None unless an int is given."""
    bc = case['bc']
    shifts = [int(b) if isinstance(b, int) else 0 for b in bc[1:]]
    has_shift = any(isinstance(b, int) for b in bc) and any(s != 0 for s in shifts)
    spec = case['order']
    if 'standard' in spec:
        snake, prio = spec['standard']
        spec = {'standard': [list(snake), prio]}
    var = case.get('variant')
    return {'cls': MODEL_CLS[case['cls']], 'Ls': case['Ls'], 'Lu': case['Lu'],
            'bc': [b == 'open' for b in bc], 'bc_shift': shifts if has_shift else None,
            'finite': case['bc_MPS'] == 'finite', 'order': spec, 'variant': var, 'q': case['q']}


def random_variant(rng, case):
    """Attach (sometimes) a derived-lattice variant that is valid for the case; returns a new case or None."""
    cls, Ls, Lu = case['cls'], case['Ls'], case['Lu']
    D = len(Ls)
    finite = case['bc_MPS'] == 'finite'
    kinds = ['irregular', 'irregular']
    if case['bc_MPS'] == 'infinite':
        kinds.append('enlarge')
    if 'rows' not in case['order'] and 'grouped' not in case['order'] and cls != 'Lattice' and cls != 'SimpleLattice':
        if 'standard' not in case['order'] or cls not in SIMPLE:
            kinds.append('multi')
    kind = rng.choice(kinds)
    c = dict(case)
    if kind == 'enlarge':
        c['variant'] = {'enlarge': rng.choice([2, 3])}
    elif kind == 'multi':
        c['variant'] = {'multi': rng.choice([2, 3])}
    else:
        grid = [list(r) for r in itertools.product(*[range(L) for L in Ls], range(Lu))]
        N = len(grid)
        nrem = rng.randint(0, min(3, N - 1))
        remove = rng.sample(grid, nrem) if nrem else None
        add = None
        n_add_uc = 0
        if rng.random() < 0.5:
            n_add_uc = rng.randint(1, 2)
            nadd = rng.randint(1, 3)
            cells = [list(r) for r in itertools.product(*[range(L) for L in Ls])]
            cand = [c_ + [Lu + k] for c_ in cells for k in range(n_add_uc)]
            rows = rng.sample(cand, min(nadd, len(cand)))
            mps = []
            for _ in rows:
                r = rng.random()
                if r < 0.4:
                    mps.append(None)
                elif r < 0.7:
                    mps.append([2 * rng.randint(-1, N) + 1, 2])
                else:
                    mps.append([rng.randint(-1, N), 1])
            add = [rows, mps]
        if remove is None and add is None:
            remove = [rng.choice(grid)] if N > 1 else None
            if remove is None:
                return None
        c['variant'] = {'irregular': {'remove': remove, 'add': add, 'n_add_uc': n_add_uc}}
    return c


def helical_cases(rng, full):
    """HelicalLattice needs a 2D regular lattice, bc ['periodic', -1], infinite MPS, C-style order up to a
    permutation inside the unit cell."""
    out = []
    for cls, Lu in [('Square', 1), ('Triangular', 1), ('Honeycomb', 2), ('Kagome', 3), ('Lattice', 2)]:
        for Lx, Ly in itertools.product(range(1, 5), repeat=2):
            cells = Lx * Ly
            divs = [n for n in range(1, cells + 1) if cells % n == 0]
            orders = [{'name': 'Cstyle'}]
            if Lu > 1:
                perm = list(range(Lu))
                rng.shuffle(perm)
                rows = [[x, y, u] for x in range(Lx) for y in range(Ly) for u in perm]
                orders.append({'rows': rows})
            for order in orders:
                for n in (divs if full else [rng.choice(divs)]):
                    out.append(base_case(cls, [Lx, Ly], Lu, order, ['periodic', -1], 'infinite', {'helical': n}))
                n = rng.choice(divs)
                out.append(base_case(cls, [Lx, Ly], Lu, order, ['periodic', -1], 'infinite',
                                     {'helical_enlarge': [n, rng.choice([2, 3])]}))
    return out


def exhaustive_family(rng, n_random_perms=2, n_random_tuples=1, maxL=4):
    """Every lattice class x size <= maxL x maxL x named ordering (+ tuple orderings + random permutations)
    x every boundary combination. Queries are attached later (standard_queries)."""
    for cls, dim, Lu in class_variants():
        for Ls in sizes_for(dim, maxL):
            orders = named_orders(cls) + fixed_tuple_orders(cls, dim, Lu)
            for _ in range(n_random_tuples):
                orders.append(random_standard(rng, cls, dim))
                if dim >= 2 and cls not in SIMPLE:
                    orders.append(random_grouped(rng, dim, Lu))
            for _ in range(n_random_perms):
                orders.append(random_rows(rng, Ls, Lu))
            for bc, mps in bc_combos(dim, Ls[0]):
                for order in orders:
                    yield base_case(cls, Ls, Lu, order, bc, mps)


def random_case(rng, maxL=4):
    cls, dim, Lu = rng.choice(class_variants() + [('Lattice', 3, rng.choice([1, 2]))])
    if dim == 3:
        Ls = [rng.randint(1, 3) for _ in range(3)]
    elif dim == 1:
        Ls = [rng.randint(1, maxL + 2)]
    else:
        Ls = [rng.randint(1, maxL) for _ in range(dim)]
    r = rng.random()
    if r < 0.4:
        order = rng.choice(named_orders(cls))
    elif r < 0.6:
        order = random_standard(rng, cls, dim)
    elif r < 0.75 and dim >= 2 and cls not in SIMPLE:
        order = random_grouped(rng, dim, Lu)
    else:
        order = random_rows(rng, Ls, Lu)
    ys = ['open', 'periodic', 1, -1, 2, -2, 3]
    bc = [rng.choice(['open', 'periodic'])] + [rng.choice(ys) for _ in range(dim - 1)]
    if bc[0] == 'open' and any(isinstance(b, int) for b in bc) and rng.random() < 0.7:
        bc[0] = 'periodic'  # the shifted + open-x class (known finding) is sampled, but not over-sampled
    mps = 'finite'
    if bc[0] == 'periodic':
        mps = rng.choice(['finite', 'infinite', 'infinite', 'segment'])
    return base_case(cls, Ls, Lu, order, bc, mps)
