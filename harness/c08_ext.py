"""C08 extension round: correspondence of the newly modelled code with the real tenpy code, plus the dense oracle.

Newly modelled (lean/TenpyModel/C08/Ext*.lean, driver lean/drivers/C08.lean):

* `_corr_up_diag` (one shared left environment for all targets)  -> op `corrsweep`
* the assembly of the matrix in `correlation_function` (masks, on-site entries, `hermitian`, second loop) -> `corrmatrix`
* `sample_measurements` on a window, measurement bases, `complex_amplitude` -> `samplerange`, `opidx`
* argument parsing / defaults / operator selection / loop ranges -> `evplan`, `getop`, `corrsites`, `mutinf`, `tcfjr`

Every case is a small JSON dict with its own seed (`{'kind': 'ext', 'sub': ..., 'seed': ...}`); `eval_ext(case)` runs the
real code, builds the driver lines, and returns the oracle verdicts and a `compare(outs)` closure (model vs real output).
"""
import itertools
import random
import warnings

import numpy as np

from harness import mps_common as mc

TOL = 1e-9

DUP_SIG = 'C08.ext.correlation_function[a site listed more than once in sites1/sites2]'
FS_SIG = 'C08.ext.entropy.entanglement_entropy_segment[first_site given as a plain int]'
IDX_SIG = 'C08.ext.expectation_value.ops-indexing[explicit sites, one operator per requested site as in the doc-string example]'


def mat_enc(m):
    return mc.enc_flat(np.asarray(m))


def kron_ops(dims, mats):
    out = np.array([[1.0]])
    for d, m in zip(dims, mats):
        out = np.kron(out, np.eye(d) if m is None else m)
    return out


def close(a, b, tol=TOL):
    a, b = np.asarray(a), np.asarray(b)
    if a.shape != b.shape:
        return False
    return bool(np.all(np.abs(a - b) <= tol * (1.0 + np.abs(b))))


def dec_list(vs):
    return np.array([mc.dec_scalar(v) for v in vs])


# ----------------------------------------------------------------------------------------------------------------
# generators


def gen_cases(rng, n, quick):
    cases = []
    subs = ['corr', 'repeat', 'entropy', 'sample', 'args', 'corr', 'entropy', 'repeat', 'sample', 'args', 'corr', 'repeat', 'entropy']
    k = 0
    while len(cases) < n:
        sub = subs[k % len(subs)]
        k += 1
        case = dict(kind='ext', sub=sub, seed=rng.getrandbits(31))
        if sub == 'corr':
            Lmax = 5 if quick else 6
            kind = rng.choice(['full', 'full', 'randB'])
            ket = mc.gen_case(rng, [kind], Lmax=Lmax, dmax=96 if quick else 256)
            if kind == 'randB':
                ket['canon'] = rng.choice([True, False])
            if kind == 'full':
                ket['form'] = rng.choice([None, 'A', 'B', 'C'])
            if len(ket['sites']['kinds']) < 3:
                continue
            bra = dict(kind='full', seed=rng.getrandbits(31), complex=ket['complex'], sites=ket['sites'],
                       form=rng.choice([None, 'B']), normalize=rng.random() < 0.5, density=1.0)
            case.update(ket=ket, bra=bra)
        elif sub == 'sample':
            if rng.random() < 0.25:
                L = rng.randint(1, 3)
                kk = rng.choice([('SpinHalf', None), ('Spin1', None), ('Fermion', None), ('Boson2', None)])
                case.update(inf=dict(kind='inf', seed=rng.getrandbits(31), complex=rng.random() < 0.3,
                                     sites={'kinds': [[kk[0], kk[1]]] * L}, chi=[2] * L))
            else:
                kind = rng.choice(['full', 'randB'])
                ket = mc.gen_case(rng, [kind], Lmax=5 if quick else 6, dmax=96 if quick else 256)
                if kind == 'randB':
                    ket['canon'] = True
                if kind == 'full':
                    ket['form'] = rng.choice([None, 'A', 'B', 'C'])
                    ket['normalize'] = True
                case.update(ket=ket)
        elif sub == 'entropy':
            # random entangled states: from_full of random vectors, all site kinds
            ket = mc.gen_case(rng, ['full'], Lmax=5 if quick else 6, dmax=96 if quick else 256)
            ket['form'] = rng.choice([None, 'A', 'B', 'C'])
            ket['normalize'] = True
            ket['density'] = 1.0
            if len(ket['sites']['kinds']) < 2:
                continue
            case.update(ket=ket)
        elif sub == 'repeat':
            # fermionic chains: finite (all conserve options) and infinite unit cells (terms beyond the first cell)
            if rng.random() < 0.5:
                L = rng.randint(1, 3)
                kk = rng.choice([('Fermion', None), ('Fermion', 'parity'), ('SHFermion', [None, None])])
                case.update(inf=dict(kind='inf', seed=rng.getrandbits(31), complex=rng.random() < 0.3,
                                     sites={'kinds': [[kk[0], kk[1]]] * L}, chi=[2] * L))
            else:
                kk = rng.choice([('Fermion', None), ('Fermion', 'N'), ('Fermion', 'parity'), ('SHFermion', [None, None]),
                                 ('SHFermion', ['N', 'Sz']), ('SHFermion', ['parity', 'Sz']), ('SHFermion', ['N', None])])
                L = rng.randint(3, 6 if kk[0] == 'Fermion' else 4)
                case.update(ket=dict(kind='full', seed=rng.getrandbits(31), complex=rng.random() < 0.3,
                                     sites={'kinds': [[kk[0], kk[1]]] * L}, form=rng.choice([None, 'A', 'B', 'C']),
                                     normalize=True, density=1.0))
        cases.append(case)
    return cases


# ----------------------------------------------------------------------------------------------------------------
# corr: `_corr_up_diag` and the matrix of `correlation_function`


def parse_sites(L, arg):
    """documented parsing of sites1 / sites2: None -> range(L), int k -> range(k), sorted."""
    if arg is None:
        return list(range(L))
    if isinstance(arg, int):
        return list(range(arg))
    return sorted(arg)


def eval_corr(case):
    from tenpy.networks.mps import MPSEnvironment
    rnd = random.Random(case['seed'])
    oracle, lines, expects = [], [], []
    stk = mc.build_state(case['ket'])
    psi = stk['psi']
    stb = mc.build_state(case['bra'])
    phi = stb['psi']
    sites = psi.sites
    L = psi.L
    dims = [s.dim for s in sites]
    hist = ['ext=corr', 'L=%d' % L, 'ext.ket=' + case['ket']['kind']]
    ketv = mc.np_state(psi, with_norm=False).reshape(-1)
    if not mc.close(ketv * psi.norm, stk['ref'].reshape(-1), 1e-8 * max(1.0, np.max(np.abs(stk['ref'])))):
        return dict(skip='ket does not denote its input (C07 territory)')
    try:
        compatible = bool(np.all(phi.get_total_charge(True) == psi.get_total_charge(True)))
    except Exception:
        compatible = True
    if not compatible:
        # another state in the same charge sector with norm != 1: a charge-neutral diagonal operator applied to psi
        phi = psi.copy()
        for i in range(L):
            dg = [n for n in sorted(sites[i].opnames) if n not in ('Id', 'JW')
                  and np.all(sites[i].get_op(n).qtotal == 0) and not sites[i].op_needs_JW(n)]
            dg = [n for n in dg if np.count_nonzero(sites[i].get_op(n).to_ndarray()
                                                    - np.diag(np.diagonal(sites[i].get_op(n).to_ndarray()))) == 0]
            if dg:
                m = sites[i].get_op(dg[0]) + 2.75 * sites[i].get_op('Id')
                phi.apply_local_op(i, m, unitary=False, renormalize=False)
        hist.append('ext.bra=psi-with-local-ops')
    else:
        hist.append('ext.bra=independent')
    brav = mc.np_state(phi, with_norm=False).reshape(-1)
    env = MPSEnvironment(phi, psi)
    nrm = phi.norm * psi.norm

    def opm(i, name):
        return sites[i].get_op(name).to_ndarray()

    def names():
        return [rnd.choice(sorted(sites[i].opnames)) for i in range(L)]

    def dense(mats, b=brav, k=ketv):
        return b.conj() @ (kron_ops(dims, mats) @ k)

    def pair_mats(o1, o2, ostr, sof, i, j):
        """documented operator product of correlation_function for the pair (i, j), one matrix per site"""
        mats = [None] * L
        A, B = opm(i, o1[i]), opm(j, o2[j])
        if i == j:
            mats[i] = A @ B
            return mats
        lo, hi = min(i, j), max(i, j)
        mats[i], mats[j] = A, B
        if ostr is not None:
            for r in range(lo, hi):
                S = opm(r, ostr[r])
                if r == lo:
                    if sof:
                        mats[r] = (mats[r] @ S) if i < j else (S @ mats[r])
                else:
                    mats[r] = S
        return mats

    def str_enc(ostr):
        return None if ostr is None else [mat_enc(opm(r, ostr[r])) for r in range(L)]

    # ---------------- (1) the sweep itself, both uses (apply_opstr_first True / False)
    for _ in range(2):
        i = rnd.randrange(L - 1)
        js = sorted(rnd.sample(range(i + 1, L), rnd.randint(1, L - 1 - i)))
        o1, o2 = names(), names()
        ostr = names() if rnd.random() < 0.6 else None
        sof = rnd.random() < 0.6
        first = rnd.random() < 0.5
        try:
            got = env._corr_up_diag(o1, o2, i, np.array(js), ostr if ostr is not None else [None], sof, first)
            got = np.array([complex(g) for g in got])
        except Exception as e:
            oracle.append(('C08.ext._corr_up_diag.raises:%s' % type(e).__name__, repr(e)[:200]))
            continue
        want = []
        for j in js:
            if first:
                mats = pair_mats(o1, o2, ostr, sof, i, j)
            else:
                # lower-triangle use: the first operator list plays the role of ops2 (site i), string after it
                mats = pair_mats(o2, o1, ostr, sof, j, i)
            want.append(dense(mats))
        det = 'i=%d js=%s ops1=%s ops2=%s opstr=%s str_on_first=%s apply_opstr_first=%s' % (i, js, o1, o2, ostr, sof, first)
        if not close(got, np.array(want)):
            oracle.append(('C08.ext._corr_up_diag.value', '%s got %s want %s' % (det, got[:4], np.array(want)[:4])))
        lines.append({'op': 'corrsweep', 'bra': mc.dump_mps(phi), 'ket': mc.dump_mps(psi), 'i': i, 'js': js,
                      'opA': mat_enc(opm(i, o1[i])), 'opsB': [mat_enc(opm(r, o2[r])) for r in range(L)],
                      'str': str_enc(ostr), 'sof': sof, 'first': first})
        expects.append(('list', got, 'C08.ext.model.corr_up_diag', det))
        hist.append('ext.sweep.targets=%d' % len(js))

    # ---------------- (2) the matrix
    def site_arg():
        r = rnd.random()
        if r < 0.15:
            return None
        if r < 0.3:
            return rnd.randint(1, L)
        return rnd.sample(range(L), rnd.randint(1, L))

    for trial in range(3):
        o1, o2 = names(), names()
        ostr = names() if rnd.random() < 0.5 else None
        sof = rnd.random() < 0.6
        a1, a2 = site_arg(), site_arg()
        herm = rnd.random() < 0.35
        if herm and rnd.random() < 0.7:
            a2 = a1
        dup = False
        if not herm and rnd.random() < 0.2:
            # malformed stream: a site listed twice
            which = rnd.choice([1, 2])
            base = parse_sites(L, a1 if which == 1 else a2)
            extra = [rnd.choice(base) for _ in range(rnd.randint(1, 2))]
            if which == 1:
                a1 = base + extra
            else:
                a2 = base + extra
            dup = True
        s1, s2 = parse_sites(L, a1), parse_sites(L, a2)
        use_env = trial < 2
        obj = env if use_env else psi
        b_, k_ = (brav, ketv) if use_env else (ketv, ketv)
        det = 'env=%s ops1=%s ops2=%s sites1=%r sites2=%r opstr=%s str_on_first=%s hermitian=%s' % (
            use_env, o1, o2, a1, a2, ostr, sof, herm)
        want = np.array([[dense(pair_mats(o1, o2, ostr, sof, i, j), b_, k_) for j in s2] for i in s1])
        want = want * (nrm if use_env else 1.0)
        herm_eff = herm and s1 == s2
        got, err = None, None
        try:
            with warnings.catch_warnings():
                warnings.simplefilter('ignore')
                got = np.array(obj.correlation_function(o1, o2, a1, a2, opstr=ostr, str_on_first=sof, hermitian=herm,
                                                        autoJW=False), dtype=complex)
        except Exception as e:
            err = e
        hist.append('ext.matrix=%s' % ('dup' if dup else ('herm' if herm_eff else ('herm-off' if herm else 'plain'))))
        if err is not None:
            sig = DUP_SIG if dup else 'C08.ext.correlation_function.raises:%s' % type(err).__name__
            oracle.append((sig, '%s: %r' % (det, err)))
        elif not herm_eff:
            if not close(got, want):
                sig = DUP_SIG if dup else 'C08.ext.correlation_function.value'
                bad = np.argwhere(np.abs(got - want) > TOL * (1 + np.abs(want)))
                oracle.append((sig, '%s: entry %s got %r want %r' % (det, bad[0].tolist(), got[tuple(bad[0])], want[tuple(bad[0])])))
        else:
            # the flag promises nothing unless C is hermitian; then it must be the dense matrix
            if np.allclose(want, want.conj().T, atol=1e-12) and not close(got, want):
                oracle.append(('C08.ext.correlation_function.hermitian', det))
            # whatever the operators: upper triangle and diagonal are computed as usual
            iu = np.triu_indices(len(s1))
            if not close(got[iu], want[iu]):
                oracle.append(('C08.ext.correlation_function.hermitian.upper', det))
        lines.append({'op': 'corrmatrix', 'bra': mc.dump_mps(phi if use_env else psi), 'ket': mc.dump_mps(psi),
                      'ops1': [mat_enc(opm(r, o1[r])) for r in range(L)], 'ops2': [mat_enc(opm(r, o2[r])) for r in range(L)],
                      'str': str_enc(ostr), 'sof': sof, 's1': s1, 's2': s2, 'herm': herm, 'usenorm': use_env})
        expects.append(('matrix', (got, err), 'C08.ext.model.correlation_function', det))
    # a proper use of the hermitian flag on a plain MPS: ops2 = hc(ops1), same sites
    try:
        h1 = [rnd.choice(sorted(n for n in sites[i].opnames if sites[i].get_hc_op_name(n) in sites[i].opnames))
              for i in range(L)]
        h2 = [sites[i].get_hc_op_name(h1[i]) for i in range(L)]
    except Exception:
        h1 = None
    if h1 is not None:
        s = sorted(rnd.sample(range(L), rnd.randint(2, L)))
        got = np.array(psi.correlation_function(h1, h2, s, s, hermitian=True, autoJW=False), dtype=complex)
        want = np.array([[dense(pair_mats(h1, h2, None, True, i, j), ketv, ketv) for j in s] for i in s])
        det = 'ops1=%s ops2=hc sites=%s hermitian=True' % (h1, s)
        if not close(got, want, 1e-8):
            oracle.append(('C08.ext.correlation_function.hermitian', det))
        lines.append({'op': 'corrmatrix', 'bra': mc.dump_mps(psi), 'ket': mc.dump_mps(psi),
                      'ops1': [mat_enc(opm(r, h1[r])) for r in range(L)], 'ops2': [mat_enc(opm(r, h2[r])) for r in range(L)],
                      'str': None, 'sof': True, 's1': s, 's2': s, 'herm': True, 'usenorm': False})
        expects.append(('matrix', (got, None), 'C08.ext.model.correlation_function.hermitian', det))
        hist.append('ext.matrix=herm-proper')
    # ---------------- (3) tabulated evaluation = literal definitions (first two sites' worth of work only)
    if L <= 3 and max(max(psi.chi, default=1), max(phi.chi, default=1)) <= 2:
        o2 = names()
        ostr = names()
        lines.append({'op': 'selfcheck', 'bra': mc.dump_mps(phi), 'ket': mc.dump_mps(psi),
                      'opA': mat_enc(opm(0, rnd.choice(sorted(sites[0].opnames)))),
                      'opsB': [mat_enc(opm(r, o2[r])) for r in range(L)], 'str': str_enc(ostr),
                      'js': list(range(1, L)), 'sigma': [rnd.randrange(d) for d in dims]})
        expects.append(('selfcheck', None, 'C08.ext.model.selfcheck', ''))

    def compare(outs):
        bad = []
        for (what, ref, sig, det), out in zip(expects, outs):
            if 'error' in out:
                bad.append((sig, 'driver error ' + str(out['error'])[:200] + ' ' + det))
            elif what == 'list':
                g = dec_list(out['v'])
                if not close(g, ref):
                    bad.append((sig, '%s: model %s code %s' % (det, g[:4], ref[:4])))
            elif what == 'matrix':
                got, err = ref
                if err is not None:
                    if out['ok']:
                        bad.append((sig + '.code-raises', '%s: code %r, model returns a matrix' % (det, err)))
                elif not out['ok']:
                    bad.append((sig + '.model-raises', '%s: model %s' % (det, out['err'])))
                else:
                    if any(v is None for row in out['C'] for v in row):
                        bad.append((sig + '.unwritten-entry', det))
                    else:
                        g = np.array([[mc.dec_scalar(v) for v in row] for row in out['C']]).reshape(got.shape)
                        if not close(g, got):
                            bad.append((sig, '%s: model %s code %s' % (det, g.ravel()[:4], got.ravel()[:4])))
            elif what == 'selfcheck':
                for a, b in (('lit', 'fast'), ('n_lit', 'n_fast')):
                    if not close(dec_list(out[a]), dec_list(out[b]), 1e-12):
                        bad.append((sig, '%s vs %s' % (a, b)))
                if abs(mc.dec_scalar(out['s_lit']) - mc.dec_scalar(out['s_fast'])) > 1e-12:
                    bad.append((sig, 'sampleRange'))
        return bad

    return dict(oracle=oracle, lines=lines, compare=compare, nontrivial=max(psi.chi) > 1, hist=hist)


# ----------------------------------------------------------------------------------------------------------------
# sample_measurements on a window


def nondeg_herm(site):
    out = []
    for n in sorted(site.opnames):
        if site.op_needs_JW(n) or np.any(site.get_op(n).qtotal != 0) or n in ('Id', 'JW'):
            continue
        m = site.get_op(n).to_ndarray()
        if np.linalg.norm(m - m.conj().T) < 1e-13:
            w = np.linalg.eigvalsh(m)
            if len(w) == 1 or np.min(np.diff(np.sort(w))) > 1e-6:
                out.append(n)
    return out


def eval_sample(case):
    rnd = random.Random(case['seed'])
    oracle, lines, expects = [], [], []
    if 'inf' in case:
        b = mc.build_infinite(case['inf'])
        psi = b['psi']
        w = mc.transfer_spectrum(b['dense'])[0]
        if (len(w) > 1 and abs(w[1]) > 0.9 * abs(w[0])) or abs(w[0]) < 1e-8:
            return dict(skip='inf: degenerate/zero (generator)')
        psi.canonical_form()
        hist = ['ext=sample', 'ext.bc=infinite']
    else:
        stk = mc.build_state(case['ket'])
        psi = stk['psi']
        hist = ['ext=sample', 'ext.bc=finite']
    L = psi.L
    fin = psi.finite
    sites = psi.sites
    for trial in range(4):
        if fin:
            if trial == 0:
                first, last = 0, L - 1
            else:
                first = rnd.randint(0, L - 1)
                last = rnd.randint(first, L - 1)
        else:
            first = rnd.randint(0, 2 * L)
            last = first + rnd.randint(0, min(3, max(1, 5 - L)))
        n = last - first + 1
        wsites = [sites[i % L] for i in range(first, last + 1)]
        wdims = [s.dim for s in wsites]
        if int(np.prod(wdims)) > 300:
            continue
        cplx = rnd.random() < 0.5
        common = sorted(set.intersection(*[set(nondeg_herm(s)) for s in wsites]))
        ops = None
        if common and rnd.random() < 0.5:
            ops = [rnd.choice(common) for _ in range(rnd.randint(1, 3))]
        seed = rnd.getrandbits(31)
        try:
            vals, wgt = psi.sample_measurements(first, last, ops=ops, rng=np.random.default_rng(seed),
                                                complex_amplitude=cplx)
        except Exception as e:
            oracle.append(('C08.ext.sample_measurements.raises:%s' % type(e).__name__,
                           'first=%d last=%d ops=%s: %r' % (first, last, ops, e)))
            continue
        # the window as a dense tensor (vL, p..., vR) from the stored tensors (independent numpy bookkeeping)
        th = mc.np_theta(psi, first, n)
        sig, vds = [], None
        okv = True
        if ops is not None:
            # eigenbases with numpy; the outcome reported by the code must be an eigenvalue of the documented operator
            vds = []
            for k_ in range(len(ops)):
                per = []
                for s_ in sites:
                    if ops[k_] in s_.opnames:
                        w_, v_ = np.linalg.eigh(s_.get_op(ops[k_]).to_ndarray())
                        per.append(v_.conj().T)
                    else:
                        per.append(np.eye(s_.dim))
                vds.append(per)
            for pos, i in enumerate(range(first, last + 1)):
                m_ = sites[i % L].get_op(ops[pos % len(ops)]).to_ndarray()
                w_, v_ = np.linalg.eigh(m_)
                cand = np.nonzero(np.abs(w_ - vals[pos]) < 1e-9)[0]
                if len(cand) != 1:
                    okv = False
                    break
                sig.append(int(cand[0]))
                th = np.moveaxis(np.tensordot(v_.conj().T, th, axes=(1, pos + 1)), 0, pos + 1)
        else:
            sig = [int(v) for v in vals]
        det = 'first=%d last=%d ops=%s outcomes=%s complex_amplitude=%s' % (first, last, ops,
                                                                            np.round(np.real(vals), 6).tolist(), cplx)
        if not okv:
            oracle.append(('C08.ext.sample_measurements.outcome-not-an-eigenvalue', det))
            continue
        sl = th[(slice(None),) + tuple(sig) + (slice(None),)]
        prob = float(np.sum(np.abs(sl) ** 2))
        full = fin and psi.bc == 'finite' and first == 0 and last == L - 1
        if full and cplx and ops is None:
            amp = sl.reshape(-1)[0] if sl.size == 1 else None
            if amp is not None and abs(wgt - amp) > 1e-9:
                oracle.append(('C08.ext.sample_measurements.amplitude', det + ' got %r want %r' % (wgt, amp)))
        gotp = abs(wgt) ** 2 if cplx else wgt
        if abs(gotp - prob) > 1e-9 * (1 + prob):
            oracle.append(('C08.ext.sample_measurements.probability', det + ' got %r want %r' % (gotp, prob)))
        if n >= 1:
            lines.append({'op': 'samplerange', 'mps': mc.dump_mps(psi), 'first': first, 'last': last, 'sigma': sig,
                          'complex': cplx,
                          'vd': None if vds is None else [[mat_enc(m) for m in per] + [mat_enc(per[i % L]) for i in range(L, last + 1)]
                                                         for per in vds]})
            expects.append(('sample', (wgt, ops is not None and full and cplx), 'C08.ext.model.sample_measurements', det))
        hist.append('ext.sample=%s%s%s' % ('full' if full else 'window', '+ops' if ops else '', '' if cplx else '+prob'))
        if ops is not None:
            lines.append({'op': 'opidx', 'first': first, 'nops': len(ops), 'sites': list(range(first, last + 1))})
            expects.append(('opidx', [pos % len(ops) for pos in range(n)], 'C08.ext.model.sample_op_index', det))
    # malformed stream
    if fin:
        # empty window: the loop does not run
        f0 = rnd.randint(1, L - 1) if L > 1 else 0
        if L > 1:
            vals, wgt = psi.sample_measurements(f0, f0 - 1, rng=np.random.default_rng(1))
            if len(vals) != 0 or wgt != 1.0:
                oracle.append(('C08.ext.sample_measurements.empty-window', 'first=%d last=%d -> %r %r' % (f0, f0 - 1, vals, wgt)))
            lines.append({'op': 'samplerange', 'mps': mc.dump_mps(psi), 'first': f0, 'last': f0 - 1, 'sigma': [],
                          'complex': True, 'vd': None})
            expects.append(('sample', (1.0, False), 'C08.ext.model.sample_measurements.empty', 'first=%d last=%d' % (f0, f0 - 1)))
        # window beyond the chain / non-hermitian operator: must raise
        try:
            psi.sample_measurements(0, L, rng=np.random.default_rng(1))
            oracle.append(('C08.ext.sample_measurements.beyond-chain-not-refused', 'last_site=L'))
        except ValueError:
            pass
        nh = [n for n in sorted(sites[0].opnames) if not sites[0].op_needs_JW(n) and np.all(sites[0].get_op(n).qtotal == 0)
              and np.linalg.norm(sites[0].get_op(n).to_ndarray() - sites[0].get_op(n).to_ndarray().conj().T) > 1e-6]
        if nh:
            try:
                psi.sample_measurements(0, 0, ops=[nh[0]], rng=np.random.default_rng(1))
                oracle.append(('C08.ext.sample_measurements.non-hermitian-not-refused', nh[0]))
            except ValueError:
                pass

    def compare(outs):
        bad = []
        for (what, ref, sig, det), out in zip(expects, outs):
            if 'error' in out:
                bad.append((sig, 'driver error ' + str(out['error'])[:200] + ' ' + det))
            elif what == 'sample':
                wgt, phase_free = ref
                g = mc.dec_scalar(out['weight'])
                if (abs(abs(g) - abs(wgt)) if phase_free else abs(g - wgt)) > 1e-9 * (1 + abs(wgt)):
                    bad.append((sig, '%s: model %r code %r' % (det, g, wgt)))
                # hypothesis of C08_sample_range_weight_sq: every w is a square root of the squared norm of that step
                ws, n2 = dec_list(out['ws']), dec_list(out['normsqs'])
                if ws.shape != n2.shape or not close(ws * ws, n2, 1e-12):
                    bad.append((sig + '.norms', det))
            elif what == 'opidx':
                if list(out['v']) != list(ref):
                    bad.append((sig, '%s: model %s documented %s' % (det, out['v'], ref)))
        return bad

    return dict(oracle=oracle, lines=lines, compare=compare, nontrivial=max(psi.chi) > 1, hist=hist)


# ----------------------------------------------------------------------------------------------------------------
# argument parsing, operator selection, loop ranges


def eval_args(case):
    from tenpy.networks.mps import MPS
    from tenpy.networks.site import SpinHalfSite, SpinSite
    import tenpy.linalg.np_conserved as npc
    rnd = random.Random(case['seed'])
    oracle, lines, expects = [], [], []
    hist = ['ext=args']
    L = rnd.randint(1, 6)
    fin = rnd.random() < 0.6
    site = SpinHalfSite(None) if rnd.random() < 0.6 else SpinSite(1.0, None)
    d = site.dim
    nprng = np.random.default_rng(case['seed'])
    vecs = [nprng.normal(size=d) for _ in range(L)]
    vecs = [v / np.linalg.norm(v) for v in vecs]
    psi = MPS.from_product_state([site] * L, vecs, bc='finite' if fin else 'infinite', unit_cell_width=L)
    hist.append('ext.bc=%s' % ('finite' if fin else 'infinite'))
    names_pool = [n for n in sorted(site.opnames) if n not in ('JW',)]

    def ev1(i, m):
        v = vecs[i % L]
        return v.conj() @ (m @ v)

    # ---------------- expectation_value: n, default sites, operator selection, raising branches
    for _ in range(3):
        nops = rnd.randint(1, 4)
        n = rnd.choice([1, 1, 2, 3]) if L >= 2 else 1
        as_str = n == 1 and rnd.random() < 0.5
        facs = [[rnd.choice(names_pool) for _ in range(n)] for _ in range(nops)]
        if as_str:
            # distinct names, so that the entry of `ops` the code selected can be recognised
            facs = [[nme] for nme in rnd.sample(names_pool, min(nops, len(names_pool)))]
            nops = len(facs)
            ops = [f[0] for f in facs]
            if rnd.random() < 0.3:
                # mixed list: a string anywhere makes n = 1
                k0 = rnd.randrange(nops)
                ops[k0] = site.get_op(facs[k0][0]).copy()
        else:
            ops = []
            for f in facs:
                o = site.get_op(f[0]).replace_labels(['p', 'p*'], ['p0', 'p0*']) if n > 1 else site.get_op(f[0]).copy()
                for k in range(1, n):
                    o = npc.outer(o, site.get_op(f[k]).replace_labels(['p', 'p*'], ['p%d' % k, 'p%d*' % k]))
                ops.append(o)
        r = rnd.random()
        if r < 0.4:
            sites_arg = None
        elif r < 0.8:
            hi = L - n if fin else 3 * L
            lo = 0 if fin else -2 * L
            sites_arg = [rnd.randint(lo, max(lo, hi)) for _ in range(rnd.randint(1, 4))] if hi >= lo else [0]
        else:
            # malformed: beyond the chain / empty
            sites_arg = rnd.choice([[L - n + 1], [L], [], [0, L + 1], [-L - 1]])
        axes = None
        if rnd.random() < 0.15:
            axes = (['p%d' % k for k in range(n)], ['p%d*' % k for k in range(n)]) if n > 1 else (['p'], ['p*'])
            if rnd.random() < 0.4:
                axes = (axes[0] + ['p9'], axes[1] + ['p9*'])   # wrong length -> ValueError
        desc = [[isinstance(o, str), 0 if isinstance(o, str) else o.rank] for o in ops]
        det = 'L=%d finite=%s ops=%s (n=%d) sites=%r axes=%r' % (L, fin, facs, n, sites_arg, None if axes is None else len(axes[0]))
        got, err = None, None
        try:
            with warnings.catch_warnings():
                warnings.simplefilter('ignore')
                got = np.array(psi.expectation_value(ops, sites_arg, axes))
        except Exception as e:
            err = e
        # plan of the real code: which entry of `ops` for which site
        plan_real = None
        try:
            with warnings.catch_warnings():
                warnings.simplefilter('ignore')
                ops_p, sites_p, n_p, _ = psi._expectation_value_args(ops, sites_arg, axes)
                plan_real = []
                for i in sites_p:
                    op_i, _ = psi.get_op(ops_p, i)
                    idx = [k for k, o in enumerate(ops_p)
                           if (o is op_i) or (isinstance(o, str) and site.get_op(o) is op_i)]
                    plan_real.append([int(i), idx[0] if idx else -1])
                plan_real = (int(n_p), plan_real)
        except Exception:
            plan_real = None
        # oracle: documented semantics (site i gets ops[i_in_unit_cell % len(ops)], default sites = windows that fit)
        n_doc = 1 if any(isinstance(o, str) for o in ops) else n
        s_doc = sites_arg if sites_arg is not None else list(range(L - (n_doc - 1) if fin else L))
        valid = all((0 <= i and i + n_doc <= L) or (-L <= i < 0 and i + L + n_doc <= L and n_doc == 1) for i in s_doc) if fin else True
        ax_ok = axes is None or len(axes[0]) == n_doc
        if n_doc != n:
            valid = False   # mixed list with n-site arrays does not occur (n == 1 there)
        if valid and ax_ok and not (sites_arg == [] and not any(isinstance(o, str) for o in ops)):
            if err is not None:
                oracle.append(('C08.ext.expectation_value.raises:%s' % type(err).__name__, '%s: %r' % (det, err)))
            else:
                want = []
                for i in s_doc:
                    f = facs[(i % L) % nops]
                    val = 1.0
                    for k in range(n_doc):
                        val = val * ev1(i + k, site.get_op(f[k]).to_ndarray())
                    want.append(val)
                if not close(got, np.array(want), 1e-9):
                    oracle.append(('C08.ext.expectation_value.value', '%s got %s want %s' % (det, got[:5], np.array(want)[:5])))
        elif err is None and fin and not valid and sites_arg:
            oracle.append(('C08.ext.expectation_value.out-of-range-not-refused', det))
        elif err is None and not ax_ok:
            oracle.append(('C08.ext.expectation_value.wrong-axes-not-refused', det))
        lines.append({'op': 'evplan', 'L': L, 'finite': fin, 'ops': desc, 'sites': sites_arg,
                      'axes': None if axes is None else [len(axes[0]), len(axes[1])]})
        expects.append(('evplan', (plan_real, err), 'C08.ext.model.expectation_value_args', det))
        hist.append('ext.ev=%s' % ('raises' if err is not None else ('default' if sites_arg is None else 'sites')))
    # ---------------- doc-string example: one operator per requested site
    if fin and L >= 4:
        ss = list(range(1, L, 2))
        if len(ss) >= 2:
            nm = rnd.sample(names_pool, min(len(ss), len(names_pool)))
            if len(nm) == len(ss):
                got = np.array(psi.expectation_value(nm, ss))
                want_doc = np.array([ev1(i, site.get_op(a).to_ndarray()) for a, i in zip(nm, ss)])
                if not close(got, want_doc, 1e-9):
                    oracle.append((IDX_SIG, 'L=%d ops=%s sites=%s: got %s, <ops[k]> on sites[k] is %s' % (L, nm, ss, got, want_doc)))
    # ---------------- get_op on its own (finite: bounds, deprecated negative indices; infinite: periodic)
    nops = rnd.randint(1, 4)
    arrs = [site.get_op(rnd.choice(names_pool)).copy() for _ in range(nops)]
    idxs = list(range(-2 * L - 1, 3 * L + 1))
    real = []
    for i in idxs:
        try:
            with warnings.catch_warnings():
                warnings.simplefilter('ignore')
                o, _ = psi.get_op(arrs, i)
            real.append([k for k, a in enumerate(arrs) if a is o][0])
        except ValueError:
            real.append('raises')
    doc = []
    for i in idxs:
        if fin:
            doc.append((i % L) % nops if -L <= i < L else 'raises')
        else:
            doc.append((i % L) % nops)
    if real != doc:
        oracle.append(('C08.ext.get_op.selection', 'L=%d finite=%s nops=%d: %s vs documented %s' % (L, fin, nops, real, doc)))
    lines.append({'op': 'getop', 'L': L, 'finite': fin, 'nops': nops, 'sites': idxs})
    expects.append(('getop', real, 'C08.ext.model.get_op', 'L=%d finite=%s nops=%d' % (L, fin, nops)))
    # ---------------- _correlation_function_args
    for arg in (None, rnd.randint(0, L), rnd.sample(range(L), rnd.randint(1, L)),
                [rnd.randrange(L) for _ in range(rnd.randint(1, L + 1))]):
        _, _, s1, _, _ = psi._correlation_function_args('Id', 'Id', arg, None, None)
        i0 = rnd.randrange(L)
        lines.append({'op': 'corrsites', 'L': L, 'arg': arg, 'i': i0})
        expects.append(('corrsites', ([int(x) for x in s1], [int(x) for x in s1[s1 > i0]]), 'C08.ext.model.correlation_function_args',
                        'L=%d arg=%r i=%d' % (L, arg, i0)))
        if [int(x) for x in s1] != parse_sites(L, arg):
            oracle.append(('C08.ext.correlation_function_args', 'L=%d arg=%r -> %s' % (L, arg, s1)))
    # ---------------- mutinf_two_site: which pairs
    if d ** 2 <= 9 and L >= 2:
        mr = rnd.choice([None, 1, 2, L, L + 2])
        with warnings.catch_warnings():
            warnings.simplefilter('ignore')
            coords, mi = psi.mutinf_two_site(max_range=mr)
        coords = [[int(a), int(b)] for a, b in coords] if len(coords) else []
        m_ = L if mr is None else mr
        doc = [[i, j] for i in range(L) for j in range(i + 1, i + m_ + 1) if (j < L or not fin)]
        if coords != doc:
            oracle.append(('C08.ext.mutinf_two_site.coords', 'L=%d finite=%s max_range=%r: %s vs %s' % (L, fin, mr, coords, doc)))
        if len(mi) and np.max(np.abs(mi)) > 1e-8:
            oracle.append(('C08.ext.mutinf_two_site.product-state', 'mutual information of a product state %s' % mi[:4]))
        lines.append({'op': 'mutinf', 'L': L, 'finite': fin, 'max_range': mr})
        expects.append(('mutinf', coords, 'C08.ext.model.mutinf_coords', 'L=%d finite=%s max_range=%r' % (L, fin, mr)))
    # ---------------- default j_R of term_correlation_function_right
    if L >= 3:
        tl = sorted(rnd.sample(range(0, 2), rnd.randint(1, 2)))
        tr = sorted(rnd.sample(range(0, 3), rnd.randint(1, 2)))
        if rnd.random() < 0.3:
            tr = [t - 1 for t in tr]
        iL = rnd.randint(0, 1)
        if iL + max(tl) < L:
            tL = [(rnd.choice(names_pool), t) for t in tl]
            tR = [(rnd.choice(names_pool), t) for t in tr]
            det = 'L=%d finite=%s i_L=%d term_L=%s term_R=%s' % (L, fin, iL, tL, tR)
            if fin:
                j0 = iL + max(tl) + 1 - min(tr)
                jdoc = list(range(j0, L - max(tr + [0])))
            else:
                jdoc = list(range(L, 11 * L, L))
            got, err = None, None
            try:
                with warnings.catch_warnings():
                    warnings.simplefilter('ignore')
                    got = np.array(psi.term_correlation_function_right(tL, tR, iL, None, autoJW=False))
            except Exception as e:
                err = e
            if jdoc:
                want = []
                for j in jdoc:
                    val = 1.0
                    for nme, t in tL:
                        val = val * ev1(iL + t, site.get_op(nme).to_ndarray())
                    for nme, t in tR:
                        val = val * ev1(j + t, site.get_op(nme).to_ndarray())
                    want.append(val)
                disjoint = all(iL + a < j + b_ for j in jdoc for a in tl for b_ in tr)
                if not disjoint:
                    # infinite default range(L, 11 L, L) with a term_L reaching into the next unit cell: overlapping
                    # terms are documented as not allowed and must be refused
                    if err is None:
                        oracle.append(('C08.ext.term_correlation_function_right.overlap-not-refused', det))
                elif err is not None:
                    oracle.append(('C08.ext.term_correlation_function_right.default-j_R.raises', '%s: %r' % (det, err)))
                elif not close(got, np.array(want), 1e-9):
                    oracle.append(('C08.ext.term_correlation_function_right.default-j_R', '%s got %s want %s' % (det, got[:4], want[:4])))
            lines.append({'op': 'tcfjr', 'L': L, 'finite': fin, 'iL': iL, 'termL': tl, 'termR': tr})
            expects.append(('tcfjr', (jdoc, None if got is None else len(got)), 'C08.ext.model.tcf_default_jR', det))

    def compare(outs):
        bad = []
        for (what, ref, sig, det), out in zip(expects, outs):
            if 'error' in out:
                bad.append((sig, 'driver error ' + str(out['error'])[:200] + ' ' + det))
            elif what == 'evplan':
                plan_real, err = ref
                if err is not None or plan_real is None:
                    if out['ok'] and err is not None and plan_real is None:
                        bad.append((sig + '.code-raises', '%s: code %r, model plan %s' % (det, err, out['plan'])))
                    elif out['ok'] and err is not None and plan_real is not None:
                        # the arguments parse, a later step of expectation_value raised (get_theta): the model must refuse too
                        bad.append((sig + '.code-raises-later', '%s: code %r, model plan %s' % (det, err, out['plan'])))
                elif not out['ok']:
                    bad.append((sig + '.model-raises', '%s: model %s, code plan %s' % (det, out['err'], plan_real)))
                elif [out['n'], [list(x) for x in out['plan']]] != [plan_real[0], plan_real[1]]:
                    bad.append((sig, '%s: model %s code %s' % (det, (out['n'], out['plan']), plan_real)))
            elif what == 'getop':
                m = [v if isinstance(v, int) else 'raises' for v in out['v']]
                if m != ref:
                    bad.append((sig, '%s: model %s code %s' % (det, m, ref)))
            elif what == 'corrsites':
                if list(out['sorted']) != ref[0] or list(out['jgtr']) != ref[1]:
                    bad.append((sig, '%s: model %s / %s code %s / %s' % (det, out['sorted'], out['jgtr'], ref[0], ref[1])))
            elif what == 'mutinf':
                if [list(c) for c in out['coords']] != ref:
                    bad.append((sig, '%s: model %s code %s' % (det, out['coords'], ref)))
            elif what == 'tcfjr':
                jdoc, nreal = ref
                if list(out['jR']) != jdoc or (nreal is not None and nreal != len(out['jR'])):
                    bad.append((sig, '%s: model %s documented %s, code returns %r values' % (det, out['jR'], jdoc, nreal)))
        return bad

    return dict(oracle=oracle, lines=lines, compare=compare, nontrivial=True, hist=hist)


# ----------------------------------------------------------------------------------------------------------------
# repeated evaluation of the same measurement objects (TermList, term lists, ops lists, site arrays, strength arrays)


def eval_repeat(case):
    """Every evaluation of the same measurement with the same (caller-owned) arguments gives the same, dense-reference
    value; numpy arrays / lists owned by the caller are bit-identical afterwards; a TermList that was evaluated still
    describes the same operator (it may be re-ordered in place, signs and terms together)."""
    import copy
    from functools import reduce
    from tenpy.networks.terms import TermList
    rnd = random.Random(case['seed'])
    oracle = []
    hist = ['ext=repeat']
    if 'inf' in case:
        b = mc.build_infinite(case['inf'])
        psi = b['psi']
        w = mc.transfer_spectrum(b['dense'])[0]
        if (len(w) > 1 and abs(w[1]) > 0.9 * abs(w[0])) or abs(w[0]) < 1e-8:
            return dict(skip='inf: degenerate/zero (generator)')
        psi.canonical_form()
        hist.append('ext.bc=infinite')
    else:
        psi = mc.build_state(case['ket'])['psi']
        hist.append('ext.bc=finite')
    L = psi.L
    fin = psi.finite
    sites = psi.sites
    d0 = max(s.dim for s in sites)
    wmax = 7 if d0 == 2 else (5 if d0 == 3 else 4)     # dense window (sites)

    def site(i):
        return sites[i % L]

    def jw_names(s):
        return sorted(n for n in s.opnames if s.op_needs_JW(n) and not n.startswith('JW') and s.get_hc_op_name(n) in s.opnames)

    def diag_names(s):
        out = []
        for n in sorted(s.opnames):
            if s.op_needs_JW(n) or n.startswith('JW'):
                continue
            m = s.get_op(n).to_ndarray()
            if np.count_nonzero(m - np.diag(np.diagonal(m))) == 0:
                out.append(n)
        return out

    def dense_term(term):
        """<psi| op_0 op_1 ... |psi> (mathematical order), JW strings from the left edge of the window (every term has an
        even number of fermionic operators, so everything further left cancels)."""
        idx = [i for _, i in term]
        a, bmax = min(idx), max(idx)
        n = bmax - a + 1
        th = mc.np_theta(psi, a, n)
        chiL, chiR = th.shape[0], th.shape[-1]
        dims = list(th.shape[1:-1])
        vec = th.reshape(chiL, int(np.prod(dims)), chiR)
        O = np.eye(int(np.prod(dims)))
        for name, i in term:
            s_ = site(i)
            facs = []
            for x in range(n):
                sx = site(a + x)
                if x < i - a and s_.op_needs_JW(name):
                    facs.append(sx.get_op('JW').to_ndarray())
                elif x == i - a:
                    facs.append(s_.get_op(name).to_ndarray())
                else:
                    facs.append(np.eye(sx.dim))
            O = O @ reduce(np.kron, facs)
        nrm = np.einsum('apb,apb->', vec.conj(), vec)
        return np.einsum('apb,pq,aqb->', vec.conj(), O, vec) / nrm

    def gen_term(lo, hi, span):
        """random term inside [lo, hi], at most `span` sites wide: 0, 2 or 4 fermionic operators (an operator and its
        hermitian conjugate per pair, so the term is charge neutral) plus diagonal ones, in RANDOM order."""
        a = rnd.randint(lo, max(lo, hi - span + 1))
        pos = list(range(a, min(hi, a + span - 1) + 1))
        term = []
        npairs = rnd.choice([0, 1, 1, 1, 2])
        for _ in range(npairs):
            cand = [i for i in pos if jw_names(site(i))]
            if len(cand) < 1:
                break
            i, j = rnd.choice(cand), rnd.choice(cand)
            nm = rnd.choice(jw_names(site(i)))
            hc = site(i).get_hc_op_name(nm)
            if hc not in site(j).opnames or not site(j).op_needs_JW(hc):
                continue
            term += [(nm, i), (hc, j)]
        for _ in range(rnd.randint(0 if term else 1, 2)):
            i = rnd.choice(pos)
            term.append((rnd.choice(diag_names(site(i))), i))
        rnd.shuffle(term)
        return term

    def gen_strengths(n, cplx):
        st = [rnd.choice([1.0, -0.5, 2.0, 0.25, 0.7, -1.1]) for _ in range(n)]
        if cplx:
            st = [x * (1j if rnd.random() < 0.3 else 1.0) for x in st]
        return st

    def termlist_value(tl):
        return sum(s_ * dense_term(t) for t, s_ in tl)

    cplx = psi.dtype.kind == 'c'
    # ---------------- expectation_value_terms_sum, three evaluations of ONE TermList
    for trial in range(2):
        if fin:
            terms = [gen_term(0, L - 1, min(L, wmax)) for _ in range(rnd.randint(1, 4))]
        else:
            # terms may start left of / right of the first unit cell
            terms = [gen_term(rnd.randint(-L, 2 * L), 10 ** 6, min(wmax, L + 2)) for _ in range(rnd.randint(1, 4))]
        st_list = gen_strengths(len(terms), cplx)
        mode = rnd.choice(['array', 'array', 'list'])
        st_arg = np.array(st_list) if mode == 'array' else list(st_list)
        st_snap = copy.deepcopy(st_arg)
        terms_snap = copy.deepcopy(terms)
        expected = sum(s_ * dense_term(t) for t, s_ in zip(terms_snap, st_list))
        det = 'bc=%s L=%d terms=%s strength(%s)=%s' % (psi.bc, L, terms_snap, mode, st_list)
        try:
            tl = TermList(terms, st_arg)
            for call in range(1, 4):
                val, _ = psi.expectation_value_terms_sum(tl)
                if abs(val - expected) > 1e-8 * (1 + abs(expected)):
                    oracle.append(('C08.ext.repeat.expectation_value_terms_sum.value[evaluation %d of the same TermList]' % min(call, 2),
                                   '%s: evaluation %d got %r want %r' % (det, call, val, expected)))
                    break
                now = termlist_value(tl)
                if abs(now - expected) > 1e-9 * (1 + abs(expected)):
                    oracle.append(('C08.ext.repeat.TermList-changed-meaning[after expectation_value_terms_sum]',
                                   '%s: after evaluation %d the TermList reads %s * %s (dense %r, was %r)' % (
                                       det, call, tl.terms, tl.strength.tolist(), now, expected)))
                    break
            # the caller's strength array / list is untouched
            same = (np.array_equal(st_arg, st_snap) if mode == 'array' else st_arg == st_snap)
            if not same:
                oracle.append(('C08.ext.repeat.caller-strength-modified[expectation_value_terms_sum]',
                               '%s: caller-owned strengths now %r' % (det, np.asarray(st_arg).tolist())))
            # a second TermList from the caller's own (unchanged) arguments
            val2, _ = psi.expectation_value_terms_sum(TermList(copy.deepcopy(terms_snap), st_arg))
            if abs(val2 - expected) > 1e-8 * (1 + abs(expected)):
                oracle.append(('C08.ext.repeat.expectation_value_terms_sum.value[second TermList from the same strength argument]',
                               '%s: got %r want %r' % (det, val2, expected)))
            # shift() returns a COPY: evaluating it must not disturb the original (finite: shift 0)
            tl3 = TermList(copy.deepcopy(terms_snap), copy.deepcopy(st_snap))
            sh = tl3.shift(0 if fin else L)
            psi.expectation_value_terms_sum(sh)
            if abs(termlist_value(tl3) - expected) > 1e-9 * (1 + abs(expected)):
                oracle.append(('C08.ext.repeat.TermList-changed-meaning[after evaluating its shift() copy]', det))
        except Exception as e:
            oracle.append(('C08.ext.repeat.expectation_value_terms_sum.raises:%s' % type(e).__name__, '%s: %r' % (det, e)))
        hist.append('ext.repeat.terms_sum=%s' % mode)
    # ---------------- expectation_value_term twice with the same term object
    for _ in range(2):
        term = gen_term(0, L - 1, min(L, wmax)) if fin else gen_term(rnd.randint(-L, 2 * L), 10 ** 6, min(wmax, L + 2))
        snap = copy.deepcopy(term)
        want = dense_term(snap)
        try:
            vals = [psi.expectation_value_term(term) for _ in range(2)]
            for k, v in enumerate(vals):
                if abs(v - want) > 1e-8 * (1 + abs(want)):
                    oracle.append(('C08.ext.repeat.expectation_value_term.value', 'term=%s evaluation %d got %r want %r' % (snap, k + 1, v, want)))
                    break
            if term != snap:
                oracle.append(('C08.ext.repeat.caller-term-modified[expectation_value_term]', '%s -> %s' % (snap, term)))
        except Exception as e:
            oracle.append(('C08.ext.repeat.expectation_value_term.raises:%s' % type(e).__name__, '%s: %r' % (snap, e)))
    # ---------------- term_list_correlation_function_right twice with the same TermLists / j_R array
    if fin and L >= 4:
        wl = rnd.randint(1, 2)
        wr = rnd.randint(1, 2)
        if wl + wr <= L:
            tLs = [[(n_, i - 0) for n_, i in gen_term(0, wl - 1, wl)] for _ in range(rnd.randint(1, 2))]
            tRs = [[(n_, i - 0) for n_, i in gen_term(0, wr - 1, wr)] for _ in range(rnd.randint(1, 2))]
            # same site kinds needed for shifted terms: only uniform chains
            if len({repr(s_) for s_ in sites}) == 1:
                sL, sR = gen_strengths(len(tLs), cplx), gen_strengths(len(tRs), cplx)
                aL, aR = np.array(sL), np.array(sR)
                iL = rnd.randint(0, L - wl - wr)
                jR = np.array(sorted(rnd.sample(range(iL + wl, L - wr + 1), rnd.randint(1, L - wr + 1 - iL - wl))))
                jsnap = jR.copy()
                want = []
                for j in jsnap:
                    v = 0.0
                    for ta, xa in zip(tLs, sL):
                        for tb, xb in zip(tRs, sR):
                            v = v + xa * xb * dense_term([(n_, i + iL) for n_, i in ta] + [(n_, i + int(j)) for n_, i in tb])
                    want.append(v)
                want = np.array(want)
                det = 'L=%d term_list_L=%s*%s term_list_R=%s*%s i_L=%d j_R=%s' % (L, tLs, sL, tRs, sR, iL, jsnap.tolist())
                try:
                    tlL, tlR = TermList(copy.deepcopy(tLs), aL), TermList(copy.deepcopy(tRs), aR)
                    for call in range(1, 3):
                        got = np.array(psi.term_list_correlation_function_right(tlL, tlR, iL, jR))
                        if not close(got, want, 1e-8):
                            oracle.append(('C08.ext.repeat.term_list_correlation_function_right.value[evaluation %d]' % call,
                                           '%s got %s want %s' % (det, got[:4], want[:4])))
                            break
                    if not (np.array_equal(jR, jsnap) and np.array_equal(aL, np.array(sL)) and np.array_equal(aR, np.array(sR))):
                        oracle.append(('C08.ext.repeat.caller-array-modified[term_list_correlation_function_right]', det))
                except Exception as e:
                    oracle.append(('C08.ext.repeat.term_list_correlation_function_right.raises:%s' % type(e).__name__, '%s: %r' % (det, e)))
                hist.append('ext.repeat.term_list_corr')
    # ---------------- correlation_function / expectation_value twice with caller-owned lists and arrays
    if fin:
        o1 = [rnd.choice(diag_names(s_)) for s_ in sites]
        o2 = [rnd.choice(diag_names(s_)) for s_ in sites]
        s1 = np.array(rnd.sample(range(L), rnd.randint(1, L)))     # NOT sorted: the code sorts a copy
        s2 = np.array(rnd.sample(range(L), rnd.randint(1, L)))
        snap = (list(o1), list(o2), s1.copy(), s2.copy())
        c1 = np.array(psi.correlation_function(o1, o2, s1, s2))
        c2 = np.array(psi.correlation_function(o1, o2, s1, s2))
        want = np.array([[dense_term([(o1[i], i), (o2[j], j)]) for j in sorted(snap[3])] for i in sorted(snap[2])])
        if not close(c1, want, 1e-8) or not close(c2, want, 1e-8):
            oracle.append(('C08.ext.repeat.correlation_function.value', 'ops1=%s ops2=%s sites1=%s sites2=%s' % (o1, o2, snap[2], snap[3])))
        if o1 != snap[0] or o2 != snap[1] or not np.array_equal(s1, snap[2]) or not np.array_equal(s2, snap[3]):
            oracle.append(('C08.ext.repeat.caller-array-modified[correlation_function]', 'sites1 %s -> %s, sites2 %s -> %s' % (snap[2], s1, snap[3], s2)))
        sl = np.array(rnd.sample(range(L), rnd.randint(1, L)))
        sls = sl.copy()
        e1 = np.array(psi.expectation_value(o1, sl))
        e2 = np.array(psi.expectation_value(o1, sl))
        wante = np.array([dense_term([(o1[i], i)]) for i in sls])
        if not close(e1, wante, 1e-8) or not close(e2, wante, 1e-8) or not np.array_equal(sl, sls) or o1 != snap[0]:
            oracle.append(('C08.ext.repeat.expectation_value', 'ops=%s sites=%s' % (snap[0], sls)))
    return dict(oracle=oracle, lines=[], nontrivial=max(psi.chi) > 1, hist=hist)


# ----------------------------------------------------------------------------------------------------------------
# entropies / mutual information / charge statistics with every optional numeric argument drawn


def np_entropy(p, n):
    p = np.asarray(p).real
    p = p[p > 1e-30]
    if n == 1:
        return float(-np.sum(p * np.log(p)))
    if n == np.inf:
        return float(-np.log(np.max(p)))
    return float(np.log(np.sum(p ** n)) / (1.0 - n))


def eval_entropy(case):
    rnd = random.Random(case['seed'])
    oracle = []
    stk = mc.build_state(case['ket'])
    psi = stk['psi']
    L = psi.L
    dims = [s.dim for s in psi.sites]
    vec = mc.np_state(psi, with_norm=False).reshape(-1)
    vec = vec / np.linalg.norm(vec)
    hist = ['ext=entropy', 'L=%d' % L]

    def rdm(keep):
        t = vec.reshape(dims)
        other = [i for i in range(L) if i not in keep]
        m = np.transpose(t, list(keep) + other).reshape(int(np.prod([dims[i] for i in keep])), -1)
        return m @ m.conj().T

    def S(keep, n):
        return np_entropy(np.linalg.eigvalsh(rdm(sorted(keep))), n)

    for n in rnd.sample([1, 2, 0.5, 3, np.inf, 1.5], 3):
        tol = 1e-7
        if n < 1:
            # a Renyi entropy with n < 1 is ill-conditioned at (numerically) zero eigenvalues: rounding noise
            # delta ~ 1e-15 in D vanishing eigenvalues of a rank-deficient density matrix contributes up to
            # D * delta**n / (1 - n) -- on BOTH sides (dense eigvalsh here, Schmidt values in tenpy). Found as a
            # false alarm in the thorough tier (pure 3-site state, n=0.5: got -7e-16, dense reference 3.8e-7).
            tol = min(1e-3, 1e-7 + 4.0 * float(np.prod(dims)) * (1e-15) ** n / (1.0 - n))
        hist.append('ext.entropy.n=%s' % n)
        # mutinf_two_site(max_range, n)
        mr = rnd.choice([None, 1, 2, L])
        try:
            coords, mi = psi.mutinf_two_site(max_range=mr, n=n)
            want = [S([i], n) + S([j], n) - S([i, j], n) for i, j in coords]
            if len(mi) and not close(np.array(mi), np.array(want), tol):
                k = int(np.argmax(np.abs(np.array(mi) - np.array(want))))
                oracle.append(('C08.ext.entropy.mutinf_two_site[n=%s]' % ('1' if n == 1 else 'Renyi'),
                               'n=%s max_range=%s pair %s got %r want %r' % (n, mr, coords[k].tolist(), mi[k], want[k])))
        except Exception as e:
            oracle.append(('C08.ext.entropy.mutinf_two_site.raises:%s' % type(e).__name__, 'n=%s: %r' % (n, e)))
        # entanglement_entropy(n, bonds)
        bonds = rnd.choice([None, rnd.randint(1, L - 1), sorted(rnd.sample(range(1, L), rnd.randint(1, L - 1)))])
        try:
            got = psi.entanglement_entropy(n=n, bonds=bonds, for_matrix_S=rnd.random() < 0.3)
            bl = list(range(1, L)) if bonds is None else ([bonds] if isinstance(bonds, int) else bonds)
            want = [S(list(range(b)), n) for b in bl]
            if not close(np.array(got), np.array(want), tol):
                oracle.append(('C08.ext.entropy.entanglement_entropy', 'n=%s bonds=%s got %s want %s' % (n, bonds, got, want)))
        except Exception as e:
            oracle.append(('C08.ext.entropy.entanglement_entropy.raises:%s' % type(e).__name__, 'n=%s bonds=%s: %r' % (n, bonds, e)))
        # entanglement_entropy_segment(segment, first_site, n)
        seg = sorted(rnd.sample(range(min(L, 3)), rnd.randint(1, min(L, 3) - 0 if L < 3 else 2)))
        if seg[0] != 0 and rnd.random() < 0.7:
            seg = [x - seg[0] for x in seg]
        fs = rnd.choice([None, rnd.randint(0, L - 1 - seg[-1]), sorted(rnd.sample(range(L - seg[-1]), rnd.randint(1, L - seg[-1])))])
        try:
            try:
                got = psi.entanglement_entropy_segment(segment=seg, first_site=fs, n=n)
            except TypeError as e:
                if not isinstance(fs, int):
                    raise
                # documented as `None | (iterable of) int`
                oracle.append((FS_SIG, 'segment=%s first_site=%r n=%s: %r' % (seg, fs, n, e)))
                got = psi.entanglement_entropy_segment(segment=seg, first_site=[fs], n=n)
            fl = list(range(L - seg[-1])) if fs is None else ([fs] if isinstance(fs, int) else fs)
            want = [S([i + j for j in seg], n) for i in fl]
            if not close(np.array(got), np.array(want), tol):
                oracle.append(('C08.ext.entropy.entanglement_entropy_segment', 'n=%s segment=%s first_site=%s got %s want %s' % (n, seg, fs, got, want)))
        except Exception as e:
            oracle.append(('C08.ext.entropy.entanglement_entropy_segment.raises:%s' % type(e).__name__, 'n=%s segment=%s first_site=%s: %r' % (n, seg, fs, e)))
        # entanglement_entropy_segment2(segment, n)
        seg2 = sorted(rnd.sample(range(L), rnd.randint(1, min(L, 3))))
        try:
            got = psi.entanglement_entropy_segment2(seg2, n=n)
            if abs(got - S(seg2, n)) > tol * (1 + abs(got)):
                oracle.append(('C08.ext.entropy.entanglement_entropy_segment2', 'n=%s segment=%s got %r want %r' % (n, seg2, got, S(seg2, n))))
        except Exception as e:
            oracle.append(('C08.ext.entropy.entanglement_entropy_segment2.raises:%s' % type(e).__name__, 'n=%s segment=%s: %r' % (n, seg2, e)))
    # entanglement_spectrum(by_charge)
    try:
        spec = psi.entanglement_spectrum(by_charge=False)
        for b, sp in zip(range(1, L), spec):
            p = np.sort(np.linalg.eigvalsh(rdm(list(range(b)))))[::-1]
            p = p[p > 1e-14]
            got = np.exp(-np.sort(np.asarray(sp)))
            got = got[got > 1e-14]
            if len(got) != len(p) or not close(got, p, 1e-8):
                oracle.append(('C08.ext.entropy.entanglement_spectrum', 'bond %d got %s want %s' % (b, got[:5], p[:5])))
                break
        spc = psi.entanglement_spectrum(by_charge=True)
        for b, (sp, byc) in enumerate(zip(spec, spc)):
            allv = np.sort(np.concatenate([np.asarray(v) for _, v in byc])) if len(byc) else np.array([])
            if not close(allv, np.sort(np.asarray(sp)), 1e-10):
                oracle.append(('C08.ext.entropy.entanglement_spectrum.by_charge', 'bond %d' % (b + 1)))
                break
    except Exception as e:
        oracle.append(('C08.ext.entropy.entanglement_spectrum.raises:%s' % type(e).__name__, repr(e)))
    # charge statistics on every bond
    if psi.chinfo.qnumber > 0 and all(np.all(B.qtotal == 0) for B in psi._B) and np.all(psi._B[0].get_leg('vL').charges == 0):
        amp2 = np.abs(vec.reshape(dims)) ** 2
        qs = [s_.leg.to_qflat() for s_ in psi.sites]
        for b in range(0, L + 0):
            try:
                charges, ps = psi.probability_per_charge(b)
            except ValueError as e:
                if 'not blocked' in str(e):
                    continue
                oracle.append(('C08.ext.entropy.probability_per_charge.raises', 'bond %d: %r' % (b, e)))
                continue
            want = {}
            for idx in itertools.product(*[range(d) for d in dims]):
                if amp2[idx] == 0:
                    continue
                q = tuple(int(x) for x in psi.chinfo.make_valid(np.sum([qs[i][idx[i]] for i in range(b)], axis=0) if b else None))
                want[q] = want.get(q, 0.0) + amp2[idx]
            gotd = {}
            for c, p_ in zip(charges, ps):
                gotd[tuple(int(x) for x in c)] = gotd.get(tuple(int(x) for x in c), 0.0) + p_
            keys = sorted(set(want) | set(k2 for k2, v in gotd.items() if v > 1e-12))
            if not close(np.array([gotd.get(k2, 0.0) for k2 in keys]), np.array([want.get(k2, 0.0) for k2 in keys]), 1e-9):
                oracle.append(('C08.ext.entropy.probability_per_charge', 'bond %d charges %s' % (b, keys)))
            if all(m == 1 for m in psi.chinfo.mod):
                wavg = sum(np.array(k2) * v for k2, v in want.items())
                wvar = sum((np.array(k2) - wavg) ** 2 * v for k2, v in want.items())
                if not close(psi.average_charge(b), wavg, 1e-9) or not close(psi.charge_variance(b), wvar, 1e-9):
                    oracle.append(('C08.ext.entropy.average_charge/charge_variance', 'bond %d' % b))
    return dict(oracle=oracle, lines=[], nontrivial=max(psi.chi) > 1, hist=hist)


def eval_ext(case):
    sub = case['sub']
    if sub == 'corr':
        return eval_corr(case)
    if sub == 'sample':
        return eval_sample(case)
    if sub == 'repeat':
        return eval_repeat(case)
    if sub == 'entropy':
        return eval_entropy(case)
    return eval_args(case)


def eval_ext_oracle_only(case):
    ev = eval_ext(case)
    ev.pop('lines', None)
    ev.pop('compare', None)
    return ev
