"""C17 coverage round: the parts of tenpy/tools/hdf5_io.py (and of the legacy/optional branches of the class
exports) that the object streams never reach -- wrappers, partial loading, file-name dispatch, masked arrays,
structured dtypes, Hdf5Ignored / exclude / ignore_unknown, the remaining branches of the pickle-protocol fallback,
error contracts, files written by older versions.  Every scenario has its own oracle (equality + identity through
the generic comparer, or the documented contract) and returns a list of (signature, detail) failures."""
import collections
import collections.abc
import copyreg
import gzip
import io
import os
import pickle
import random
import sys
import tempfile
import warnings

import h5py
import numpy as np

from tenpy.tools import hdf5_io

from harness import c17_cases as K
from harness import c17_graph as G

THIS = sys.modules[__name__]


# --------------------------------------------------------------------------------------------
# classes for the pickle-protocol fallback (no save_hdf5)

class WithSetstate:
    """default object.__reduce__ -> (copyreg._reconstructor, (cls, object, None), __getstate__()); loader: __setstate__"""

    def __init__(self, a=None, b=None):
        self.a, self.b, self.derived = a, b, ('derived', a)

    def __getstate__(self):
        return {'a': self.a, 'b': self.b}

    def __setstate__(self, state):
        self.a, self.b = state['a'], state['b']
        self.derived = ('derived', self.a)


def _set_state(obj, state):
    """a state_setter as the pickle protocol defines it: called as state_setter(obj, state), result ignored"""
    obj.__dict__.update(state)
    obj.via_setter = True


class SixTuple:
    """__reduce__ with the 6th item (state_setter), protocol 5"""

    def __init__(self, x=None):
        self.x = x

    def __reduce__(self):
        return (SixTuple, (), dict(self.__dict__), None, None, _set_state)


class WithSlots:
    """state = (None, slotstate) and state = (dict, slotstate): the `slotstate` branch of load_reduce"""
    __slots__ = ('a', 'b', '__dict__')

    def __reduce__(self):
        d = dict(getattr(self, '__dict__', {}))
        return (copyreg.__newobj__, (WithSlots,), (d or None, {'a': self.a, 'b': self.b}))


class IntKeyState:
    """state dict with a non-str key (the `else` of `type(k) is str`)"""

    def __reduce__(self):
        return (copyreg.__newobj__, (IntKeyState,), dict(self.__dict__))


class MyList(list):
    """list subclass: __reduce_ex__(2)-style listitems"""

    def __reduce__(self):
        return (MyList, (), dict(self.__dict__) or None, iter(self))


class MyDict(dict):
    def __reduce__(self):
        return (MyDict, (), None, None, iter(self.items()))


class Singleton:
    """__reduce__ returning a string = name of a global (pickle protocol)"""

    def __reduce__(self):
        return 'SINGLETON'


SINGLETON = Singleton()


class BadReduce:
    def __init__(self, rv):
        self.rv = rv

    def __reduce__(self):
        return self.rv


class Red:
    """Generic object for the full matrix of `__reduce__` return values
    (callable, args[, state[, listitems[, dictitems[, state_setter]]]]).  The constructor defaults differ from every
    state value, so a `__setstate__`/state_setter call that is skipped (or made although pickle would not) is visible."""

    def __init__(self, *args):
        self.args = args
        self.state = 'CONSTRUCTOR-DEFAULT'
        self.set_by = None
        self.items = []
        self.map = {}

    def __setstate__(self, state):
        self.state = state
        self.set_by = 'setstate'

    def append(self, x):  # listitems
        self.items.append(x)

    def extend(self, xs):
        for x in xs:
            self.items.append(x)

    def __setitem__(self, k, v):  # dictitems
        self.map[k] = v

    def __reduce__(self):
        n, use_setter, st, has_l, has_d = self._proto
        rv = [Red, self.args, st,
              iter(list(self.items)) if has_l else None,
              iter(list(self.map.items())) if has_d else None,
              _red_setter if use_setter else None]
        return tuple(rv[:n])


def _red_setter(obj, state):
    obj.state = state
    obj.set_by = 'setter'


def make_red(args, n, state, listitems, dictitems, use_setter):
    """the object pickle would rebuild from the reduce value (callable, args, state, listitems, dictitems, setter)[:n]"""
    o = Red(*args)
    st = state if n >= 3 else None
    li = listitems if n >= 4 else None
    di = dictitems if n >= 5 else None
    use_setter = use_setter and n >= 6
    if st is not None:  # pickle: BUILD / state_setter only for `state is not None` -- falsy states count
        if use_setter:
            _red_setter(o, st)
        else:
            o.__setstate__(st)
    for x in (li or []):
        o.append(x)
    for k, v in (di or []):
        o[k] = v
    o.__dict__['_proto'] = (n, use_setter, st, li is not None, di is not None)
    return o


RED_FIELDS = ('args', 'state', 'set_by', 'items', 'map')


def rt(obj, fmt=None, **load_kw):
    bio = io.BytesIO()
    with warnings.catch_warnings():
        warnings.simplefilter('ignore')
        with h5py.File(bio, 'w') as f:
            hdf5_io.Hdf5Saver(f, fmt).save(obj)
        with h5py.File(bio, 'r') as f:
            return hdf5_io.load_from_hdf5(f, **load_kw)


def expect_raises(fails, sig, exc_types, f):
    try:
        with warnings.catch_warnings():
            warnings.simplefilter('ignore')
            f()
    except exc_types:
        return
    except Exception as e:
        fails.append((sig + ':wrong-exception:' + type(e).__name__, repr(e)[:300]))
        return
    fails.append((sig + ':no-exception', 'expected one of %s' % (exc_types,)))


def small_data(rng):
    """a container graph (sharing, cycles, all leaf kinds) built from the graph-stream generator"""
    spec = K.gen_spec(rng, size=rng.choice([3, 6, 10]), allow_reduce=False)
    objs = G.build(spec)
    return objs[spec['root']]


def named_data(rng):
    shared = [1, 2.5, 'x']
    arr = np.arange(rng.randint(1, 6)) * 1.5
    return {'a': shared, 'b': {'inner': shared, 'arr': arr, 't': (arr, None)}, 'c': small_data(rng), 'n': None,
            'big': 2 ** 70, 'deep': {'x': {'y': {'z': [arr, shared]}}}}


# --------------------------------------------------------------------------------------------
# scenarios


def sc_wrappers_subpath(rng):
    """save_to_hdf5 / load_from_hdf5, saving below a sub-path, loading a sub-path only (guideline 5), one loader
    used for several paths keeps identities, loader rooted at a subgroup"""
    fails = []
    data = named_data(rng)
    bio, bio2 = io.BytesIO(), io.BytesIO()
    with warnings.catch_warnings():
        warnings.simplefilter('ignore')
        with h5py.File(bio, 'w') as f:
            hdf5_io.save_to_hdf5(f, data)
        with h5py.File(bio2, 'w') as f:
            hdf5_io.save_to_hdf5(f, data['b'], '/extra/sub')  # below a sub-path (intermediate groups are created)
            s = hdf5_io.Hdf5Saver(f)
            s.save(data['a'], '/twice1')
            s.save(data['a'], 'twice2')  # relative path, same saver: hard link
        with h5py.File(bio, 'r') as f:
            fails += K.oracle(data, hdf5_io.load_from_hdf5(f), 'hdf5.wrappers', 'root')
            for k in data:
                fails += K.oracle(data[k], hdf5_io.load_from_hdf5(f, '/' + k), 'hdf5.load-subpath', 'sub')
            fails += K.oracle(data['deep']['x']['y'], hdf5_io.load_from_hdf5(f, '/deep/x/y'), 'hdf5.load-subpath', 'deep')
            fails += K.oracle(data['b'], hdf5_io.Hdf5Loader(f['b']).load(), 'hdf5.loader-on-subgroup', 'b')
            L = hdf5_io.Hdf5Loader(f)
            a, b = L.load('/a'), L.load('/b')
            if b['inner'] is not a:
                fails.append(('hdf5.load-subpath.identity-across-loads', "loader.load('/a') is not loader.load('/b')['inner']"))
        with h5py.File(bio2, 'r') as f:
            fails += K.oracle(data['b'], hdf5_io.load_from_hdf5(f, '/extra/sub'), 'hdf5.save-subpath', 'sub')
            fails += K.oracle(data['b'], hdf5_io.load_from_hdf5(f['extra'], 'sub'), 'hdf5.loader-on-subgroup', 'sub')
            L = hdf5_io.Hdf5Loader(f)
            t1, t2 = L.load('/twice1'), L.load('twice2')
            if t1 is not t2:
                fails.append(('hdf5.save-subpath.no-hard-link', 'same object saved twice by one saver is loaded twice'))
            if f['twice1'].id != f['twice2'].id:
                fails.append(('hdf5.save-subpath.no-hard-link', 'not the same HDF5 object'))
        expect_raises(fails, 'hdf5.save-existing-path', (ValueError, OSError, RuntimeError), lambda: _save_again(bio))
    return fails


def _save_again(bio):
    b2 = io.BytesIO(bio.getvalue())
    with h5py.File(b2, 'r+') as f:
        hdf5_io.save_to_hdf5(f, [1], '/a')  # "/a" exists: must not be overwritten silently


def sc_file_endings(rng):
    """hdf5_io.save / hdf5_io.load: dispatch on the file ending"""
    fails = []
    data = named_data(rng)
    d = tempfile.mkdtemp(prefix='c17api')
    try:
        for ext in ('pkl', 'pklz', 'h5', 'hdf5'):
            fn = os.path.join(d, 'data.' + ext)
            with warnings.catch_warnings():
                warnings.simplefilter('ignore')
                hdf5_io.save(data, fn)
                back = hdf5_io.load(fn)
            fails += K.oracle(data, back, 'io.save-load.' + ext, 'root')
            if ext == 'pklz':
                with gzip.open(fn, 'rb') as fh:
                    fails += K.oracle(data, pickle.load(fh), 'io.pklz-is-gzip-pickle', 'root')
            if ext in ('h5', 'hdf5'):
                with h5py.File(fn, 'r') as fh:
                    fails += K.oracle(data, hdf5_io.load_from_hdf5(fh), 'io.h5-is-our-format', 'root')
        # append mode: second object next to the first (pickle: two dumps in a row)
        fn = os.path.join(d, 'app.h5')
        hdf5_io.save({'first': 1}, fn)
        with h5py.File(fn, 'a') as fh:
            hdf5_io.save_to_hdf5(fh, data['b'], '/second')
        with h5py.File(fn, 'r') as fh:
            fails += K.oracle(data['b'], hdf5_io.load_from_hdf5(fh, '/second'), 'io.append', 'second')
        expect_raises(fails, 'io.save.unknown-ending', ValueError, lambda: hdf5_io.save(data, os.path.join(d, 'x.txt')))
        expect_raises(fails, 'io.load.unknown-ending', ValueError, lambda: hdf5_io.load(os.path.join(d, 'x.txt')))
    finally:
        for n in os.listdir(d):
            os.remove(os.path.join(d, n))
        os.rmdir(d)
    return fails


def sc_masked_arrays(rng):
    fails = []
    n = rng.randint(1, 6)
    vals = np.array([rng.randint(-3, 3) for _ in range(n)])
    mask = np.array([rng.random() < 0.4 for _ in range(n)])
    cases = {
        'int-mask': np.ma.MaskedArray(vals, mask=mask),
        'float': np.ma.MaskedArray(vals * 0.5, mask=mask, fill_value=-7.25),
        # an unmasked entry equal to the fill value: data and mask must be saved separately
        'collision': np.ma.MaskedArray(np.array([1, 5, 5, 2]), mask=[False, True, False, False], fill_value=5),
        'nomask': np.ma.MaskedArray(np.arange(3.0)),
        'allmasked': np.ma.MaskedArray(np.arange(3), mask=True),
        '2d': np.ma.masked_equal(np.arange(6).reshape(2, 3) % 3, 0),
        # nothing masked, every entry equals the fill value
        'all-equal-fill': np.ma.MaskedArray(np.array([5, 5, 5]), fill_value=5),
        'no-collision': np.ma.MaskedArray(np.array([1.0, 2.0, 3.0]), mask=[False, True, False], fill_value=-1.0),
    }
    m = cases['float']
    root = {'cases': cases, 'shared': [m, m]}
    back = rt(root)
    fails += K.oracle(root, back, 'hdf5.masked', 'masked')
    for k, a in cases.items():
        b = back['cases'][k]
        if isinstance(b, np.ma.MaskedArray) and not np.array_equal(a.filled(123), b.filled(123)):
            fails.append(('hdf5.masked.values:' + k, '%r vs %r' % (a, b)))
    return fails


def sc_dtypes_and_arrays(rng):
    fails = []
    sdt = np.dtype([('a', np.int32, 8), ('b', np.float64, 5)])
    sdt2 = np.dtype([('x', np.int64), ('y', np.complex128)])
    rec = np.zeros(3, dtype=sdt2)
    rec['x'] = [1, 2, 3]
    rec['y'] = [1j, 2, 3.5]
    root = {'dtypes': [sdt, sdt2, np.dtype('int8'), np.dtype('<f4'), np.dtype(bool), np.dtype('complex64'), sdt],
            'record_array': rec,
            'arrays': [np.zeros((0, 3)), np.zeros(()), np.arange(4, dtype=np.uint16), np.array([True, False]),
                       np.arange(6.0).reshape(2, 3)[:, ::2], np.asfortranarray(np.arange(6).reshape(2, 3)),
                       np.array([b'ab', b'c'])],
            # (numpy scalar types outside TYPES_FOR_HDF5_DATASETS go through __reduce__ = raw bytes; h5py rejects bytes with an
            #  embedded NUL on save -- ValueError, covered by the "save did not fail" proviso -- so only NUL-free ones here)
            'npscalars': [np.int8(3), np.uint8(200), np.int16(0x0101), np.int64(-1), np.complex64(1 + 2j), np.float32(1.5)]}
    back = rt(root)
    fails += K.oracle(root, back, 'hdf5.dtypes-arrays', 'arrays')
    # arrays h5py cannot store: either an exception on save, or an equal object -- never a silently different one
    for name, a in (('object', np.array([1, 'a', None], dtype=object)), ('unicode', np.array(['ä', 'bc']))):
        try:
            b = rt({'x': a})
        except Exception:
            continue
        fails += K.oracle({'x': a}, b, 'hdf5.unsupported-array-silently-changed:' + name, 'arrays')
    return fails


def sc_ignored_exclude(rng):
    """Hdf5Ignored is not saved; `exclude` replaces sub-trees by Hdf5Ignored (same placeholder for every link);
    a group typed 'ignore' loads as Hdf5Ignored"""
    fails = []
    big = np.arange(10)
    data = {'big_data': big, 'also': [big, 1], 'small': {'x': 1, 'skip': hdf5_io.Hdf5Ignored('nothing')}, 'keep': [1, 2]}
    bio = io.BytesIO()
    with warnings.catch_warnings():
        warnings.simplefilter('ignore')
        with h5py.File(bio, 'w') as f:
            hdf5_io.save_to_hdf5(f, data)
            f.create_group('typed_ignore').attrs['type'] = hdf5_io.REPR_IGNORED
        with h5py.File(bio, 'r') as f:
            full = hdf5_io.load_from_hdf5(f)
            part = hdf5_io.load_from_hdf5(f, exclude=['/big_data', 'keep', '/not/there'])
            sub = hdf5_io.load_from_hdf5(f, '/small', exclude=['/small/x'])
    if 'skip' in full['small']:
        fails.append(('hdf5.ignored.saved', 'an Hdf5Ignored value was written'))
    if not isinstance(full.get('typed_ignore'), hdf5_io.Hdf5Ignored):
        fails.append(('hdf5.ignored.type-attr', "group with type 'ignore' loaded as %r" % type(full.get('typed_ignore'))))
    expected = {'big_data': big, 'also': [big, 1], 'small': {'x': 1}, 'keep': [1, 2]}
    full.pop('typed_ignore', None)
    fails += K.oracle(expected, full, 'hdf5.ignored', 'root')
    if not isinstance(part['big_data'], hdf5_io.Hdf5Ignored) or not isinstance(part['keep'], hdf5_io.Hdf5Ignored):
        fails.append(('hdf5.exclude.not-replaced', repr({k: type(v).__name__ for k, v in part.items()})))
    elif part['also'][0] is not part['big_data']:
        fails.append(('hdf5.exclude.hard-link-not-excluded', 'the second link to the excluded dataset was loaded'))
    if part['small'] != {'x': 1}:
        fails.append(('hdf5.exclude.collateral', repr(part['small'])))
    if not isinstance(sub.get('x'), hdf5_io.Hdf5Ignored):
        fails.append(('hdf5.exclude.with-subpath', repr(sub)))
    return fails


def sc_unknown_class_and_global(rng):
    """a saved class / function that no longer exists: ignore_unknown=True -> Hdf5Ignored + warning, False -> raises"""
    fails = []

    class Gone(hdf5_io.Hdf5Exportable):
        pass

    def gone_function(x):
        return x

    Gone.__module__ = gone_function.__module__ = __name__
    Gone.__qualname__ = 'Gone'
    gone_function.__qualname__ = 'gone_function'
    setattr(THIS, 'Gone', Gone)
    setattr(THIS, 'gone_function', gone_function)
    try:
        g = Gone()
        g.value = [1, 2]
        data = {'inst': g, 'func': gone_function, 'cls': Gone, 'other': [3, 4], 'again': g}
        bio = io.BytesIO()
        with h5py.File(bio, 'w') as f:
            hdf5_io.save_to_hdf5(f, data)
        with h5py.File(bio, 'r') as f:
            fails += K.oracle(data, hdf5_io.load_from_hdf5(f), 'hdf5.user-class', 'root')
        delattr(THIS, 'Gone')
        delattr(THIS, 'gone_function')
        with h5py.File(bio, 'r') as f:
            with warnings.catch_warnings(record=True) as w:
                warnings.simplefilter('always')
                back = hdf5_io.load_from_hdf5(f, ignore_unknown=True)
            for k in ('inst', 'func', 'cls', 'again'):
                if not isinstance(back[k], hdf5_io.Hdf5Ignored):
                    fails.append(('hdf5.ignore_unknown.not-ignored:' + k, repr(type(back[k]))))
            if back['other'] != [3, 4]:
                fails.append(('hdf5.ignore_unknown.collateral', repr(back['other'])))
            if len([x for x in w if issubclass(x.category, UserWarning)]) < 3:
                fails.append(('hdf5.ignore_unknown.no-warning', '%d warnings' % len(w)))
            expect_raises(fails, 'hdf5.ignore_unknown=False', (ImportError, AttributeError),
                          lambda: hdf5_io.load_from_hdf5(f, ignore_unknown=False))
            expect_raises(fails, 'hdf5.ignore_unknown=False.global', (ImportError, AttributeError),
                          lambda: hdf5_io.load_from_hdf5(f, '/func', ignore_unknown=False))
    finally:
        for n in ('Gone', 'gone_function'):
            if hasattr(THIS, n):
                delattr(THIS, n)
    return fails


def _cmp_attrs(fails, sig, a, b, names):
    for n in names:
        va, vb = getattr(a, n, '<missing>'), getattr(b, n, '<missing>')
        C = G.Compare()
        if C.run(va, vb):
            fails.append(('%s:%s' % (sig, n), '%r vs %r (%s)' % (va, vb, C.diffs[:1])))


def sc_reduce_variants(rng):
    """every branch of save_reduce / load_reduce"""
    fails = []
    shared = [1, 2]
    ws = WithSetstate(shared, {'k': shared})
    try:
        b = rt({'o': ws, 's': shared, 'again': ws})
        _cmp_attrs(fails, 'hdf5.reduce.setstate', ws, b['o'], ('a', 'b', 'derived'))
        if b['o'].a is not b['s'] or b['again'] is not b['o']:
            fails.append(('hdf5.reduce.setstate.identity', 'shared state object / shared instance not shared'))
    except Exception as e:
        fails.append(('hdf5.reduce.setstate.raises:' + type(e).__name__, repr(e)[:300]))
    six = SixTuple(shared)
    try:
        b = rt({'o': six})['o']
        if type(b) is not SixTuple:
            fails.append(('hdf5.reduce.state_setter.result', 'loaded %r instead of a SixTuple (pickle gives %r)'
                          % (b, pickle.loads(pickle.dumps(six, 5)).__dict__)))
        else:
            _cmp_attrs(fails, 'hdf5.reduce.state_setter', pickle.loads(pickle.dumps(six, 5)), b, ('x', 'via_setter'))
    except Exception as e:
        fails.append(('hdf5.reduce.state_setter.raises:' + type(e).__name__, repr(e)[:300]))
    sl = WithSlots()
    sl.a, sl.b = 5, shared
    sl2 = WithSlots()
    sl2.a, sl2.b, sl2.extra = None, 2.5, 'in __dict__'
    for name, o, attrs in (('slots', sl, ('a', 'b')), ('slots+dict', sl2, ('a', 'b', 'extra'))):
        try:
            b = rt({'o': o})['o']
            _cmp_attrs(fails, 'hdf5.reduce.' + name, o, b, attrs)
        except Exception as e:
            fails.append(('hdf5.reduce.%s.raises:%s' % (name, type(e).__name__), repr(e)[:300]))
    ik = IntKeyState()
    ik.__dict__[5] = 'five'
    ik.__dict__['s'] = shared
    try:
        b = rt({'o': ik})['o']
        if b.__dict__ != ik.__dict__:
            fails.append(('hdf5.reduce.non-str-state-key', '%r vs %r' % (ik.__dict__, b.__dict__)))
    except Exception as e:
        fails.append(('hdf5.reduce.non-str-state-key.raises:' + type(e).__name__, repr(e)[:300]))
    ml = MyList([1, shared, 3])
    ml.tag = 'x'
    ml.append(ml)  # self reference through listitems
    md = MyDict(a=shared, b=2)
    try:
        b = rt({'l': ml, 'd': md, 's': shared})
        if type(b['l']) is not MyList or len(b['l']) != 4 or b['l'][3] is not b['l'] or b['l'][1] is not b['s'] \
                or b['l'].tag != 'x':
            fails.append(('hdf5.reduce.listitems', repr(b['l'])[:200]))
        if type(b['d']) is not MyDict or dict(b['d']) != dict(md) or b['d']['a'] is not b['s']:
            fails.append(('hdf5.reduce.dictitems', repr(b['d'])[:200]))
    except Exception as e:
        fails.append(('hdf5.reduce.items.raises:' + type(e).__name__, repr(e)[:300]))
    # __reduce__ returning the name of a global
    try:
        b = rt({'o': SINGLETON})['o']
        if b is not SINGLETON:
            fails.append(('hdf5.reduce.global-name.not-identical', repr(b)))
    except Exception as e:
        fails.append(('hdf5.reduce.global-name.raises:' + type(e).__name__, repr(e)[:300]))
    # malformed __reduce__ values: the documented export error
    for rv in (5, (int,), (int, (), None, None, None, None, None)):
        expect_raises(fails, 'hdf5.reduce.bad-return-value', hdf5_io.Hdf5ExportError, lambda rv=rv: rt({'o': BadReduce(rv)}))
    return fails


def sc_reduce_matrix(rng):
    """every shape of a `__reduce__` value x falsy / truthy / nested / shared states x empty / non-empty list and dict
    items; oracle: equal to the original and to the pickle round trip, field by field"""
    fails = []
    shared = [1, 2]
    inner = make_red((7,), 3, {'deep': shared}, None, None, False)
    states = [None, 0, False, (), [], {}, '', 0.0, b'', set(), np.int64(0), np.bool_(False), 0j,
              1, True, (1,), [1], {'k': 1}, 'x', -2.5, b'y', {3}, np.int64(4), (0,), [[]], {' ': None},
              shared, (shared, shared), inner, {'obj': inner, 'again': shared}]
    rng.shuffle(states)
    objs = []
    for st in states:
        n = rng.choice([3, 3, 4, 5, 6, 6])
        li = rng.choice([None, [], [shared], [0, None, shared, ()], [inner]])
        di = rng.choice([None, [], [('k', shared)], [(0, 0), ('', ''), ((1, 2), inner)]])
        objs.append(make_red(rng.choice([(), (0,), (shared,), (None, False)]), n, st, li, di, rng.random() < 0.6))
    # the remaining corners explicitly: length 2, every length with a falsy state, setter with state None
    objs.append(make_red((), 2, 5, [1], [(1, 1)], True))
    for n in (3, 4, 5, 6):
        for st in (0, (), False):
            objs.append(make_red((n,), n, st, [], [], n == 6))
    objs.append(make_red((), 6, None, [shared], None, True))
    objs.append(make_red((), 6, 0, None, None, True))
    cyc = make_red((), 4, [], [], None, False)
    cyc.append(cyc)  # self reference through listitems
    cyc.state.append(cyc)  # ... and through the state
    cyc.__dict__['_proto'] = (4, False, cyc.state, True, False)
    objs.append(cyc)
    root = {'objs': objs, 'shared': shared, 'inner': inner}
    try:
        back = rt(root)
    except Exception as e:
        return [('hdf5.reduce-matrix.raises:' + type(e).__name__, repr(e)[:300])]
    with warnings.catch_warnings():
        warnings.simplefilter('ignore')
        pick = pickle.loads(pickle.dumps(root, protocol=5))
    for i, o in enumerate(objs):
        spec = 'proto(n, setter, state, listitems?, dictitems?)=%r' % (o._proto[:2] + (repr(o._proto[2])[:40],) + o._proto[3:],)
        for which, other in (('original', o), ('pickle', pick['objs'][i])):
            b = back['objs'][i]
            if type(b) is not Red:
                fails.append(('hdf5.reduce-matrix.type', '%s: loaded %r' % (spec, b)))
                break
            for fld in RED_FIELDS:
                C = G.Compare(max_diffs=1)
                if C.run(getattr(other, fld), getattr(b, fld)):
                    kind = 'falsy-state' if (fld in ('state', 'set_by') and o._proto[2] is not None and not _truthy(o._proto[2])) else fld
                    fails.append(('hdf5.reduce-matrix.differs-from-%s:%s' % (which, kind),
                                  '%s: field %s: expected %r, loaded %r' % (spec, fld, getattr(other, fld), getattr(b, fld))))
    # identities: shared list inside states / items / args is one object, the nested Red is one object
    b = back
    for i, o in enumerate(objs):
        if o.state is shared and b['objs'][i].state is not b['shared']:
            fails.append(('hdf5.reduce-matrix.identity:state', 'object %d' % i))
        if any(x is shared for x in o.items) and not any(x is b['shared'] for x in b['objs'][i].items):
            fails.append(('hdf5.reduce-matrix.identity:listitems', 'object %d' % i))
        if o.state is inner and b['objs'][i].state is not b['inner']:
            fails.append(('hdf5.reduce-matrix.identity:nested-object', 'object %d' % i))
    c = back['objs'][-1]
    if type(c) is Red and not (len(c.items) == 1 and c.items[0] is c and c.state and c.state[0] is c):
        fails.append(('hdf5.reduce-matrix.self-reference', repr((c.items, c.state))[:200]))
    return fails


def _truthy(x):
    try:
        return bool(x)
    except Exception:
        return True


def sc_dict_keys(rng):
    """unusual but legal dict keys: each dict separately (simple format where every key is a valid path component, general
    format otherwise), then all together"""
    fails = []
    val = [1, 2]
    odd = ['', '.', '..', 'a/b', '/', ' ', 'a b', 'ü', '名', 'keys', 'values', 'type', '0', '-1', 'A' * 200, 'a.b', '\\', '%s', "'"]
    for k in odd:
        d = {k: val, 'other': val}
        try:
            b = rt({'d': d})['d']
        except Exception as e:
            name = 'empty-string' if k == '' else 'other'
            fails.append(('hdf5.dict-key-%s.raises' % name, 'key %r: %r' % (k, e)))
            continue
        fails += K.oracle(d, b, 'hdf5.dict-key', 'dict')
        if b[k] is not b['other']:
            fails.append(('hdf5.dict-key.identity', 'key %r' % k))
    mixed = {1: 'int', '1': 'str', 1.5: 'float', (1, '1'): 'tuple', None: 'none', True: 'bool (== 1: overwrites)', b'1': 'bytes',
             frozenset([1]): 'frozenset', 2 ** 70: 'big'}
    try:
        fails += K.oracle({'m': mixed}, rt({'m': mixed}), 'hdf5.dict-key.mixed', 'dict')
    except Exception as e:
        fails.append(('hdf5.dict-key-mixed.raises:' + type(e).__name__, repr(e)[:300]))
    return fails


def sc_grouped(rng):
    """MPS / MPO with grouped sites (grouped > 1 is stored as an HDF5 attribute), finite and infinite, n = 2, 3, 4;
    group_split of the loaded state; non-default norm and transfermatrix_keep"""
    from tenpy.models.xxz_chain import XXZChain
    from tenpy.networks.mps import MPS
    from tenpy.networks.site import SpinHalfSite
    fails = []
    with warnings.catch_warnings():
        warnings.simplefilter('ignore')
        s = SpinHalfSite(conserve=rng.choice(['Sz', 'parity', 'None']))
        for bc in ('finite', 'infinite'):
            for n in (2, 3, 4):
                L = {2: 4, 3: 6, 4: 4}[n] if bc == 'infinite' else rng.choice([4, 5, 6])
                pairs = [(0, 3), (1, 2)] + ([(4, 5)] if L == 6 else [])
                psi = MPS.from_singlets(s, L, pairs, lonely=[4] if L == 5 else [], bc=bc, unit_cell_width=L)
                psi.norm = 0.5
                psi._transfermatrix_keep = 3
                g = psi.copy()
                g.group_sites(n)
                root = {'g': g, 'psi': psi}
                for fmt in (rng.choice(['blocks', 'compact']),):
                    try:
                        b = rt(root, {'LegCharge': fmt})
                    except ValueError as e:
                        if g.L == 1 and bc == 'finite' and 'zero-size array' in str(e):
                            # a finite MPS with a single site has no bond: `np.max(self.chi)` in MPS.save_hdf5
                            fails.append(('hdf5.single-site-finite-mps.save-raises', 'L=%d grouped by %d: %r' % (L, n, e)))
                            b = None
                            break
                        raise
                    fails += K.oracle(root, b, 'hdf5.grouped-mps', 'MPS')
                    if b['g'].grouped != n:
                        fails.append(('hdf5.grouped-mps.grouped-attribute', 'bc=%s n=%d: loaded grouped=%r' % (bc, n, b['g'].grouped)))
                if b is None:
                    continue
                # splitting the loaded state must give what splitting the original gives
                a2, b2 = g.copy(), b['g']
                try:
                    a2.group_split()
                    b2.group_split()
                    fails += K.oracle({'x': a2}, {'x': b2}, 'hdf5.grouped-mps.group_split', 'MPS')
                except Exception as e:
                    fails.append(('hdf5.grouped-mps.group_split-raises:' + type(e).__name__, 'bc=%s n=%d %r' % (bc, n, e)))
                if n == 2:
                    fails += K.other_roundtrips(root, 'MPS', {'hist': collections.Counter()})
            M = XXZChain({'L': 4, 'bc_MPS': bc, 'conserve': 'Sz'})
            H = M.H_MPO.copy()
            H.group_sites(2)
            b = rt({'H': H, 'H1': M.H_MPO})
            fails += K.oracle({'H': H, 'H1': M.H_MPO}, b, 'hdf5.grouped-mpo', 'MPO')
            if b['H'].grouped != 2 or b['H1'].grouped != 1:
                fails.append(('hdf5.grouped-mpo.grouped-attribute', repr((b['H'].grouped, b['H1'].grouped))))
    return fails


# attributes written with `h5gr.attrs[...]` that are documented as metadata "not needed for loading" / recomputed
DERIVED_H5_ATTRS = {'L', 'max_bond_dimension', 'rank', 'shape', 'dim', 'N_sites', 'num_charges', 'segment_first', 'segment_last',
                    'N_unit_cells', 'simple_Lu', 'format', 'unused'}
# ... and per class: recomputed by the loader from other saved data (a changed value is inconsistent, not lost)
DERIVED_PER_CLASS = {'LegPipe': {'ind_len', 'block_number'},  # LegPipe.from_hdf5 re-initialises from `legs`
                     'UniformMPS': {'valid_umps'}}  # test_sanity -> test_validity re-evaluates the flag
H5_ATTR_ALIASES = {'block_inds_sorted': '_qdata_sorted', 'transfermatrix_keep': '_transfermatrix_keep'}


def h5_attr_names(cls):
    """names used as `h5gr.attrs['name'] = ...` in the save_hdf5 methods along the MRO (reflection over the source)"""
    import inspect
    import re
    names = []
    for c in cls.__mro__:
        f = c.__dict__.get('save_hdf5')
        if f is None:
            continue
        try:
            src = inspect.getsource(f)
        except (OSError, TypeError):
            continue
        src = '\n'.join(l for l in src.splitlines() if not l.lstrip().startswith('#'))
        for m in re.finditer(r"""h5gr\.attrs\[['"](\w+)['"]\]\s*=""", src):
            if m.group(1) not in names:
                names.append(m.group(1))
    return names


def sc_attr_audit(rng):
    """Every scalar that a class writes as an HDF5 *attribute* must be read back: for each exportable class (reflection)
    and each `h5gr.attrs[name]` of its save_hdf5 that corresponds to a bool/int/float/str instance attribute, save a
    shallow copy with that attribute changed and require the loaded object to carry the changed value.  (A changed value
    that the class's own sanity check rejects on load is inconclusive and skipped.)"""
    import copy as _copy
    fails = []
    stats = collections.Counter()
    with warnings.catch_warnings():
        warnings.simplefilter('ignore')
        for cn in sorted(K.classes()):
            cls = K.classes()[cn]
            names = [n for n in h5_attr_names(cls) if n not in DERIVED_H5_ATTRS]
            if not names:
                continue
            inst = K.zoo_instances(cn, 0)
            if not inst:
                continue
            obj = inst[rng.randrange(len(inst))][1]
            for n in names:
                if any(n in DERIVED_PER_CLASS.get(c.__name__, ()) for c in cls.__mro__):
                    continue
                attr = next((a for a in (n, '_' + n, H5_ATTR_ALIASES.get(n, n)) if a in getattr(obj, '__dict__', {})), None)
                if attr is None:
                    continue
                v = obj.__dict__[attr]
                if isinstance(v, (bool, np.bool_)):
                    new = not bool(v)
                elif isinstance(v, (int, np.integer)):
                    new = int(v) + 1
                elif isinstance(v, (float, np.floating)):
                    new = float(v) * 0.5 + 0.25
                elif isinstance(v, str):
                    new = v + '_x'
                else:
                    continue
                o2 = _copy.copy(obj)
                o2.__dict__[attr] = new
                stats['tried'] += 1
                try:
                    b = rt({'o': o2})['o']
                except Exception:
                    stats['inconclusive'] += 1
                    continue
                got = getattr(b, attr, '<missing>')
                try:
                    same = bool(got == new)
                except Exception:
                    same = False
                if not same:
                    fails.append(('hdf5.attr-not-restored:%s.%s' % (cls.__name__, attr),
                                  'saved %s.%s = %r (HDF5 attribute %r), loaded %r' % (cls.__name__, attr, new, n, got)))
                else:
                    stats['restored'] += 1
    if stats['restored'] < 10:
        fails.append(('harness.attr-audit-too-few', repr(dict(stats))))
    return fails


def sc_global_errors(rng):
    """functions / classes are saved by name: what cannot be found again under its name is an export error"""
    fails = []

    def local_function():
        pass

    class Local:
        pass

    moved = G.some_function
    expect_raises(fails, 'hdf5.global.local-function', hdf5_io.Hdf5ExportError, lambda: rt({'f': local_function}))
    expect_raises(fails, 'hdf5.global.local-class', hdf5_io.Hdf5ExportError, lambda: rt({'c': Local}))
    expect_raises(fails, 'hdf5.global.lambda', hdf5_io.Hdf5ExportError, lambda: rt({'c': (lambda: 0)}))
    G.some_function = lambda x: x  # the name now refers to another object
    G.some_function.__qualname__ = 'some_function'
    try:
        expect_raises(fails, 'hdf5.global.not-the-same-object', hdf5_io.Hdf5ExportError, lambda: rt({'f': moved}))
    finally:
        G.some_function = moved
    glob = {'f': moved, 'b': len, 'c': hdf5_io.Hdf5Saver, 'm': [collections.OrderedDict, G.Plain, int]}
    fails += K.oracle(glob, rt(glob), 'hdf5.global', 'globals')
    # classes whose metaclass is not `type` itself (abstract base classes, numpy's dtype class) are classes too
    meta = {'abc': collections.abc.Mapping, 'dtype': np.dtype}
    try:
        fails += K.oracle(meta, rt(meta), 'hdf5.global.metaclass', 'globals')
    except Exception as e:
        fails.append(('hdf5.global.class-with-metaclass.raises:' + type(e).__name__, repr(e)[:300]))
    return fails


def sc_format_errors(rng):
    """manipulated files: unknown / missing type attribute, bad dict format, bytes-valued attributes (old h5py),
    get_all_hdf5_keys"""
    fails = []
    p = G.Plain()
    p.x = [1, 2]
    p.__dict__[7] = 'non-str attribute name'  # general dict format through Hdf5Exportable.save_hdf5
    q = G.Plain()
    q.y = 1
    data = {'lst': [1, (2, 3)], 'dct': {1: 'a', (1, 2): [5]}, 'plain_general': p, 'plain': q, 'arr': np.arange(3), 's': 'txt'}
    bio = io.BytesIO()
    with warnings.catch_warnings():
        warnings.simplefilter('ignore')
        with h5py.File(bio, 'w') as f:
            hdf5_io.save_to_hdf5(f, data)
        with h5py.File(bio, 'r') as f:
            fails += K.oracle(data, hdf5_io.load_from_hdf5(f), 'hdf5.general-dict-instance', 'root')
            keys = hdf5_io.Hdf5Loader(f).get_all_hdf5_keys()
            if set(keys) != set(f.keys()) or set(keys['lst']) != {'0', '1'} or set(keys['dct']) != {'keys', 'values'}:
                fails.append(('hdf5.get_all_hdf5_keys', repr(keys)[:300]))

        def mutated(change):
            b2 = io.BytesIO(bio.getvalue())
            with h5py.File(b2, 'r+') as f:
                change(f)
            return b2

        def load(b2, path=None):
            with h5py.File(b2, 'r') as f:
                return hdf5_io.load_from_hdf5(f, path)

        def to_bytes(f):
            def visit(name, o):
                for k, v in list(o.attrs.items()):
                    if isinstance(v, str):
                        o.attrs[k] = np.bytes_(v.encode())
            f.visititems(visit)
            for k, v in list(f.attrs.items()):
                if isinstance(v, str):
                    f.attrs[k] = np.bytes_(v.encode())

        fails += K.oracle(data, load(mutated(to_bytes)), 'hdf5.bytes-attributes', 'root')
        b_unknown = mutated(lambda f: f['lst'].attrs.__setitem__('type', 'no-such-type'))
        expect_raises(fails, 'hdf5.unknown-type', hdf5_io.Hdf5ImportError, lambda: load(b_unknown))
        b_missing = mutated(lambda f: f['lst'].attrs.__delitem__('type'))
        expect_raises(fails, 'hdf5.missing-type', hdf5_io.Hdf5ImportError, lambda: load(b_missing))
        b_len = mutated(lambda f: f['lst'].attrs.__delitem__('len'))
        expect_raises(fails, 'hdf5.missing-len', hdf5_io.Hdf5ImportError, lambda: load(b_len))
        b_fmt = mutated(lambda f: f['plain'].attrs.__setitem__('format', 'nonsense'))
        expect_raises(fails, 'hdf5.bad-dict-format', ValueError, lambda: load(b_fmt))
        # the untouched parts still load from the damaged file
        fails += K.oracle(data['dct'], load(b_unknown, '/dct'), 'hdf5.partial-load-of-damaged-file', 'dct')
    return fails


def sc_leg_format_errors(rng):
    from tenpy.linalg import charges as tc
    fails = []
    ch = tc.ChargeInfo([1], ['N'])
    leg = tc.LegCharge.from_qflat(ch, [[0], [1], [1]])
    expect_raises(fails, 'hdf5.leg.unknown-format-on-save', ValueError, lambda: rt({'l': leg}, {'LegCharge': 'weird'}))
    bio = io.BytesIO()
    with h5py.File(bio, 'w') as f:
        hdf5_io.save_to_hdf5(f, {'l': leg})
        f['l'].attrs['format'] = 'weird'

    def load():
        with h5py.File(bio, 'r') as f:
            return hdf5_io.load_from_hdf5(f)

    expect_raises(fails, 'hdf5.leg.unknown-format-on-load', ValueError, load)
    # other keys of format_selection are ignored, a missing key means "blocks"
    fails += K.oracle({'l': leg}, rt({'l': leg}, {'Other': 'x'}), 'hdf5.format_selection-other-key', 'leg')
    return fails


def _strip(bio, paths=(), attrs=()):
    b2 = io.BytesIO(bio.getvalue())
    with h5py.File(b2, 'r+') as f:
        for p in paths:
            if p in f:
                del f[p]
        for p, a in attrs:
            if a in f[p].attrs:
                del f[p].attrs[a]
    with warnings.catch_warnings():
        warnings.simplefilter('ignore')
        with h5py.File(b2, 'r') as f:
            return hdf5_io.load_from_hdf5(f)


def sc_legacy_files(rng):
    """files written before an entry existed: the documented defaults are used"""
    from tenpy.linalg import charges as tc
    from tenpy.models.tf_ising import TFIChain
    from tenpy.networks.mps import MPS
    from tenpy.networks.site import SpinHalfSite
    from tenpy.networks.uniform_mps import UniformMPS
    fails = []
    with warnings.catch_warnings():
        warnings.simplefilter('ignore')
        ch = tc.ChargeInfo([1, 2])  # names default to ''
        dch = tc.DipolarChargeInfo([1, 1], ['', ''], [0], [1], [0])
        s = SpinHalfSite(conserve='Sz')
        L = rng.choice([2, 4])
        bc = rng.choice(['finite', 'infinite'])
        psi = MPS.from_product_state([s] * L, ['up', 'down'] * (L // 2), bc=bc, unit_cell_width=L)
        M = TFIChain({'L': L, 'bc_MPS': bc, 'conserve': 'parity', 'J': 1.0, 'g': 0.5})
        data = {'ch': ch, 'dch': dch, 'psi': psi, 'mpo': M.H_MPO}
        if True:
            psi_i = MPS.from_product_state([s] * 2, ['up', 'down'], bc='infinite', unit_cell_width=2)
            data['umps'] = UniformMPS.from_MPS(psi_i)
        bio = io.BytesIO()
        with h5py.File(bio, 'w') as f:
            hdf5_io.save_to_hdf5(f, data)
        strip = ['/ch/names', '/dch/names', '/psi/unit_cell_width', '/psi/segment_boundaries', '/mpo/unit_cell_width',
                 '/umps/unit_cell_width', '/umps/segment_boundaries', '/umps/singular_values']
        back = _strip(bio, strip, [('/mpo', 'explicit_plus_hc'), ('/umps', 'diagonal_gauge')] if 'umps' in data
                      else [('/mpo', 'explicit_plus_hc')])
    expected = dict(data)
    if 'umps' in data:
        # without the new entries the documented fallback is "not in diagonal gauge"
        fails += K.oracle(data['umps']._AR, back['umps']._AR, 'hdf5.legacy-file', 'umps')
        if back['umps'].unit_cell_width != 2 or back['umps'].diagonal_gauge is not False:
            fails.append(('hdf5.legacy-file:umps-defaults', repr((back['umps'].unit_cell_width, back['umps'].diagonal_gauge))))
        del expected['umps']
        back = {k: v for k, v in back.items() if k != 'umps'}
    fails += K.oracle(expected, back, 'hdf5.legacy-file', 'legacy')
    return fails


def sc_segments(rng):
    """segment boundary conditions: Lattice.segment_first_last, MPS.segment_boundaries, all three leg formats"""
    from tenpy.models.lattice import Chain
    from tenpy.models.xxz_chain import XXZChain
    from tenpy.networks.mps import MPS
    from tenpy.networks.site import SpinHalfSite
    fails = []
    with warnings.catch_warnings():
        warnings.simplefilter('ignore')
        s = SpinHalfSite(conserve=rng.choice(['Sz', 'parity', 'None']))
        lat = Chain(6, s, bc_MPS='infinite', bc='periodic')
        first, last = rng.choice([(0, 3), (1, 4), (2, 9)])
        seg = lat.extract_segment(first, last)
        psi = MPS.from_singlets(s, 6, [(0, 3), (1, 2), (4, 5)], bc='finite', unit_cell_width=6)
        psi_seg = psi.extract_segment(1, 4)
        M = XXZChain({'L': 4, 'bc_MPS': 'infinite', 'conserve': 'Sz' if s.leg.chinfo.qnumber else 'None'})
        Mseg = M.extract_segment(0, 5)
        root = {'lat': seg, 'psi': psi_seg, 'psi_full': psi, 'model': Mseg}
        for fmt in ('blocks', 'compact'):
            fails += K.oracle(root, rt(root, {'LegCharge': fmt}), 'hdf5.segment', 'segment')
        fails += K.other_roundtrips(root, 'segment', {'hist': collections.Counter()})
    return fails


def sc_nested_options(rng):
    """Config inside Config (sub-configs created by .subconfig), options read / unused, Config inside containers;
    complex term strengths; MPO with max_range=None and explicit_plus_hc"""
    from tenpy.models.xxz_chain import XXZChain
    from tenpy.networks.terms import TermList
    from tenpy.tools.params import Config, asConfig
    fails = []
    with warnings.catch_warnings():
        warnings.simplefilter('ignore')
        c = Config({'dt': 0.1, 'trunc_params': {'chi_max': rng.randint(2, 50), 'svd_min': 1e-10}, 'order': 2,
                    'lanczos_params': {'N_min': 2, 'nested': {'deep': [1, 2, {'k': (1, 2)}]}}, 'arr': np.arange(3)}, 'Algo')
        c.get('dt', 0.5)
        sub = c.subconfig('trunc_params')
        sub.get('chi_max', 3)
        c.subconfig('lanczos_params').subconfig('nested')
        tl = TermList([[('Sz', 0)], [('Sp', 1), ('Sm', 3)], [('Sz', 2), ('Sz', 2)]], [0.5, 1j * rng.randint(1, 5), -2 + 0.25j])
        M = XXZChain({'L': 3, 'bc_MPS': 'finite', 'explicit_plus_hc': True, 'Jz': 0.5 + 0j, 'hz': 0.25})
        H = M.H_MPO
        H2 = H.copy()
        H2.max_range = None
        root = {'config': c, 'sub': sub, 'list': [c, asConfig({'a': 1}, 'other')], 'terms': tl, 'H': H, 'H_max_range_None': H2}
        back = rt(root)
        fails += K.oracle(root, back, 'hdf5.nested-options', 'options')
        if back['config']['trunc_params'] is not back['sub'] and c['trunc_params'] is sub:
            fails.append(('hdf5.nested-options.subconfig-identity', 'sub-config no longer the object stored in its parent'))
        fails += K.other_roundtrips(root, 'options', {'hist': collections.Counter()})
        # deleting the loaded configs must not warn about options that were read before saving
        del back
    return fails


SCENARIOS = collections.OrderedDict([
    ('wrappers_subpath', sc_wrappers_subpath), ('file_endings', sc_file_endings), ('masked_arrays', sc_masked_arrays),
    ('dtypes_and_arrays', sc_dtypes_and_arrays), ('ignored_exclude', sc_ignored_exclude),
    ('unknown_class_and_global', sc_unknown_class_and_global), ('reduce_variants', sc_reduce_variants), ('reduce_matrix', sc_reduce_matrix), ('dict_keys', sc_dict_keys), ('grouped', sc_grouped), ('attr_audit', sc_attr_audit),
    ('global_errors', sc_global_errors), ('format_errors', sc_format_errors), ('leg_format_errors', sc_leg_format_errors),
    ('legacy_files', sc_legacy_files), ('segments', sc_segments), ('nested_options', sc_nested_options),
])


def eval_api(case):
    rng = random.Random('api:%s:%d' % (case['name'], case.get('seed', 0)))
    fails = SCENARIOS[case['name']](rng)
    # one entry per signature
    seen, out = set(), []
    for sig, detail in fails:
        if sig not in seen:
            seen.add(sig)
            out.append((sig, detail))
    return {'case': case, 'fails': out[:6], 'hist': {'api.' + case['name']: 1}, 'heap': None, 'file': None, 'loaded': None,
            'unsupported': [], 'nontrivial': True}
