"""C10 — all representations of a model Hamiltonian are the same operator."""
import json
import multiprocessing as mp
import os
import time
import traceback
import warnings

from vlib import core
from harness import c10_gen, c10_check, c10_model, ops_common as oc

PROP = 'C10'
MODEL_MODULES = ['TenpyModel.Util.J', 'TenpyModel.Ops.Sym', 'TenpyModel.Ops.Terms', 'TenpyModel.Ops.Graph', 'TenpyModel.Ops.GraphSpec',
                 'TenpyModel.Ops.Bond', 'TenpyModel.Ops.Model', 'TenpyModel.Ops.Dense',
                 'TenpyModel.C10.ExtMPO', 'TenpyModel.C10.ExtOps']
PROPS_MODULES = ['TenpyModel.C10.Props',
                 'TenpyModel.C10.Props2',
                 'TenpyModel.C10.PropsExt']
LEAN_MODULES = PROPS_MODULES
LEVEL = 'proof'
BUDGET = {'quick': 200, 'thorough': 1500}
RULE = ('coupling models: random lattice (Chain/Ladder/Square/Honeycomb, <=8 sites finite, unit cell <=4 infinite; '
        'open/periodic/infinite boundaries; default/snake/C/F order), site pool spin-1/2, spin-1, boson, fermion, '
        'spinful fermion with every conserve option and mixed unit cells, 1-6 calls of add_onsite/add_coupling/'
        'add_multi_coupling/add_*_term/add_exponentially_decaying_coupling/centered with dyadic real/complex scalar or '
        'site-dependent strengths, plus_hc, explicit_plus_hc, sort_mpo_legs; a fifth of the cases are nearest-neighbour chains '
        'with uniform or site-dependent fields (3/4 of them infinite, unit cell 1-3), for which H_bond, calc_H_MPO_from_bond, '
        'calc_H_bond_from_MPO, from_MPOModel and bond_energies are representations too; predefined models of tenpy.models over a '
        'small parameter grid.  Every case runs on the real classes, on the Lean model (containers, term lists, MPO '
        'graph edges/states, formal sum of graph paths vs formal sum of terms, bond pieces, dense evaluation) and on an '
        'independent many-body oracle (explicit Jordan-Wigner strings, brute-force lattice enumeration); all dense '
        'representations are compared with the oracle at 1e-10.  A tenth of the generated models are infinite chains (unit cell '
        '1-3) with multi-site terms that differ pairwise only by a shift of the operators right of the switch site by whole '
        'unit cells (all switchLR variants; term adders and lattice adders), on a window holding every term, with the term '
        'lists summed over the window as one more representation.  Extension part (harness/c10_ext.py, 120 cases quick / 3000 '
        'thorough): for generated models and for graphs assembled directly with MPOGraph.add (a third malformed on purpose: '
        'dead ends, charged operators, unknown operator names, no IdL, bad method arguments) the grids of _build_grids, '
        'the charges of all virtual legs (_calc_legcharges, also with non-zero Ws_qtotal), build_MPO and chains of '
        'group_sites / enlarge_mps_unit_cell / extract_segment / sort_legcharges are compared with the Lean model '
        '(exception classes included) and against a dense oracle (path sum of the graph; window invariance).  '
        'Non-trivial = at least one term of range >= 2 or a '
        'fermionic/multi-site/exponentially decaying term; distinct by content hash.')
TRUSTED = ['Lean 4.33 kernel; axioms of every C10_* theorem ⊆ {propext, Classical.choice, Quot.sound}',
           'hand-written model lean/TenpyModel/Ops/*.lean tied to tenpy/models/model.py, networks/terms.py, networks/mpo.py '
           'by this run: containers, term lists, graph edges and states compared exactly (rational strengths)',
           'given, not modelled: lattice enumeration (possible_couplings, C19), order_combine_term / handle_JW (C12), '
           'site operator tables and hc names (C12)',
           'oracle: numpy/scipy Kronecker products of the site matrices of the implementation',
           'dense exporters, npc contraction, grid_outer: compared at tolerance 1e-10, not proved',
           'multi-site couplings and exponentially decaying terms on finite chains: path theorems proved in C10/Props2.lean '
           '(C10_graph_paths_multi, _coupling_merged, _exp, _all; C10_terms_termlist_multi under SwitchOpOK, which excludes '
           'exactly the known finding on the switch-site operator); infinite unit cells (shift != 0) are not covered by a '
           'theorem: there the path sum of the model graph is compared with the model term lists on a window of every case '
           '(paths_ok), the edge lists exactly with the implementation',
           'extension round: MPOGraph -> MPO (C10/ExtMPO.lean) and the MPO methods group_sites / enlarge_mps_unit_cell / '
           'extract_segment / sort_legcharges (C10/ExtOps.lean) are modelled on operator-valued matrices; theorems in '
           'C10/PropsExt.lean; given there: Site.valid_opname and the charge of every operator (C12), trivial shift symmetry of '
           'the ChargeInfo; the W tensors of the real MPO are compared with the model grids evaluated with the site operators '
           'at 1e-11 (npc.grid_outer / tensordot / combine_legs are not modelled); the window theorem for build_MPO of an infinite graph '
           'assumes equal ordered states on the first and last bond (compared exactly on every case)',
           'infinite nearest-neighbour models: bond operators / MPO from bonds / bonds from MPO are compared on a window up to '
           'on-site terms on the two boundary sites, and through the energy per unit cell of a random iMPS (reduced density '
           'matrices of the state by MPS.get_rho_segment)']
ASSUMPTIONS = ['strengths are dyadic rationals, so float sums/products in tenpy are exact and comparable to Rat arithmetic',
               'operator names are opaque at the formal level (equal formal sums ⇒ equal operators, not conversely)']

N_PROCS = min(12, os.cpu_count() or 1)
ANCHOR_COVERAGE_NOTE = ('coverage round 2026-09-26 (coverage 7.x, quick tier seed 0, real side run in-process, line+branch): C10 alone before -> after: models/model.py 81% -> 88%, networks/terms.py 68% -> 86%, algorithms/exact_diag.py 69% -> 92%, models/lattice.py 43% -> 43% (C19 owns it), networks/mpo.py 25% -> 26% (C11 owns the MPO class); C10+C11 combined: model.py 81 -> 88, terms.py 71 -> 86, exact_diag.py 74 -> 92, mpo.py 55 -> 81')


def nontrivial(case):
    for c in case.get('calls', []):
        if c['f'] in ('add_multi_coupling', 'add_multi_coupling_term', 'add_exp', 'add_centered'):
            return True
        if c['f'] == 'add_coupling' and (any(abs(d) >= 1 for d in c['dx'])):
            return True
        if c['f'] == 'add_coupling_term' and c['j'] - c['i'] >= 2:
            return True
    return False


def case_hist(case):
    h = []
    lat = case['lattice']
    h.append('lattice=' + lat['cls'])
    h.append('bc_MPS=' + lat['bc_MPS'])
    h.append('bc=' + ','.join(lat['bc']))
    h.append('order=' + str(lat.get('order', 'default')))
    h.append('explicit_plus_hc=%s' % bool(case.get('explicit')))
    h.append('sort_mpo_legs=%s' % bool(case.get('sort_mpo_legs')))
    if case.get('nn_only'):
        h.append('nearest_neighbour_chain L=%d %s' % (lat['Ls'][0], lat['bc_MPS']))
    for s in {json.dumps(s, sort_keys=True) for s in case['sites']}:
        s = json.loads(s)
        h.append('site=%s(%s)' % (s['cls'], ','.join(str(v) for v in s['kw'].values())))
    if len({json.dumps(s, sort_keys=True) for s in case['sites']}) > 1:
        h.append('mixed_unit_cell')
    for c in case['calls']:
        h.append('call=' + c['f'])
        if c.get('plus_hc'):
            h.append('plus_hc')
        st = c['strength']
        if isinstance(st[0], list):
            h.append('strength=array')
        elif st[1] not in (0, '0'):
            h.append('strength=complex')
    return h


def shrink(case, sig):
    """drop calls while the same property signature persists (oracle only)"""
    cur = case
    changed = True
    while changed and len(cur['calls']) > 1:
        changed = False
        for i in range(len(cur['calls'])):
            cand = dict(cur)
            cand['calls'] = cur['calls'][:i] + cur['calls'][i + 1:]
            try:
                fails, _ = c10_check.check_case(cand, None, use_model=False)
            except Exception:  # noqa: BLE001
                continue
            if any(f[1] == sig for f in fails):
                cur, changed = cand, True
                break
    return cur


KNOWN_SIGS = {k['signature'] for k in core.load_known_findings() if k.get('property') == PROP}


def _mem_limit(on):
    """soft address-space limit of this worker: a runaway allocation raises MemoryError here instead of
    taking the machine down"""
    try:
        import resource
        soft, hard = resource.getrlimit(resource.RLIMIT_AS)
        resource.setrlimit(resource.RLIMIT_AS, ((6 << 30) if on else hard, hard))
    except Exception:  # noqa: BLE001
        pass


def work_chunk(args):
    """child process: real side, one driver call for the chunk, comparison"""
    cases, use_model = args
    warnings.simplefilter('ignore')
    _mem_limit(True)
    out = []
    reals, reqs, idx = [], [], []
    for n, case in enumerate(cases):
        rec = {'case': case, 'fails': [], 'facts': {}, 'skipped': None}
        out.append(rec)
        if case.get('kind') == 'api':
            # API scenario with its own dense oracle (no Lean side)
            from harness import c10_api
            rec['fails'], rec['facts'] = c10_api.run_case(case)
            continue
        try:
            real = c10_check.real_side(case)
        except c10_check.TooLarge:
            rec['skipped'] = 'too-large'
            continue
        except Exception as e:  # noqa: BLE001
            try:
                empty = c10_model.is_empty_model(case)
            except Exception:  # noqa: BLE001
                empty = False
            if empty:
                rec['skipped'] = 'empty-model'
            else:
                rec['fails'].append(('property', f'build.error.{type(e).__name__}', traceback.format_exc()[-1200:]))
            continue
        if use_model:
            try:
                reqs.append(c10_check.lean_request(case, real))
            except Exception:  # noqa: BLE001
                rec['fails'].append(('correspondence', 'harness.request-exception', traceback.format_exc()[-1200:]))
                continue
        reals.append(real)
        idx.append(n)
    louts = [None] * len(reals)
    if use_model and reqs:
        _mem_limit(False)   # the Lean runtime reserves a large address space
        try:
            louts = core.run_driver('C10', reqs)
        except core.DriverError as e:
            louts = [{'error': 'driver: ' + str(e)[:400]}] * len(reals)
        _mem_limit(True)
    for n, real, lo in zip(idx, reals, louts):
        rec = out[n]
        try:
            fails, facts = c10_check.check_case(rec['case'], lo, real, use_model=use_model)
        except Exception:  # noqa: BLE001
            fails, facts = [('correspondence', 'harness.exception', traceback.format_exc()[-1500:])], {}
        rec['fails'], rec['facts'] = fails, facts
        seen = set()
        for k, f in enumerate(list(fails)):
            if f[0] == 'property' and f[1] not in seen and len(seen) < 2 and f[1] not in KNOWN_SIGS:
                seen.add(f[1])
                try:
                    small = shrink(rec['case'], f[1])
                    rec.setdefault('shrunk', {})[f[1]] = small
                except Exception:  # noqa: BLE001
                    pass
    return out


def run_cases(ctx, cases, use_model=True, res=None):
    res = res or core.Result()
    if not cases:
        return res
    nproc = max(1, min(N_PROCS, len(cases) // 4 or 1))
    chunks = [cases[i::nproc] for i in range(nproc)]
    if nproc == 1:
        outs = [work_chunk((chunks[0], use_model))]
    else:
        from concurrent.futures import ProcessPoolExecutor
        with ProcessPoolExecutor(nproc, mp_context=mp.get_context('fork')) as pool:
            outs = list(pool.map(work_chunk, [(c, use_model) for c in chunks], timeout=max(600, ctx.budget_s)))
    for chunk in outs:
        for rec in chunk:
            case = rec['case']
            if rec['skipped']:
                res.count('skipped=' + rec['skipped'])
                continue
            kind = case.get('kind', 'coupling')
            res.note_case(case, nontrivial(case) if kind == 'coupling' else True)
            if kind == 'coupling':
                hist = case_hist(case)
            elif kind == 'api':
                hist = ['api_scenario=' + case.get('name', '?')]
            else:
                hist = ['zoo=' + case.get('model', '?')]
            for h in hist:
                res.count(h)
            for k, v in rec['facts'].items():
                if k.startswith('rep.') or k.startswith('api.') or k.startswith('nn_infinite') or \
                        k in ('lean_dense', 'bonds', 'herm_formal', 'herm_oracle', 'spec_ok', 'bond_energies_finite'):
                    if v:
                        res.count(k)
            if use_model and kind != 'api':
                res.traces_validated += 1
            for kind, sig, detail in rec['fails']:
                c = rec.get('shrunk', {}).get(sig, case)
                payload = dict(c)
                if c is not case:
                    payload = dict(c, original=case)
                res.fail(kind, sig, detail, payload)
    return res


def corpus_cases():
    d = core.CORPUS_DIR / 'C10'
    cases = []
    if d.exists():
        for f in sorted(d.glob('*.json')):
            try:
                c = json.loads(f.read_text())
                cases.append(c.get('case', c))
            except Exception:  # noqa: BLE001
                pass
    return cases


def gen_cases(ctx, tag, n):
    rng = ctx.sub_rng(tag)
    core.use_repo()
    cases = []
    with warnings.catch_warnings():
        warnings.simplefilter('ignore')
        for _ in range(n):
            cases.append(c10_gen.gen_case(rng, ctx.quick))
    return cases


def run(ctx):
    res = core.Result()
    run_cases(ctx, corpus_cases(), True, res)
    from harness import c10_zoo
    run_cases(ctx, c10_zoo.cases(ctx), True, res)
    n_total = 300 if ctx.quick else 8000
    batch = 160 if ctx.quick else 640
    done = 0
    k = 0
    while done < n_total and ctx.elapsed() < ctx.budget_s * 0.8:
        n = min(batch, n_total - done)
        run_cases(ctx, gen_cases(ctx, f'gen{k}', n), True, res)
        done += n
        k += 1
    res.extra['generated_models'] = done
    # API scenarios (public methods / options outside the generated coupling models; dense oracles only)
    from harness import c10_api
    n_api = 80 if ctx.quick else 1200
    run_cases(ctx, c10_api.gen_cases(ctx.sub_rng('api'), n_api), True, res)
    res.extra['api_scenarios'] = n_api
    # extension round: MPOGraph -> MPO (grids, leg charges) and group_sites / enlarge / extract_segment / sort_legcharges
    from harness import c10_ext
    c10_ext.run(ctx, res)
    res.extra['anchor_coverage_note'] = ANCHOR_COVERAGE_NOTE
    return res


def search(ctx, reasons):
    """failing-input search on the real code with the oracle only"""
    res = core.Result()
    run_cases(ctx, corpus_cases(), False, res)
    from harness import c10_zoo
    run_cases(ctx, c10_zoo.cases(ctx), False, res)
    n_total = 300 if ctx.quick else 4000
    done, k = 0, 0
    t0 = time.time()
    while done < n_total and time.time() - t0 < (60 if ctx.quick else 600):
        run_cases(ctx, gen_cases(ctx, f'search{k}', 160), False, res)
        done += 160
        k += 1
    from harness import c10_ext
    c10_ext.run(ctx, res, use_model=False, tag='ext-search')
    return res


def replay(ctx, payload):
    if 'case' not in payload and payload.get('correspondence'):
        # replay file of a model-vs-implementation disagreement: the cases are listed under 'correspondence'
        cases = [c['case'] for c in payload['correspondence'] if isinstance(c, dict) and 'case' in c]
    else:
        cases = [payload.get('case', payload)]
    cases = [{k: v for k, v in case.items() if k != 'original'} for case in cases]
    ext = [c for c in cases if c.get('kind') == 'ext']
    if ext:
        from harness import c10_ext
        res = c10_ext.run_cases(ctx, ext, core.Result())
        rest = [c for c in cases if c.get('kind') != 'ext']
        return run_cases(ctx, rest, True, res) if rest else res
    return run_cases(ctx, cases, True)
