"""C18 part 3 (coverage round): options and entry points of the save / resume machinery that the crash and
resume streams do not vary.  Each scenario runs the real code in a scratch directory inside a pool worker and
checks it against the documented contract (what must be on disk, what must be raised, what must be equal to the
plain run); nothing here uses the Lean models.  A scenario returns a list of problems (signature, detail).
"""
import contextlib
import copy
import io
import os
import shutil
import signal
import tempfile
import traceback
import warnings

import numpy as np

TOL = 1.0e-9


def gs_base(rng, L=4, sweeps=2, **kw):
    p = dict(
        simulation_class='GroundStateSearch',
        model_class='XXZChain',
        model_params=dict(L=L, bc_MPS='finite', Jxx=1.0, Jz=rng.randrange(2, 9) / 4.0, hz=0.0, sort_charge=True),
        initial_state_params=dict(method='lat_product_state', product_state=[['up'], ['down']]),
        algorithm_class='TwoSiteDMRGEngine',
        algorithm_params=dict(trunc_params=dict(chi_max=4, svd_min=1.0e-12), max_sweeps=sweeps, min_sweeps=sweeps,
                              P_tol_to_trunc=None, mixer=None, max_trunc_err=None),
        measure_at_algorithm_checkpoints=True,
        save_every_x_seconds=0.0,
        connect_measurements=[['harness.c18_meas', 'm_steps'], ['tenpy.simulations.measurement', 'm_energy_MPO']],
        log_params=dict(to_stdout=None, to_file=None),
    )
    p.update(kw)
    return p


def te_base(rng, L=4, n=3, **kw):
    p = dict(
        simulation_class='RealTimeEvolution',
        model_class='XXZChain',
        model_params=dict(L=L, bc_MPS='finite', Jxx=1.0, Jz=rng.randrange(1, 9) / 4.0, hz=0.0, sort_charge=True),
        initial_state_params=dict(method='lat_product_state', product_state=[['up'], ['down']]),
        algorithm_class='TEBDEngine',
        algorithm_params=dict(dt=0.0625, N_steps=1, order=2, trunc_params=dict(chi_max=4, svd_min=1.0e-12)),
        final_time=0.0625 * n,
        save_every_x_seconds=0.0,
        connect_measurements=[['harness.c18_meas', 'm_steps']],
        log_params=dict(to_stdout=None, to_file=None),
    )
    p.update(kw)
    return p


def _run(params):
    from tenpy.simulations import simulation
    return simulation.run_simulation(**copy.deepcopy(params))


def _listing():
    return sorted(os.listdir('.'))


def _load(fn):
    from tenpy.tools import hdf5_io
    return hdf5_io.load(fn)


def _same_series(a, b):
    ka, kb = sorted(a), sorted(b)
    if ka != kb:
        return 'keys %r vs %r' % (ka, kb)
    for k in ka:
        if 'walltime' in k:
            continue
        x, y = np.asarray(a[k], dtype=float), np.asarray(b[k], dtype=float)
        if x.shape != y.shape or not np.all(np.abs(x - y) <= TOL * (1 + np.abs(y))):
            return '%s: %r vs %r' % (k, x.tolist(), y.tolist())
    return None


class count_saves:
    """context: counts completed `save_results` calls that wrote a file; optionally copies each file aside"""

    def __init__(self, copy_to=None):
        self.n = 0
        self.copy_to = copy_to

    def __enter__(self):
        from tenpy.simulations.simulation import Simulation
        from harness import c18_meas
        self.Sim = Simulation
        self.o_save, self.o_meas = Simulation.save_results, Simulation.make_measurements
        me = self

        def save_results(sim, results=None):
            r = me.o_save(sim, results)
            if sim.output_filename is not None:
                me.n += 1
                c18_meas.LOG.append(('save',))
                if me.copy_to is not None:
                    shutil.copy(str(sim.output_filename), me.copy_to % me.n)
            return r

        def make_measurements(sim):
            c18_meas.LOG.append(('measure',))
            return me.o_meas(sim)

        Simulation.save_results, Simulation.make_measurements = save_results, make_measurements
        return self

    def __exit__(self, *exc):
        self.Sim.save_results, self.Sim.make_measurements = self.o_save, self.o_meas
        return False


# ------------------------------------------------------------------------------------------------
# scenarios: f(rng) -> list of (signature suffix, detail); cwd is a fresh scratch directory


def s_filename_params(rng):
    """output_filename_params -> output_filename_from_dict; file of that name is written, no backup stays"""
    out = []
    chi = rng.choice([3, 4, 5])
    L = rng.choice([4, 6])
    suffix = rng.choice(['.pkl', '.h5'])
    joint = rng.choice(['_', '-'])
    p = gs_base(rng, L=L, sweeps=1)
    p['algorithm_params']['trunc_params']['chi_max'] = chi
    p['output_filename_params'] = dict(prefix='res', suffix=suffix, joint=joint,
                                       parts={'algorithm_params.trunc_params.chi_max': 'chi_{0:03d}',
                                              ('model_params.L', 'model_params.Jz'): 'L{0:d}Jz{1:.2f}'})
    res = _run(p)
    want = joint.join(['res', 'chi_%03d' % chi, 'L%dJz%.2f' % (L, p['model_params']['Jz'])]) + suffix
    if _listing() != [want]:
        out.append(('wrong-files', 'expected [%r], directory has %r' % (want, _listing())))
    elif not _load(want).get('finished_run'):
        out.append(('not-finished', want))
    return out


def s_existing_no_overwrite(rng):
    """existing output file, overwrite_output False: the old file is never touched, results go to _1, _2, ..."""
    out = []
    ext = rng.choice(['.pkl', '.h5'])
    old = os.urandom(rng.randrange(10, 200))
    with open('a' + ext, 'wb') as f:
        f.write(old)
    p = gs_base(rng, sweeps=1, output_filename='a' + ext)
    for i in (1, 2):
        with warnings.catch_warnings():
            warnings.simplefilter('ignore')
            _run(p)
        want = sorted(['a' + ext] + ['a_%d%s' % (j, ext) for j in range(1, i + 1)])
        if _listing() != want:
            out.append(('wrong-files', 'run %d: expected %r, directory has %r' % (i, want, _listing())))
            return out
        if open('a' + ext, 'rb').read() != old:
            out.append(('old-file-modified', 'a%s changed in run %d' % (ext, i)))
        if not _load('a_%d%s' % (i, ext)).get('finished_run'):
            out.append(('not-finished', 'a_%d%s' % (i, ext)))
    return out


def s_skip_if_exists(rng):
    """skip_if_output_exists: Skip is raised and nothing on disk changes"""
    from tenpy.simulations.simulation import Skip
    out = []
    old = os.urandom(50)
    with open('a.pkl', 'wb') as f:
        f.write(old)
    p = gs_base(rng, sweeps=1, output_filename='a.pkl', skip_if_output_exists=True,
                overwrite_output=rng.choice([True, False]))
    try:
        _run(p)
        out.append(('no-Skip', 'run_simulation returned'))
    except Skip:
        pass
    if _listing() != ['a.pkl'] or open('a.pkl', 'rb').read() != old:
        out.append(('disk-changed', repr(_listing())))
    return out


def s_overwrite(rng):
    """overwrite_output with an existing complete file, a stale backup and a log file"""
    out = []
    p0 = gs_base(rng, sweeps=1, output_filename='a.pkl')
    _run(p0)
    shutil.copy('a.pkl', 'a.backup.pkl')          # stale backup
    with open('a.log', 'w') as f:
        f.write('old log\n')
    p = gs_base(rng, sweeps=2, output_filename='a.pkl', overwrite_output=True)
    res = _run(p)
    if _listing() != ['a.backup.log', 'a.pkl']:
        out.append(('wrong-files', 'expected a.pkl + rotated log, directory has %r' % (_listing(),)))
    else:
        if open('a.backup.log').read() != 'old log\n':
            out.append(('log-not-rotated', ''))
        r = _load('a.pkl')
        if not r.get('finished_run') or len(r['measurements']['measurement_index']) != len(res['measurements']['measurement_index']):
            out.append(('not-the-new-results', ''))
    return out


def s_no_output(rng):
    """output_filename None: nothing is written, results are returned"""
    out = []
    p = te_base(rng, n=2)
    res = _run(p)
    if _listing():
        out.append(('files-written', repr(_listing())))
    if not res.get('finished_run') or len(res['measurements']['measurement_index']) != 3:
        out.append(('bad-results', repr(sorted(res))))
    return out


def s_endings(rng):
    """file endings: .pkl, .pklz, .h5, .hdf5 hold the same results; an unknown ending raises ValueError
    (save and load)"""
    from tenpy.tools import hdf5_io
    out = []
    p = te_base(rng, n=2)
    ref = None
    for ext in ('.pkl', '.pklz', '.h5', '.hdf5'):
        q = copy.deepcopy(p)
        q['output_filename'] = 'e' + ext
        _run(q)
        if not os.path.exists('e' + ext) or os.path.exists('e.backup' + ext):
            out.append(('wrong-files', '%s: %r' % (ext, _listing())))
            continue
        r = _load('e' + ext)
        if ref is None:
            ref = r
            continue
        d = _same_series(ref['measurements'], r['measurements'])
        if d or sorted(ref) != sorted(r) or abs(abs(ref['psi'].overlap(r['psi'])) - abs(ref['psi'].overlap(ref['psi']))) > 1e-9:
            out.append(('formats-differ', '%s vs .pkl: %s' % (ext, d)))
    q = copy.deepcopy(p)
    q['output_filename'] = 'e.dat'
    try:
        _run(q)
        out.append(('unknown-ending-accepted', repr(_listing())))
    except ValueError:
        pass
    try:
        hdf5_io.load('e.dat')
        out.append(('unknown-ending-loaded', ''))
    except ValueError:
        pass
    return out


def s_directory(rng):
    """`directory` option: created, output inside it, the working directory is restored afterwards"""
    out = []
    cwd = os.getcwd()
    p = te_base(rng, n=1, directory='sub', output_filename='x.pkl')
    _run(p)
    if os.getcwd() != cwd:
        out.append(('cwd-not-restored', os.getcwd()))
        os.chdir(cwd)
    if _listing() != ['sub'] or sorted(os.listdir('sub')) != ['x.pkl']:
        out.append(('wrong-files', '%r / %r' % (_listing(), os.listdir('sub') if os.path.isdir('sub') else None)))
    return out


def s_save_every(rng):
    """save_every_x_seconds: None / huge -> only the final save; 0 -> every checkpoint + final; tiny positive ->
    first checkpoint saved and the interval raised (saving took longer than 10 % of it)"""
    out = []
    n = rng.choice([2, 3])
    for val, want in ((None, 1), (1.0e6, 1), (0.0, n + 1)):
        p = te_base(rng, n=n, output_filename='s_%s.pkl' % val, save_every_x_seconds=val)
        with count_saves() as c:
            _run(p)
        if c.n != want:
            out.append(('wrong-number-of-saves', 'save_every_x_seconds=%r: %d saves, expected %d' % (val, c.n, want)))
    p = te_base(rng, n=n, output_filename='s_tiny.pkl', save_every_x_seconds=1.0e-7)
    with count_saves() as c:
        res = _run(p)
    if not (2 <= c.n <= n + 1):
        out.append(('wrong-number-of-saves', 'tiny interval: %d saves' % c.n))
    if not res['simulation_parameters']['save_every_x_seconds'] > 1.0e-7:
        out.append(('interval-not-raised', repr(res['simulation_parameters']['save_every_x_seconds'])))
    if not _load('s_tiny.pkl').get('finished_run'):
        out.append(('not-finished', 's_tiny.pkl'))
    return out


def s_save_psi_false(rng):
    """save_psi False: neither psi nor resume_data in the file; resuming from it refuses with ValueError"""
    from tenpy.simulations import simulation
    out = []
    p = te_base(rng, n=3, output_filename='p.pkl', save_psi=False)
    with count_saves(copy_to='ck%d.pkl') as c:
        _run(p)
    r = _load('ck1.pkl')
    if 'psi' in r or 'resume_data' in r:
        out.append(('psi-saved', repr(sorted(r))))
    try:
        simulation.resume_from_checkpoint(filename='ck1.pkl', update_sim_params={'output_filename': 'r.pkl'})
        out.append(('resumed-without-psi', ''))
    except ValueError:
        pass
    return out


def s_entry_points(rng):
    """resume_from_checkpoint(filename=) == (checkpoint_results=); argument errors; finished run -> Skip;
    init_simulation_from_checkpoint; run() on a loaded simulation warns"""
    from tenpy.simulations import simulation
    out = []
    p = te_base(rng, n=3, output_filename='p.pkl')
    with count_saves(copy_to='ck%d.pkl') as c:
        plain = _run(p)
    k = rng.choice([1, 2])
    r1 = simulation.resume_from_checkpoint(filename='ck%d.pkl' % k, update_sim_params={'output_filename': 'r1.pkl'})
    r2 = simulation.resume_from_checkpoint(checkpoint_results=_load('ck%d.pkl' % k),
                                           update_sim_params={'output_filename': 'r2.pkl'})
    for name, r in (('filename', r1), ('checkpoint_results', r2)):
        d = _same_series(plain['measurements'], r['measurements'])
        if d:
            out.append(('resume-differs', '%s: %s' % (name, d)))
    if not os.path.exists('r1.pkl') or not os.path.exists('r2.pkl'):
        out.append(('update_sim_params-ignored', repr(_listing())))
    for kw in (dict(), dict(filename='ck1.pkl', checkpoint_results={})):
        try:
            simulation.resume_from_checkpoint(**kw)
            out.append(('bad-arguments-accepted', repr(sorted(kw))))
        except ValueError:
            pass
    try:
        simulation.resume_from_checkpoint(filename='p.pkl')
        out.append(('finished-run-resumed', ''))
    except simulation.Skip:
        pass
    sim = simulation.init_simulation_from_checkpoint(filename='ck%d.pkl' % k,
                                                     update_sim_params={'output_filename': 'r3.pkl'})
    if not sim.loaded_from_checkpoint or sim.results.get('finished_run'):
        out.append(('init-from-checkpoint', ''))
    with sim:
        r3 = sim.resume_run()
    d = _same_series(plain['measurements'], r3['measurements'])
    if d:
        out.append(('resume-differs', 'init_simulation_from_checkpoint: ' + d))
    # the class method directly, with a file name
    from tenpy.simulations.time_evolution import RealTimeEvolution
    sim = RealTimeEvolution.from_saved_checkpoint(filename='ck%d.pkl' % k)
    sim.options['output_filename'] = None
    sim.output_filename = sim._backup_filename = None
    r6 = sim.resume_run()
    d = _same_series(plain['measurements'], r6['measurements'])
    if d:
        out.append(('resume-differs', 'from_saved_checkpoint(filename): ' + d))
    for kw in (dict(), dict(filename='ck1.pkl', checkpoint_results={})):
        try:
            RealTimeEvolution.from_saved_checkpoint(**kw)
            out.append(('bad-arguments-accepted', 'from_saved_checkpoint ' + repr(sorted(kw))))
        except ValueError:
            pass
    # checkpoint without psi at all
    ck = _load('ck1.pkl')
    del ck['psi']
    ck['resume_data'].pop('psi')
    try:
        simulation.resume_from_checkpoint(checkpoint_results=ck, update_sim_params={'output_filename': 'r4.pkl'})
        out.append(('resumed-without-psi', ''))
    except ValueError:
        pass
    # psi only in the results, not in resume_data: accepted (documented fall-back)
    ck = _load('ck%d.pkl' % k)
    ck['resume_data'].pop('psi')
    r5 = simulation.resume_from_checkpoint(checkpoint_results=ck, update_sim_params={'output_filename': 'r5.pkl'})
    d = _same_series(plain['measurements'], r5['measurements'])
    if d:
        out.append(('resume-differs', 'psi from results: ' + d))
    return out


def s_abort_signal(rng):
    """handle_abort_signal: first SIGINT sets the flag, second raises KeyboardInterrupt, other signals ValueError"""
    from tenpy.simulations import simulation
    out = []
    sim = simulation.init_simulation(**te_base(rng, n=1))
    err = io.StringIO()
    with contextlib.redirect_stderr(err):
        try:
            sim.handle_abort_signal(signal.SIGTERM, None)
            out.append(('other-signal-accepted', ''))
        except ValueError:
            pass
        sim.handle_abort_signal(signal.SIGINT, None)
        if not sim.received_signal_sigint:
            out.append(('flag-not-set', ''))
        try:
            sim.handle_abort_signal(signal.SIGINT, None)
            out.append(('second-SIGINT-ignored', ''))
        except KeyboardInterrupt:
            pass
    return out


def s_estimate_ram(rng):
    """estimate_simulation_RAM / Simulation.estimate_RAM: a positive estimate, the simulation is not run, no
    results file appears"""
    from tenpy.simulations import simulation
    out = []
    p = gs_base(rng, sweeps=1, output_filename='ram.pkl')
    buf = io.StringIO()
    with contextlib.redirect_stdout(buf):
        total, unit = simulation.estimate_simulation_RAM(**copy.deepcopy(p))
    if not (total > 0 and isinstance(unit, str)):
        out.append(('bad-estimate', repr((total, unit))))
    if _listing():
        out.append(('files-written', repr(_listing())))
    sim = simulation.init_simulation(**gs_base(rng, sweeps=1))
    with sim:
        if not sim.estimate_RAM() > 0:
            out.append(('bad-estimate', 'Simulation.estimate_RAM'))
    return out


def s_listener_order(rng):
    """connect_algorithm_checkpoint with priorities: per checkpoint the order is
    listener(50), measurement (0), listener(-50), save (-100), listener(-150)"""
    from harness import c18_meas
    out = []
    kind = rng.choice(['gs', 'te'])
    con = [['harness.c18_meas', 'log_listener', {'tag': 50}, 50],
           ['harness.c18_meas', 'log_listener', {'tag': -150}, -150],
           ['harness.c18_meas', 'log_listener', {'tag': -50}, -50]]
    if kind == 'gs':
        p = gs_base(rng, sweeps=3, output_filename='o.pkl', connect_algorithm_checkpoint=con)
    else:
        p = te_base(rng, n=3, output_filename='o.pkl', connect_algorithm_checkpoint=con,
                    measure_at_algorithm_checkpoints=True)
    del c18_meas.LOG[:]
    with count_saves():
        _run(p)
    log = list(c18_meas.LOG)
    del c18_meas.LOG[:]
    # split into checkpoints: each starts with the listener of priority 50
    blocks, cur = [], None
    for e in log:
        if e[0] == 'listener' and e[1] == 50:
            cur = []
            blocks.append(cur)
        if cur is not None:
            cur.append(e[0] if e[0] != 'listener' else 'L%d' % e[1])
    want = ['L50', 'measure', 'L-50', 'save', 'L-150']
    if len(blocks) != 3:
        out.append(('wrong-number-of-checkpoints', repr(log)))
    for i, b in enumerate(blocks):
        b = b[:5]
        if b != want:
            out.append(('wrong-order', 'checkpoint %d: %r, expected %r' % (i + 1, b, want)))
            break
    return out


def s_bad_measurement(rng):
    """a measurement function that raises: the run goes on, results are saved with `errors_during_run`, the final
    exception names the file; with max_errors_before_abort reached the run aborts but the last checkpoint file is
    complete and can be resumed (after removing the faulty function)"""
    from tenpy.simulations import simulation
    out = []
    meas = [['harness.c18_meas', 'm_steps'], ['harness.c18_meas', 'm_raises', {'at': [2]}, -5]]
    p = te_base(rng, n=3, output_filename='b.pkl', connect_measurements=meas)
    try:
        with warnings.catch_warnings():
            warnings.simplefilter('ignore')
            _run(p)
        out.append(('errors-not-reported', ''))
    except Exception as e:
        if 'b.pkl' not in str(e):
            out.append(('unexpected-exception', repr(e)[:300]))
    r = _load('b.pkl') if os.path.exists('b.pkl') else {}
    if not r.get('finished_run') or not r.get('errors_during_run'):
        out.append(('results-not-saved', repr(sorted(r))))
    elif len(r['measurements']['measurement_index']) != 4:
        out.append(('measurement-lost', repr(r['measurements']['measurement_index'])))
    # abort after too many errors
    meas = [['harness.c18_meas', 'm_steps'], ['harness.c18_meas', 'm_raises', {'at': [2, 3]}, -5]]
    p = te_base(rng, n=4, output_filename='c.pkl', connect_measurements=meas, max_errors_before_abort=2)
    try:
        with warnings.catch_warnings():
            warnings.simplefilter('ignore')
            _run(p)
        out.append(('no-abort', ''))
    except RuntimeError:
        pass
    except Exception as e:
        out.append(('unexpected-exception', repr(e)[:300]))
    try:
        ck = _load('c.pkl')
        if ck.get('finished_run') or 'resume_data' not in ck:
            out.append(('bad-checkpoint-after-abort', repr(sorted(ck))))
        else:
            r = simulation.resume_from_checkpoint(
                checkpoint_results=ck,
                update_sim_params={'connect_measurements': [['harness.c18_meas', 'm_steps']],
                                   'output_filename': 'c2.pkl'})
            if not r.get('finished_run') or abs(r['measurements']['evolved_time'][-1] - 0.25) > 1e-9:
                out.append(('resume-after-abort', repr(r['measurements'].get('evolved_time'))))
    except Exception:
        out.append(('no-loadable-checkpoint-after-abort', traceback.format_exc()[-400:]))
    return out


def s_sequential(rng):
    """run_seq_simulations: one file per value; the state (resume_data) is handed from one simulation to the next:
    the initial measurement of simulation i is taken in the final state of simulation i-1 and its result equals a
    direct engine run from that state; interrupted + resumed sequence == uninterrupted sequence"""
    from tenpy.simulations import simulation
    from tenpy.models.xxz_chain import XXZChain
    from tenpy.algorithms import dmrg
    out = []
    vals = sorted(rng.sample([0.5, 1.0, 1.5, 2.0, 2.5], 3))
    p = gs_base(rng, L=rng.choice([4, 6]), sweeps=2, output_filename='seq.pkl')
    p['model_params']['Jz'] = vals
    seq = dict(recursive_keys=['model_params.Jz'])
    d1 = os.getcwd()
    with count_saves(copy_to='ck%d.pkl') as c:
        allres = simulation.run_seq_simulations(copy.deepcopy(seq), collect_results_in_memory=True,
                                                **copy.deepcopy(p))
    names = ['seq_Jz_%s.pkl' % v for v in vals]
    have = [x for x in _listing() if x.startswith('seq')]
    if have != sorted(names):
        out.append(('wrong-files', 'expected %r, have %r' % (sorted(names), have)))
        return out
    files = [_load(n) for n in names]
    for i in range(1, len(vals)):
        mp = dict(p['model_params'], Jz=vals[i])
        M = XXZChain(mp)
        psi_prev = files[i - 1]['psi']
        E0 = float(np.real(M.H_MPO.expectation_value(psi_prev)))
        got = float(files[i]['measurements']['energy_MPO'][0])
        if abs(E0 - got) > 1e-9:
            out.append(('state-not-handed-over', 'sim %d: initial energy %r, <psi_prev|H|psi_prev> = %r' % (i, got, E0)))
        eng = dmrg.TwoSiteDMRGEngine(psi_prev.copy(), M, copy.deepcopy(p['algorithm_params']))
        E, _ = eng.run()
        if abs(E - files[i]['energy']) > 1e-9:
            out.append(('sequential-run-differs-from-direct-run', 'sim %d: %r vs %r' % (i, files[i]['energy'], E)))
    # interrupt simulation 1 at its first checkpoint, resume the sequence elsewhere
    per = c.n // len(vals)
    ck = 'ck%d.pkl' % (per + 1)
    d2 = os.path.join(d1, 'resumed')
    os.mkdir(d2)
    shutil.copy(ck, os.path.join(d2, names[1]))
    os.chdir(d2)
    try:
        with warnings.catch_warnings():
            warnings.simplefilter('ignore')
            last = simulation.resume_from_checkpoint(filename=names[1],
                                                     update_sim_params={'sequential.base_directory': d2})
        if sorted(os.listdir(d2)) != sorted(names[1:]):
            out.append(('resumed-sequence-wrong-files', repr(sorted(os.listdir(d2)))))
        else:
            for n_, ref in zip(names[1:], files[1:]):
                r = _load(n_)
                d = _same_series(ref['measurements'], r['measurements'])
                if d or abs(r['energy'] - ref['energy']) > 1e-9:
                    out.append(('resumed-sequence-differs', '%s: %s / E %r vs %r' % (n_, d, r['energy'], ref['energy'])))
    finally:
        os.chdir(d1)
    return out


def s_post_processing(rng):
    """post_processing steps: result stored under results_key, a second result under the same key gets `_1`, a step
    returning None stores nothing, a failing step is recorded in errors_during_run and the results are still saved"""
    out = []
    pp = [['harness.c18_meas', 'pp_energy_span', {'key': 'energy_MPO', 'results_key': 'c18_span'}],
          ['harness.c18_meas', 'pp_energy_span', {'key': 'energy_MPO', 'results_key': 'c18_span'}],
          ['harness.c18_meas', 'pp_none'],
          ['harness.c18_meas', 'pp_raises']]
    p = gs_base(rng, sweeps=2, output_filename='pp.pkl', post_processing=pp)
    try:
        with warnings.catch_warnings():
            warnings.simplefilter('ignore')
            _run(p)
        out.append(('errors-not-reported', ''))
    except Exception as e:
        if 'pp.pkl' not in str(e):
            out.append(('unexpected-exception', repr(e)[:300]))
    r = _load('pp.pkl')
    E = np.asarray(r['measurements']['energy_MPO'], dtype=float)
    span = float(E.max() - E.min())
    if not r.get('finished_run') or abs(r.get('c18_span', -1) - span) > 1e-12 or abs(r.get('c18_span_1', -1) - span) > 1e-12:
        out.append(('wrong-results', repr({k: r.get(k) for k in ('c18_span', 'c18_span_1', 'finished_run')})))
    if 'pp_none' in r or not any(e[0] == 'post_process' for e in r.get('errors_during_run', [])):
        out.append(('error-not-recorded', repr(sorted(r))))
    return out


def s_bad_options(rng):
    """invalid option values are refused before anything is written over existing results"""
    from tenpy.simulations import simulation
    out = []
    with open('a.pkl', 'wb') as f:
        f.write(b'old')
    for kw, exc in ((dict(group_sites=0), ValueError),):
        p = te_base(rng, n=1, output_filename='a.pkl', overwrite_output=True, **kw)
        try:
            _run(p)
            out.append(('accepted', repr(kw)))
        except exc:
            pass
        if open('a.pkl', 'rb').read() != b'old':
            out.append(('old-results-lost', repr(kw)))
    p = gs_base(rng, sweeps=1)
    p['model_params']['Jz'] = [1.0, 2.0]
    p['algorithm_params']['trunc_params']['chi_max'] = [4, 5, 6]
    for seq, kw in ((dict(recursive_keys=['model_params.Jz', 'algorithm_params.trunc_params.chi_max']), dict(output_filename='s.pkl')),
                    (dict(recursive_keys=['model_params.Jz']), dict())):
        try:
            simulation.run_seq_simulations(copy.deepcopy(seq), **copy.deepcopy(dict(p, **kw)))
            out.append(('bad-sequential-accepted', repr(seq)))
        except ValueError:
            pass
    return out


def s_trunc_err_measurement(rng):
    """a measurement holding TruncationError objects is stored as `<key>_eps` / `<key>_ov` arrays; resuming must
    continue these series like the plain run"""
    from tenpy.simulations import simulation
    out = []
    meas = [['harness.c18_meas', 'm_steps'], ['harness.c18_meas', 'm_trunc_err']]
    p = te_base(rng, L=6, n=3, output_filename='t.pkl', connect_measurements=meas)
    p['algorithm_params']['trunc_params']['chi_max'] = 2
    with count_saves(copy_to='ck%d.pkl'):
        _run(p)
    plain = _load('t.pkl')
    if 'c18_terr_eps' not in plain['measurements'] or 'c18_terr' in plain['measurements']:
        out.append(('not-converted', repr(sorted(plain['measurements']))))
        return out
    k = rng.choice([1, 2])
    simulation.resume_from_checkpoint(filename='ck%d.pkl' % k, update_sim_params={'output_filename': 'r.pkl'})
    r = _load('r.pkl')
    d = _same_series(plain['measurements'], r['measurements'])
    if d:
        out.append(('resume-differs', 'from checkpoint %d: %s' % (k, d)))
    return out


SCENARIOS = [s_filename_params, s_existing_no_overwrite, s_skip_if_exists, s_overwrite, s_no_output, s_endings,
             s_directory, s_save_every, s_save_psi_false, s_entry_points, s_abort_signal, s_estimate_ram,
             s_listener_order, s_bad_measurement, s_sequential, s_post_processing, s_bad_options,
             s_trunc_err_measurement]


def run_scenario(job):
    import random
    import logging
    warnings.simplefilter('ignore')
    logging.disable(logging.CRITICAL)
    import tenpy.tools.misc
    tenpy.tools.misc.skip_logging_setup = True
    name, seed = job
    f = dict((s.__name__, s) for s in SCENARIOS)[name]
    rng = random.Random('C18-options:%s:%s' % (name, seed))
    d = tempfile.mkdtemp(prefix='verif-c18o-')
    cwd = os.getcwd()
    old = signal.getsignal(signal.SIGINT)
    try:
        os.chdir(d)
        try:
            problems = f(rng)
        except BaseException:
            problems = [('scenario-raised', traceback.format_exc()[-1500:])]
        return dict(name=name, seed=seed, problems=problems)
    finally:
        signal.signal(signal.SIGINT, old)
        os.chdir(cwd)
        shutil.rmtree(d, ignore_errors=True)


def run(ctx, res, pool, only=None):
    reps = 1 if ctx.quick else 6
    jobs = [(s.__name__, '%d:%d' % (ctx.seed, r)) for r in range(reps) for s in SCENARIOS
            if only is None or s.__name__ == only]
    for r in pool.map(run_scenario, jobs, chunksize=1):
        case = dict(part='options', scenario=r['name'], seed=r['seed'])
        res.note_case(case, nontrivial=True)
        res.count('options.' + r['name'])
        for suffix, detail in r['problems']:
            res.fail('property', 'options.%s.%s' % (r['name'][2:], suffix), detail, case)
    return res
