"""C01 — block-sparse tensor algebra agrees with dense numpy algebra."""
import copy
import os
from concurrent.futures import ThreadPoolExecutor

# parent process (program typing only): never use the possibly stale in-tree binary
os.environ.setdefault('TENPY_NO_CYTHON', '1')

from vlib import arrio, core, twoconf  # noqa: E402

PROP = 'C01'
MODEL_MODULES = ['TenpyModel.Util.J', 'TenpyModel.Core.ArrCodec']
PROPS_MODULES = ['TenpyModel.C01.PropsLabels', 'TenpyModel.C01.Props', 'TenpyModel.C01.PropsSort', 'TenpyModel.C01.PropsMerge', 'TenpyModel.C01.PropsWrappers', 'TenpyModel.C01.PropsA', 'TenpyModel.C01.PropsB', 'TenpyModel.C01.PropsB2', 'TenpyModel.C01.PropsC']
LEVEL = 'proof'
BUDGET = {'quick': 175, 'thorough': 1700}
RULE = ('random *programs* (1-8 steps quick, 1-20 thorough) over the public tensor operations, typed by executing '
        'them on the tree under test; operands: rank 1-6 (bounded dense size), 0-3 charges with mod 1..5, both leg '
        'directions, blocked / sorted-with-duplicates / arbitrary legs, length-0 legs and size-0 blocks, each '
        'admissible block stored w.p. 0.7, all-zero blocks, qtotal != 0, shuffled block order, dtypes '
        'int64/float64/complex128/float32/complex64 with small (Gaussian-)integer entries, colliding / conjugated / '
        'pipe labels; ~12 % intentionally malformed calls. 2 of 11 programs (quick; 1 of 11 thorough) come from a '
        'dedicated HIGH-RANK FUSION stream: one tensor of rank 5-7 over small legs (1-3 blocks of size 1-2 over few '
        'charges, duplicate sectors, dense size <= 500) -> [transpose] -> combine_legs of random groups (trailing axes, '
        '1-3 groups at once, explicit / negative new_axes, qconj) -> split_legs / transpose + split_legs / tensordot '
        'with the conjugate over the pipes / nested combine_legs. Every program runs on the real code under both kernel '
        'configurations (fresh compiled build, TENPY_NO_CYTHON=1). Verdict: numpy applied to to_ndarray() of the '
        'operands + documented label rules (model-free oracle). Correspondence: Lean model Arr vs implementation on '
        'dense result, labels, qtotal, every leg (nested pipes, flags), canonicalised block list, _qdata_sorted, '
        'error class. Non-trivial: some operand leg has >=2 blocks and >=1 charge and some step stores a block; '
        'distinct by content hash.')
TRUSTED = ['Lean 4.33 kernel; axioms of every C01_* theorem ⊆ {propext, Classical.choice, Quot.sound}',
           'hand-written model lean/TenpyModel/Core/{Dense,Arr,ArrOps,ArrDot,ArrLabel}.lean tied to '
           'tenpy/linalg/np_conserved.py + _npc_helper.pyx by this correspondence run (exact diff, both kernels)',
           'numpy dense operations on to_ndarray() (the oracle); serialiser vlib/arrio.py; numpy lexsort stable']
ASSUMPTIONS = ['products/sums of the generated small integers are exact in every dtype used (|entries| < 2^20)',
               'single-block numpy calls (transpose, reshape, tensordot, trace) = ring-level Dense functions']

QUICK_CASES = 1650
THOROUGH_CASES = 12000


# --------------------------------------------------------------------------------------------- generation

_GEN = None


def generator():
    global _GEN
    if _GEN is None:
        from harness.c01_gen import ProgGen
        from harness.c01_worker import Executor
        _GEN = ProgGen(Executor())
    return _GEN


def gen_cases(ctx, tag, n, max_steps):
    import random
    g = generator()
    out = []
    for i in range(n):
        rng = random.Random(f'C01:{ctx.seed}:{tag}:{i}')   # the same stream for C01 and C04
        g.ex.io.set_default_names(None)
        try:
            # 2 of 11 programs (18 %) of the quick tier, 1 of 11 of the thorough tier: high-rank fusion stream
            if i % 11 == 0 or (ctx.quick and i % 11 == 5):
                c = g.gen_fusion_case(rng, max_steps)
            elif i % 11 == 7 or (ctx.quick and i % 11 == 9):
                # 2 of 11 (quick) / 1 of 11 (thorough): coverage stream of rarely emitted public operations
                c = g.gen_coverage_case(rng, max_steps)
            elif i % 11 == 3:
                # 1 of 11 programs: nested pipes with anonymous legs inside, split level by level (label algebra)
                c = g.gen_nested_label_case(rng, max_steps)
            else:
                c = g.gen_case(rng, max_steps)
        except Exception:
            continue
        c['id'] = f'{tag}:{i}'
        if c.get('operands') and c['operands'][0].get('names') and 'names' not in c:
            c['names'] = c['operands'][0]['names']     # default charge names of every leg built by the program
        if c['steps']:
            out.append(c)
    return out


# --------------------------------------------------------------------------------------------- model input

LEAN_DROP = {'via', 'malformed', 'what', 'dtype', 'deep', 'src_dtype'}
KERNEL_SENSITIVE = {'iadd_prefactor_other', 'tensordot'}   # the steps whose model takes the kernel parameter


def lean_arr(d):
    out = {k: d[k] for k in ('mods', 'legs', 'qtotal', 'labels', 'qdata', 'blocks', 'sorted')}
    if d.get('names') is not None:
        out['names'] = d['names']
    return out


def lean_line(case, out, cfg):
    """Model input for one case, from the inputs *as constructed* by the worker of configuration `cfg`."""
    steps = []
    for st, rec in zip(case['steps'], out['steps']):
        s = {k: v for k, v in st.items() if k not in LEAN_DROP}
        built = rec.get('built', {})
        if 'legs' in built:
            s['legs'] = built['legs']
        if 'pipes' in built:
            s['pipes'] = built['pipes']
        if built.get('error'):
            s = dict(op='fixed_error', error=built['error'], **{'in': st.get('in', [])})
        if st['op'] == 'spec':
            arr = rec.get('res', {}).get('arr')
            s['inject'] = lean_arr(arr) if arr else None
            if st.get('kind') == 'inject':      # oracle-only operation: the model just binds the injected result
                s['kind'] = 'same'
                s['ins_sorted'] = rec.get('ins')
        if st['op'] == 'iadd_prefactor_other' and st.get('via') in ('__add__', 'iadd'):
            s['p'] = 1
        if st['op'] == 'iadd_prefactor_other' and st.get('via') in ('__sub__', 'isub'):
            s['p'] = -1
        steps.append(s)
    return dict(scalar=case.get('scalar', 'int'), kernel=cfg, operands=[lean_arr(d) for d in out['operands']],
                steps=steps)


def run_model(lines, nproc=8):
    if not lines:
        return []
    chunks = [lines[i::nproc] for i in range(nproc)]
    with ThreadPoolExecutor(max_workers=nproc) as ex:
        parts = list(ex.map(lambda ch: core.run_driver('C01', ch) if ch else [], chunks))
    res = [None] * len(lines)
    for i, part in enumerate(parts):
        for k, r in enumerate(part):
            res[i + k * nproc] = r
    return res


# --------------------------------------------------------------------------------------------- comparison

ARR_KEYS = ['mods', 'legs', 'qtotal', 'labels', 'qdata', 'blocks', 'sorted', 'dense']


def first_diff(a, b, path=''):
    if type(a) != type(b):
        return f'{path}: {a!r} vs {b!r}'[:300]
    if isinstance(a, dict):
        for k in sorted(set(a) | set(b)):
            if a.get(k) != b.get(k):
                return first_diff(a.get(k), b.get(k), path + '.' + str(k))
    if isinstance(a, list) and len(a) == len(b):
        for i, (x, y) in enumerate(zip(a, b)):
            if x != y:
                return first_diff(x, y, f'{path}[{i}]')
    return f'{path}: {a!r} vs {b!r}'[:300]


def names_compatible(a, b):
    """ChargeInfo.__eq__ on the names: equal up to missing ('') names"""
    return len(a) == len(b) and all(x == y or x == '' or y == '' for x, y in zip(a, b))


def impl_view(rec):
    """Canonical, dtype-free view of what the implementation did in a step."""
    r = rec.get('res', {})
    if 'arr' in r:
        if r['arr'] is None:
            return {'nonint': True}
        c = arrio.canon(r['arr'])
        v = {'arr': {k: c[k] for k in ARR_KEYS}}
    elif 'error' in r:
        v = {'error': r['error']}
    elif 'skipped' in r:
        v = {'skipped': True}
    elif 'nat' in r:
        v = {'nat': r['nat']}
    else:
        v = {'scalar': r.get('scalar')}
    if rec.get('extra'):
        v['extra'] = rec['extra']
    v['ins'] = rec.get('ins')
    return v


def diff_model(st, rec, m):
    """None when model and implementation agree on the step, else (what, detail)."""
    v = impl_view(rec)
    if 'driver_error' in m:
        return ('driver-error', m['driver_error'])
    if 'skipped' in v or 'skipped' in m:
        return None if ('skipped' in v) == ('skipped' in m) else ('skipped', f'impl {v} model {m}')
    if 'nonint' in v:
        return ('non-integer-values', 'implementation produced non-integer entries')
    if st['op'] == 'spec' and 'error' in v:
        return None
    if 'error' in v or 'error' in m:
        if v.get('error') != m.get('error'):
            return ('error-class', f'impl {v.get("error", "no error")} ({rec.get("res", {}).get("msg", "")}) '
                                   f'vs model {m.get("error", "no error")}')
        return None
    if st['op'] == 'spec' and ('error' in v or st.get('kind') == 'inject'):
        return None      # dense-level specification only: validity of the call is judged by the numpy oracle
    if st['op'] == 'spec':
        got = rec['res'].get('arr', {}).get('dense') if 'arr' in rec['res'] else None
        if got is not None and m.get('dense') != got:
            return ('spec-dense', first_diff(got, m.get('dense')))
        if got is None and 'scalar' in rec['res']:
            md = m.get('dense', {})
            if md.get('vals') != [rec['res']['scalar']]:
                return ('spec-scalar', f'{rec["res"]["scalar"]} vs {md}')
        return None
    if 'arr' in v:
        if 'arr' not in m:
            return ('kind', f'impl returned a tensor, model {list(m)}')
        if m['arr'].get('dense_spec_mismatch'):
            return ('model-toDense-vs-toDenseFast', 'the specification toDense and its fast evaluation differ')
        for k in ARR_KEYS:
            if v['arr'][k] != m['arr'].get(k):
                return (k, first_diff(v['arr'][k], m['arr'].get(k), k))
        impl_names = rec['res']['arr'].get('names')
        if impl_names is not None and m.get('names') is not None and not names_compatible(impl_names, m['names']):
            return ('names', f'charge names {impl_names} vs model {m["names"]}')
    elif 'nat' in v:
        if v['nat'] != m.get('nat'):
            return ('value', f'{v["nat"]} vs {m.get("nat")}')
    else:
        if v.get('scalar') != m.get('scalar'):
            return ('value', f'{v.get("scalar")} vs {m.get("scalar")}')
    if v.get('extra', {}).get('perms') is not None and v['extra']['perms'] != m.get('perms'):
        return ('perms', first_diff(v['extra']['perms'], m.get('perms')))
    if v['ins'] is not None and m.get('ins') is not None and v['ins'] != m['ins']:
        return ('operand-sorted-flag', f'_qdata_sorted of inputs after the step: impl {v["ins"]} model {m["ins"]}')
    return None


def opname(st):
    return st['what'] if st['op'] == 'spec' else st['op']


def case_nontrivial(case, out):
    legs_ok = any(len(l['charges']) >= 2 and len(l['mods']) >= 1 for d in case['operands'] for l in d['legs'])
    stored = any(r.get('res', {}).get('arr') and r['res']['arr']['qdata'] for r in out.get('steps', []))
    return legs_ok and stored


def statistics(res, cases, outs):
    from vlib import arrgen
    for case, out in zip(cases, outs):
        res.count('program_len=%d' % len(case['steps']))
        res.count('stream=' + case.get('stream', 'general'))
        res.count('scalar=' + case.get('scalar', 'int'))
        res.count('ncharges=%d' % len(case.get('mods', [])))
        for d in case['operands']:
            res.count('dtype=' + d['dtype'])
            res.count('rank=%d' % len(d['legs']))
            st = d.get('_stats', {})
            res.extra['blocks_admissible'] = res.extra.get('blocks_admissible', 0) + st.get('admissible', 0)
            res.extra['blocks_missing'] = res.extra.get('blocks_missing', 0) + st.get('missing', 0)
            for l in d['legs']:
                ls = arrgen.leg_stats(l)
                res.extra['legs_total'] = res.extra.get('legs_total', 0) + 1
                for k in ('unsorted', 'dup', 'empty'):
                    if ls[k]:
                        res.extra['legs_' + k] = res.extra.get('legs_' + k, 0) + 1
        for st, rec in zip(case['steps'], out.get('steps', [])):
            res.count('op=' + opname(st))
            if st.get('malformed'):
                res.count('malformed_calls')
            r = rec.get('res', {})
            if 'error' in r:
                res.count('error=' + r['error'])
                res.count('calls_error')
            elif 'skipped' not in r:
                res.count('calls_ok')
            if rec.get('dtype'):
                res.count('result_dtype=' + rec['dtype'])


# --------------------------------------------------------------------------------------------- evaluation

def execute(ctx, cases, configs=('cy', 'py'), use_model=True):
    """Run the cases on the real code (both kernels) and on the model. Returns (runs, models)."""
    nproc = 8 if ctx.quick else 14
    runs = twoconf.run('harness.c01_worker', cases, configs=configs, nproc=min(nproc, max(1, len(cases))))
    models = {}
    if use_model:
        # one driver pass for both configurations. The model is a function of its input line, and the `kernel`
        # field is read by iadd_prefactor_other and tensordot only (lean/drivers/C01.lean): a program without these
        # steps whose inputs were constructed identically in both configurations is evaluated once.
        import json
        lines, keys, where = [], {}, []
        for cfg in configs:
            models[cfg] = {}
            for i, case in enumerate(cases):
                out = runs[cfg]['results'][i]
                if out and 'crash' not in out:
                    line = lean_line(case, out, cfg)
                    sens = any(s.get('op') in KERNEL_SENSITIVE for s in line['steps'])
                    key = json.dumps({k: v for k, v in line.items() if sens or k != 'kernel'}, sort_keys=True)
                    if key not in keys:
                        keys[key] = len(lines)
                        lines.append(line)
                    where.append((cfg, i, keys[key]))
        mo = run_model(lines, nproc=nproc)
        for cfg, i, k in where:
            models[cfg][i] = mo[k]
    return runs, models


def judge_c01(res, cases, runs, models, configs):
    """C01 verdicts: oracle findings = property failures; model vs implementation = correspondence."""
    ref = configs[0]
    for i, case in enumerate(cases):
        out_ref = runs[ref]['results'][i]
        res.note_case(dict(id=case.get('id'), operands=len(case['operands']), steps=[opname(s) for s in case['steps']]),
                      nontrivial='crash' not in out_ref and case_nontrivial(case, out_ref))
        seen = set()
        flagged_steps = set()
        for cfg in configs:
            out = runs[cfg]['results'][i]
            if 'crash' in out:
                res.fail('correspondence', 'c01.worker-crash', f'[{cfg}] ' + out['crash'][-600:], minimal(case))
                continue
            for k, (st, rec) in enumerate(zip(case['steps'], out['steps'])):
                if 'crash' in rec:
                    res.fail('correspondence', f'c01.{opname(st)}.oracle-crash', f'[{cfg}] ' + rec['crash'][-500:],
                             slice_case(case, k))
                r = rec.get('res', {})
                if 'error' in r and st.get('sure') and rec.get('numpy_accepts') and not r['error'].startswith('Crash'):
                    sig = f'c01.{opname(st)}.raises-on-valid-call.{r["error"]}' + refine(st, case, out)
                    rec.setdefault('oracle', []).append([sig, r.get('msg', '')])
                for sig, detail in rec.get('oracle', []):
                    flagged_steps.add(k)
                    if sig not in seen:
                        seen.add(sig)
                        res.fail('property', sig, f'[{cfg}] step {k} {describe(st)}: {detail}', slice_case(case, k))
        for cfg in configs:
            out = runs[cfg]['results'][i]
            m = models.get(cfg, {}).get(i)
            if m is None or 'crash' in out:
                continue
            if 'steps' not in m:
                res.fail('correspondence', 'c01.model-driver', str(m)[:400], minimal(case))
                continue
            res.traces_validated += 1
            for k, (st, rec, ms) in enumerate(zip(case['steps'], out['steps'], m['steps'])):
                d = diff_model(st, rec, ms)
                if d and k not in flagged_steps:
                    res.fail('correspondence', f'c01.model-vs-impl.{opname(st)}.{d[0]}',
                             f'[{cfg}] step {k} {describe(st)}: {d[1]}', slice_case(case, k))
                    break
                if d:
                    break    # later steps depend on a value the oracle already rejected


def input_dumps(st, case, out):
    n0 = len(case['operands'])
    for v in st.get('in', []):
        d = out['operands'][v] if v < n0 else out['steps'][v - n0].get('res', {}).get('arr')
        if d:
            yield d


def refine(st, case=None, out=None):
    """call-site detail that makes a signature specific"""
    if st.get('what') == 'cov_add_charge' and case is not None:
        if any(not l['charges'] for d in input_dumps(st, case, out) for l in d['legs']):
            return ':leg-without-blocks'
    if st.get('what') == 'cov_detect_legcharge' and case is not None:
        if any(len(d['legs']) == 1 for d in input_dumps(st, case, out)):
            return ':rank-1'
    if st['op'] == 'squeeze' and case is not None:
        if any(0 in b['shape'] for d in input_dumps(st, case, out) for b in d['blocks']):
            return ':stored-block-of-size-0'
    if st['op'] == 'spec' and st.get('what', '').startswith('setitem'):
        for i in st.get('inds', []):
            if isinstance(i, dict) and 'ints' in i and i['ints'] != sorted(i['ints']):
                return ':unsorted-index-array'
            if isinstance(i, dict) and 'slice' in i and (i['slice'][2] or 1) < 0:
                return ':unsorted-index-array'
    return ''


def describe(st):
    return str({k: v for k, v in st.items() if k not in ('dense', 'legs', 'src', 'pipes', 'inject')})[:300]


def minimal(case):
    return {k: v for k, v in case.items()}


def slice_case(case, k):
    """Dependency slice: the operands and exactly the steps that step `k` depends on (renumbered)."""
    n0 = len(case['operands'])
    need_steps, todo = set(), [k]
    need_ops = set()
    while todo:
        s = todo.pop()
        if s in need_steps:
            continue
        need_steps.add(s)
        for v in case['steps'][s].get('in', []):
            if v >= n0:
                todo.append(v - n0)
            else:
                need_ops.add(v)
    ops = sorted(need_ops)
    steps = sorted(need_steps)
    remap = {v: i for i, v in enumerate(ops)}
    for j, s in enumerate(steps):
        remap[n0 + s] = len(ops) + j
    new = dict(case, operands=[case['operands'][v] for v in ops], steps=[])
    for s in steps:
        st = copy.deepcopy(case['steps'][s])
        if 'in' in st:
            st['in'] = [remap[v] for v in st['in']]
        if st['op'] == 'spec' and st.get('kind') == 'grid_outer':
            pass
        new['steps'].append(st)
    new['id'] = str(case.get('id')) + f'/slice{k}'
    return new


ANCHOR_COVERAGE_NOTE = (
    'coverage round 2026-09-26 (coverage 7, quick-tier stream of 1100 programs run through harness.c01_worker with '
    'TENPY_NO_CYTHON=1, line+branch): np_conserved.py 63% -> 73%, charges.py 58% -> 63% (total 62% -> 70%); scoped to '
    'C01 (without the factorizations of C05, HDF5/pickle and dipolar shifts of C17/C19, string output and the dead '
    'private _bunch/_perm_qind): np_conserved.py 81.1% -> 94.1% of statements, charges.py 75.4% -> 82.8%. Newly '
    'exercised: from_ndarray_trivial, from_ndarray(qtotal=None / raise_wrong_sector=False), from_func (all call forms), '
    'from_func_square, ones, eye_like, diag, replace_label(s)/ireplace_label(s)/idrop_labels/has_label, __truediv__/'
    '__itruediv__, __eq__, matvec, add_charge, as_completely_blocked/is_completely_blocked, apply_charge_mapping, '
    'element and tensor assignment, Ellipsis / short index tuples, 2D grid_concat (with None), concatenate(copy=False), '
    'detect_qtotal / detect_legcharge / detect_grid_outer_legcharge, norm(ndarray | list | ord=1), extend(LegCharge), '
    'scale_axis/iproject/permute/take_slice/sort_legcharge on pipe legs, qconj lists + negative new_axes, legs equal up '
    'to flip_charges_qconj. Remaining unexecuted lines are error-raising argument checks and optional chinfo= arguments.')


def finish_stats(res, entered):
    res.extra['anchor_coverage_note'] = ANCHOR_COVERAGE_NOTE
    res.extra['kernel_function_entries'] = entered
    tot = res.extra.get('legs_total', 0) or 1
    res.extra['fraction_legs_unsorted'] = round(res.extra.get('legs_unsorted', 0) / tot, 3)
    res.extra['fraction_legs_duplicated'] = round(res.extra.get('legs_dup', 0) / tot, 3)
    res.extra['fraction_legs_empty'] = round(res.extra.get('legs_empty', 0) / tot, 3)
    res.extra['fraction_missing_blocks'] = round(res.extra.get('blocks_missing', 0) / (res.extra.get('blocks_admissible', 0) or 1), 3)
    ok, err = res.hist.get('calls_ok', 0), res.hist.get('calls_error', 0)
    res.extra['fraction_valid_calls'] = round(ok / ((ok + err) or 1), 3)
    res.extra['error_kinds_hit'] = sorted(k[6:] for k in res.hist if k.startswith('error='))


def evaluate(ctx, cases, use_model=True, configs=('cy', 'py'), judge=None, res=None, entered=None):
    """Run `cases` and judge them; accumulates into `res` (statistics included)."""
    res = res if res is not None else core.Result()
    entered = entered if entered is not None else {}
    if not cases:
        return res
    runs, models = execute(ctx, cases, configs, use_model)
    (judge or judge_c01)(res, cases, runs, models, configs)
    statistics(res, cases, [runs[configs[0]]['results'][i] for i in range(len(cases))])
    for cfg in configs:
        cnt = entered.setdefault(cfg, {})
        for out in runs[cfg]['results']:
            for f in out.get('entered', []):
                cnt[f] = cnt.get(f, 0) + 1
    finish_stats(res, entered)
    return res


def corpus_cases(prop=PROP):
    import json
    out = []
    d = core.CORPUS_DIR / prop
    if d.exists():
        for f in sorted(d.glob('*.json')):
            c = json.loads(f.read_text())
            out.append(c.get('case', c))
    return out


def run_stream(ctx, judge=None, prop=PROP, tag='main', use_model=True, frac=0.62):
    """Corpus first, then batches of generated programs until the case budget or ~`frac` of the time budget is
    used (the batch sequence is a deterministic function of the seed: `(seed, tag, index)` replays)."""
    res, entered = core.Result(), {}
    n_max = QUICK_CASES if ctx.quick else THOROUGH_CASES
    # quick: 2 batches of 550 = 50 x 11 programs (100 of each from the high-rank fusion stream). Measured on a loaded
    # machine (load average > 100 on 16 cores): a batch costs ~15-20 s of start-up (16 worker interpreters importing
    # tenpy, the Lean drivers) however small it is, and only ~1 s per 100 programs on top; with 4 batches of 275 the
    # quick tier spent most of its budget on start-up and was cut after 1-2 batches under load. The first batch always
    # completes, the second one is started if the budget allows.
    batch = 550 if ctx.quick else 1500
    max_steps = 8 if ctx.quick else 20
    cases = corpus_cases(prop)
    done, k = 0, 0
    import time
    while True:
        t0 = time.time()
        new = gen_cases(ctx, f'{tag}{k}', min(batch, n_max - done), max_steps)
        evaluate(ctx, cases + new, use_model=use_model, judge=judge, res=res, entered=entered)
        done += len(new)
        k += 1
        cases = []
        dt = time.time() - t0
        if done >= n_max or ctx.elapsed() + 1.15 * dt > frac * ctx.budget_s:
            break
    res.extra['batches'] = k
    return res


def shrink_variants(case):
    """smaller versions of a case: fewer stored blocks per operand, entries replaced by 0/1, shorter legs are not
    attempted (leg shapes are shared between operands)"""
    out = []
    for k, d in enumerate(case['operands']):
        nb = len(d.get('blocks', []))
        if nb > 1:
            for keep in ([b for i, b in enumerate(d['blocks']) if i % 2 == 0], [b for i, b in enumerate(d['blocks']) if i % 2 == 1],
                         d['blocks'][:1], d['blocks'][-1:]):
                v = copy.deepcopy(case)
                v['operands'][k]['blocks'] = copy.deepcopy(keep)
                out.append(v)
        if nb >= 1:
            v = copy.deepcopy(case)
            for b in v['operands'][k]['blocks']:
                b['vals'] = [1 if (x != 0) else 0 for x in b['vals']] if not any(isinstance(x, list) for x in b['vals']) else b['vals']
            if v != case:
                out.append(v)
    return out


def shrink(ctx, res, judge, max_new=2, rounds=2):
    """Shrink the first few *new* property failures (not listed as known findings): the case is already the
    dependency slice of the failing step; here blocks are dropped / entries simplified while the same signature
    keeps failing. One batch of variants per round."""
    known = {k['signature'] for k in core.load_known_findings() if k.get('status', 'open') == 'open'}
    done = 0
    for f in res.failures:
        if f.kind != 'property' or f.signature in known or done >= max_new or not isinstance(f.case, dict):
            continue
        done += 1
        for _ in range(rounds):
            variants = shrink_variants(f.case)
            if not variants:
                break
            r = core.Result()
            try:
                runs, models = execute(ctx, variants, ('cy', 'py'), use_model=False)
                (judge or judge_c01)(r, variants, runs, models, ('cy', 'py'))
            except Exception:
                break
            same = [x for x in r.failures if x.signature == f.signature and isinstance(x.case, dict)]
            if not same:
                break
            best = min(same, key=lambda x: sum(len(d.get('blocks', [])) for d in x.case['operands']))
            f.case, f.detail = best.case, best.detail
    return res


def run(ctx):
    return shrink(ctx, run_stream(ctx), None)


def search(ctx, reasons):
    return run_stream(ctx, tag='search', use_model=False, frac=0.95)


def replay(ctx, payload):
    return evaluate(ctx, [payload['case']])
