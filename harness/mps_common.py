"""Shared helpers of the C07/C08/C09 harnesses: site pool, state generators (every MPS constructor), serialisation of
an MPS for the Lean driver (IEEE bit patterns), independent dense numpy reference implementations.

Everything random comes from a `random.Random` handed in by the caller; numpy generators are seeded from it, so a case
description (a small JSON dict with its own integer seed) replays exactly.
"""
import itertools
import warnings
from fractions import Fraction

import numpy as np

HALF = {'A': (2, 0), 'B': (0, 2), 'C': (1, 1), 'G': (0, 0), 'Th': (2, 2)}


# ----------------------------------------------------------------------------------------------------------------
# numbers on the wire


def bits(x):
    """float64 array -> list of IEEE bit patterns (python ints)."""
    return np.ascontiguousarray(np.asarray(x, dtype=np.float64)).view(np.uint64).ravel().tolist()


def unbits(lst):
    return np.array(lst, dtype=np.uint64).view(np.float64)


def enc_flat(arr):
    arr = np.asarray(arr)
    d = {'re': bits(arr.real)}
    d['im'] = bits(arr.imag) if np.iscomplexobj(arr) else None
    return d


def enc_scalar(z):
    z = complex(z)
    return [bits([z.real])[0], bits([z.imag])[0]]


def dec_list(d, exact=False):
    """{'re': [...], 'im': [...]} from the driver -> complex ndarray (float mode) or list of (Fraction, Fraction)."""
    if exact:
        return [(Fraction(a), Fraction(b)) for a, b in zip(d['re'], d['im'])]
    return unbits(d['re']) + 1j * unbits(d['im'])


def dec_scalar(v, exact=False):
    if exact:
        return (Fraction(v[0]), Fraction(v[1]))
    return complex(unbits([v[0]])[0], unbits([v[1]])[0])


def frac_c(z):
    z = complex(z)
    return (Fraction(z.real), Fraction(z.imag))


# ----------------------------------------------------------------------------------------------------------------
# sites

SITE_KINDS = [
    ('SpinHalf', None), ('SpinHalf', 'Sz'), ('SpinHalf', 'parity'),
    ('Spin1', None), ('Spin1', 'Sz'), ('Spin1', 'parity'), ('Spin32', 'Sz'),
    ('Fermion', None), ('Fermion', 'N'), ('Fermion', 'parity'),
    ('Boson2', None), ('Boson2', 'N'), ('Boson2', 'parity'), ('Boson1', 'N'),
    ('SHFermion', (None, None)), ('SHFermion', ('N', 'Sz')), ('SHFermion', ('parity', 'Sz')),
    ('SHFermion', ('N', None)), ('SHFermion', ('parity', 'parity')),
]


def make_site(kind, cons):
    from tenpy.networks import site as S
    if kind == 'SpinHalf':
        return S.SpinHalfSite(conserve=cons)
    if kind == 'Spin1':
        return S.SpinSite(S=1.0, conserve=cons)
    if kind == 'Spin32':
        return S.SpinSite(S=1.5, conserve=cons)
    if kind == 'Fermion':
        return S.FermionSite(conserve=cons)
    if kind == 'Boson2':
        return S.BosonSite(Nmax=2, conserve=cons)
    if kind == 'Boson1':
        return S.BosonSite(Nmax=1, conserve=cons)
    if kind == 'SHFermion':
        return S.SpinHalfFermionSite(cons_N=cons[0], cons_Sz=cons[1])
    raise ValueError(kind)


# groups of site kinds that can share a chain: list of (kind, cons) whose sites get a common ChargeInfo through
# set_common_charges (mixed) or that simply have no charges.
def site_spec_choices():
    return SITE_KINDS


def build_sites(spec):
    """spec = {'kinds': [[kind, cons], ...] per site (cons JSON-able), 'common': bool}.
    Different site classes in one chain are combined with `set_common_charges` (charges 'same' by name)."""
    from tenpy.networks import site as S
    cache = {}
    out = []
    for kind, cons in spec['kinds']:
        key = (kind, tuple(cons) if isinstance(cons, list) else cons)
        if key not in cache:
            cache[key] = make_site(kind, tuple(cons) if isinstance(cons, list) else cons)
        out.append(cache[key])
    uniq = list(cache.values())
    if len(uniq) > 1:
        with warnings.catch_warnings():
            warnings.simplefilter('ignore')
            S.set_common_charges(uniq, 'same')
    return out


def gen_site_spec(rng, L, mixed_prob=0.3, dmax=4096):
    """Choose site kinds for a chain of length L with total dense dimension <= dmax."""
    for _ in range(200):
        if rng.random() < mixed_prob:
            pool = rng.sample(SITE_KINDS, 2)
            kinds = [rng.choice(pool) for _ in range(L)]
        else:
            k = rng.choice(SITE_KINDS)
            kinds = [k] * L
        dims = [site_dim(k) for k, _ in kinds]
        D = int(np.prod(dims))
        if D <= dmax:
            return {'kinds': [[k, list(c) if isinstance(c, tuple) else c] for k, c in kinds]}
    return {'kinds': [['SpinHalf', 'Sz']] * L}


def site_dim(kind):
    return {'SpinHalf': 2, 'Spin1': 3, 'Spin32': 4, 'Fermion': 2, 'Boson2': 3, 'Boson1': 2, 'SHFermion': 4}[kind]


def is_fermionic(site):
    return bool(np.any(np.asarray(site.JW_exponent) % 2 == 1))


# ----------------------------------------------------------------------------------------------------------------
# dense reference (independent of tenpy's MPS methods: only to_ndarray of the stored tensors is used)


def stored_tensors(psi):
    """(list of dense _B in (vL,p,vR) order, list of S (1D arrays or None), forms, norm) as stored."""
    Bs = [B.to_ndarray() if B.get_leg_labels() == ['vL', 'p', 'vR'] else
          B.copy().itranspose(['vL', 'p', 'vR']).to_ndarray() for B in psi._B]
    Ss = [None if s is None else np.asarray(s, dtype=float) for s in psi._S]
    return Bs, Ss, list(psi.form), psi.norm


def form_half(f):
    if f is None:
        return None
    return [int(round(2 * f[0])), int(round(2 * f[1]))]


def np_theta(psi, i, n):
    """Independent numpy evaluation of what get_theta(i, n) should be:  S_i Gamma_i S_{i+1} ... Gamma_{i+n-1} S_{i+n}
    with Gamma_j = S_j^{-nuL} B_j S_{j+1}^{-nuR}.  Index order (vL, p_i ... p_{i+n-1}, vR)."""
    Bs, Ss, forms, _ = stored_tensors(psi)
    L = psi.L
    fin = psi.finite

    def S_at(b):
        return Ss[b] if fin else Ss[b % L]

    th = None
    for k in range(n):
        j = i + k
        jj = j % L
        f = forms[jj]
        G = Bs[jj] * (S_at(j) ** (-f[0]))[:, None, None] * (S_at(j + 1) ** (-f[1]))[None, None, :]
        G = G * S_at(j)[:, None, None]
        if th is None:
            th = G
        else:
            th = np.tensordot(th, G, axes=(-1, 0))
    th = th * S_at(i + n)
    return th


def np_state(psi, with_norm=True):
    """dense state of a finite MPS (independent numpy contraction), shape (d0, ..., d_{L-1})."""
    th = np_theta(psi, 0, psi.L)
    th = th.reshape(th.shape[1:-1]) if th.shape[0] == 1 and th.shape[-1] == 1 else th
    return th * (psi.norm if with_norm else 1.0)


def np_plain(Bs):
    """contraction of tensors (vL,p,vR) as they are, outer legs trivial."""
    th = Bs[0]
    for B in Bs[1:]:
        th = np.tensordot(th, B, axes=(-1, 0))
    return th.reshape(th.shape[1:-1])


# ----------------------------------------------------------------------------------------------------------------
# serialisation of an MPS for the driver


def dump_mps(psi, forms_override=None):
    Bs, Ss, forms, norm = stored_tensors(psi)
    sites = []
    for i, B in enumerate(Bs):
        d = enc_flat(B)
        d.update(dL=B.shape[0], d=B.shape[1], dR=B.shape[2], form=form_half(forms[i]))
        sites.append(d)
    bonds = []
    for i, s in enumerate(Ss):
        if s is None:
            # bond without singular values (non-canonical input): ones of the right length
            chi = Bs[i].shape[0] if i < len(Bs) else Bs[-1].shape[2]
            s = np.ones(chi)
        bonds.append(bits(s))
    return dict(L=psi.L, bc=psi.bc, norm=enc_scalar(norm), sites=sites, bonds=bonds)


def mps_from_dump(d, exact=False):
    """driver 'mps' answer -> (list of B arrays (vL,p,vR), list of S arrays, forms, norm)."""
    Bs, forms = [], []
    for s in d['sites']:
        v = dec_list(s, exact)
        if not exact:
            v = v.reshape(s['dL'], s['d'], s['dR'])
        Bs.append(v)
        forms.append(s['form'])
    Ss = [dec_list(b, exact) for b in d['bonds']]
    return Bs, Ss, forms, dec_scalar(d['norm'], exact)


# ----------------------------------------------------------------------------------------------------------------
# random charged tensors / states


def basis_charges(sites):
    """per site the charge of every basis state (qconj=+1 leg) as int array (d, nq)."""
    return [s.leg.to_qflat() for s in sites]


def random_sector_vector(sites, nprng, complex_=False, density=1.0):
    """random dense vector (d0,...,dL-1) supported on one total-charge sector of the chain; well conditioned
    (entries O(1), all allowed entries nonzero with probability `density`)."""
    dims = [s.dim for s in sites]
    chinfo = sites[0].leg.chinfo
    shape = tuple(dims)
    psi = nprng.normal(size=shape)
    if complex_:
        psi = psi + 1j * nprng.normal(size=shape)
    if chinfo.qnumber > 0:
        qs = basis_charges(sites)
        tot = np.zeros(shape + (chinfo.qnumber,), dtype=np.int64)
        for ax, q in enumerate(qs):
            sh = [1] * len(dims) + [chinfo.qnumber]
            sh[ax] = dims[ax]
            tot = tot + q.reshape(sh)
        tot = chinfo.make_valid(tot.reshape(-1, chinfo.qnumber)).reshape(tot.shape)
        # pick the sector of a random basis state
        idx = tuple(int(nprng.integers(0, d)) for d in dims)
        target = tot[idx]
        mask = np.all(tot == target, axis=-1)
        psi = psi * mask
        qtotal = target
    else:
        qtotal = None
    if density < 1.0:
        keep = nprng.random(size=shape) < density
        if np.any(keep & (psi != 0)):
            psi = psi * keep
    nrm = np.linalg.norm(psi)
    return psi, qtotal


def psi_to_npc(sites, psi_dense, qtotal):
    import tenpy.linalg.np_conserved as npc
    legs = [s.leg for s in sites]
    arr = npc.Array.from_ndarray(psi_dense, legs, qtotal=qtotal, cutoff=0.0,
                                 labels=['p%d' % i for i in range(len(sites))])
    return arr


def kron_all(vs):
    out = np.array([1.0])
    for v in vs:
        out = np.kron(out, v)
    return out


def all_configs(dims):
    return itertools.product(*[range(d) for d in dims])
