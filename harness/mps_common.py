"""Shared helpers of the C07/C08/C09 harnesses: site pool, state generators (every MPS constructor), serialisation of
an MPS for the Lean driver (IEEE bit patterns), independent dense numpy reference implementations.

Everything random comes from a `random.Random` handed in by the caller; numpy generators are seeded from it, so a case
description (a small JSON dict with its own integer seed) replays exactly.
"""
import itertools
import warnings
from fractions import Fraction

import numpy as np

HALF = {'A': (2, 0), 'B': (0, 2), 'C': (1, 1), 'G': (0, 0), 'Th': (2, 2)}


# ----------------------------------------------------------------------------------------------------------------
# numbers on the wire


def bits(x):
    """float64 array -> list of IEEE bit patterns (python ints)."""
    return np.ascontiguousarray(np.asarray(x, dtype=np.float64)).view(np.uint64).ravel().tolist()


def unbits(lst):
    return np.array(lst, dtype=np.uint64).view(np.float64)


def enc_flat(arr):
    arr = np.asarray(arr)
    d = {'re': bits(arr.real)}
    d['im'] = bits(arr.imag) if np.iscomplexobj(arr) else None
    return d


def enc_scalar(z):
    z = complex(z)
    return [bits([z.real])[0], bits([z.imag])[0]]


def dec_list(d, exact=False):
    """{'re': [...], 'im': [...]} from the driver -> complex ndarray (float mode) or list of (Fraction, Fraction)."""
    if exact:
        return [(Fraction(a), Fraction(b)) for a, b in zip(d['re'], d['im'])]
    return unbits(d['re']) + 1j * unbits(d['im'])


def dec_scalar(v, exact=False):
    if exact:
        return (Fraction(v[0]), Fraction(v[1]))
    return complex(unbits([v[0]])[0], unbits([v[1]])[0])


def frac_c(z):
    z = complex(z)
    return (Fraction(z.real), Fraction(z.imag))


# ----------------------------------------------------------------------------------------------------------------
# sites

SITE_KINDS = [
    ('SpinHalf', None), ('SpinHalf', 'Sz'), ('SpinHalf', 'parity'),
    ('Spin1', None), ('Spin1', 'Sz'), ('Spin1', 'parity'), ('Spin32', 'Sz'),
    ('Fermion', None), ('Fermion', 'N'), ('Fermion', 'parity'),
    ('Boson2', None), ('Boson2', 'N'), ('Boson2', 'parity'), ('Boson1', 'N'),
    ('SHFermion', (None, None)), ('SHFermion', ('N', 'Sz')), ('SHFermion', ('parity', 'Sz')),
    ('SHFermion', ('N', None)), ('SHFermion', ('parity', 'parity')),
]


def make_site(kind, cons):
    from tenpy.networks import site as S
    if kind == 'SpinHalf':
        return S.SpinHalfSite(conserve=cons)
    if kind == 'Spin1':
        return S.SpinSite(S=1.0, conserve=cons)
    if kind == 'Spin32':
        return S.SpinSite(S=1.5, conserve=cons)
    if kind == 'Fermion':
        return S.FermionSite(conserve=cons)
    if kind == 'Boson2':
        return S.BosonSite(Nmax=2, conserve=cons)
    if kind == 'Boson1':
        return S.BosonSite(Nmax=1, conserve=cons)
    if kind == 'SHFermion':
        return S.SpinHalfFermionSite(cons_N=cons[0], cons_Sz=cons[1])
    raise ValueError(kind)


# groups of site kinds that can share a chain: list of (kind, cons) whose sites get a common ChargeInfo through
# set_common_charges (mixed) or that simply have no charges.
def site_spec_choices():
    return SITE_KINDS


def build_sites(spec):
    """spec = {'kinds': [[kind, cons], ...] per site (cons JSON-able), 'common': bool}.
    Different site classes in one chain are combined with `set_common_charges` (charges 'same' by name)."""
    from tenpy.networks import site as S
    cache = {}
    out = []
    for kind, cons in spec['kinds']:
        key = (kind, tuple(cons) if isinstance(cons, list) else cons)
        if key not in cache:
            cache[key] = make_site(kind, tuple(cons) if isinstance(cons, list) else cons)
        out.append(cache[key])
    uniq = list(cache.values())
    if len(uniq) > 1:
        with warnings.catch_warnings():
            warnings.simplefilter('ignore')
            S.set_common_charges(uniq, 'same')
    return out


def gen_site_spec(rng, L, mixed_prob=0.3, dmax=4096):
    """Choose site kinds for a chain of length L with total dense dimension <= dmax."""
    for _ in range(200):
        if rng.random() < mixed_prob:
            pool = rng.sample(SITE_KINDS, 2)
            kinds = [rng.choice(pool) for _ in range(L)]
        else:
            k = rng.choice(SITE_KINDS)
            kinds = [k] * L
        dims = [site_dim(k) for k, _ in kinds]
        D = int(np.prod(dims))
        if D <= dmax:
            spec = {'kinds': [[k, list(c) if isinstance(c, tuple) else c] for k, c in kinds]}
            try:
                build_sites(spec)  # incompatible charge combinations raise here
            except Exception:
                continue
            return spec
    return {'kinds': [['SpinHalf', 'Sz']] * L}


def site_dim(kind):
    return {'SpinHalf': 2, 'Spin1': 3, 'Spin32': 4, 'Fermion': 2, 'Boson2': 3, 'Boson1': 2, 'SHFermion': 4}[kind]


def is_fermionic(site):
    return bool(np.any(np.asarray(site.JW_exponent) % 2 == 1))


# ----------------------------------------------------------------------------------------------------------------
# dense reference (independent of tenpy's MPS methods: only to_ndarray of the stored tensors is used)


def stored_tensors(psi):
    """(list of dense _B in (vL,p,vR) order, list of S (1D arrays or None), forms, norm) as stored."""
    Bs = [B.to_ndarray() if B.get_leg_labels() == ['vL', 'p', 'vR'] else
          B.copy().itranspose(['vL', 'p', 'vR']).to_ndarray() for B in psi._B]
    Ss = [None if s is None else np.asarray(s, dtype=float) for s in psi._S]
    return Bs, Ss, list(psi.form), psi.norm


def form_half(f):
    if f is None:
        return None
    return [int(round(2 * f[0])), int(round(2 * f[1]))]


def np_theta(psi, i, n):
    """Independent numpy evaluation of what get_theta(i, n) should be:  S_i Gamma_i S_{i+1} ... Gamma_{i+n-1} S_{i+n}
    with Gamma_j = S_j^{-nuL} B_j S_{j+1}^{-nuR}.  Index order (vL, p_i ... p_{i+n-1}, vR)."""
    Bs, Ss, forms, _ = stored_tensors(psi)
    L = psi.L
    fin = psi.finite

    def S_at(b):
        return Ss[b] if fin else Ss[b % L]

    def spow(b, e):
        # S_b ** e, never touching S when e == 0 (zero singular values after enlarge_chi)
        return 1.0 if e == 0 else S_at(b) ** e

    th = None
    prev_r = 0.0  # right exponent already present on the bond to the left (none before the first site)
    for k in range(n):
        j = i + k
        jj = j % L
        f = forms[jj]
        e = 1.0 - prev_r - f[0]   # every bond must carry exactly one power of S
        G = Bs[jj]
        if e != 0:
            G = G * spow(j, e)[:, None, None]
        th = G if th is None else np.tensordot(th, G, axes=(-1, 0))
        prev_r = f[1]
    e = 1.0 - prev_r
    if e != 0:
        th = th * spow(i + n, e)
    return th


def np_state(psi, with_norm=True):
    """dense state of a finite MPS (independent numpy contraction), shape (d0, ..., d_{L-1})."""
    th = np_theta(psi, 0, psi.L)
    th = th.reshape(th.shape[1:-1]) if th.shape[0] == 1 and th.shape[-1] == 1 else th
    return th * (psi.norm if with_norm else 1.0)


def np_plain(Bs):
    """contraction of tensors (vL,p,vR) as they are, outer legs trivial."""
    th = Bs[0]
    for B in Bs[1:]:
        th = np.tensordot(th, B, axes=(-1, 0))
    return th.reshape(th.shape[1:-1])


# ----------------------------------------------------------------------------------------------------------------
# serialisation of an MPS for the driver


def dump_mps(psi, forms_override=None):
    Bs, Ss, forms, norm = stored_tensors(psi)
    sites = []
    for i, B in enumerate(Bs):
        d = enc_flat(B)
        d.update(dL=B.shape[0], d=B.shape[1], dR=B.shape[2], form=form_half(forms[i]))
        sites.append(d)
    bonds = []
    for i, s in enumerate(Ss):
        if s is None:
            # bond without singular values (non-canonical input): ones of the right length
            chi = Bs[i].shape[0] if i < len(Bs) else Bs[-1].shape[2]
            s = np.ones(chi)
        bonds.append(bits(s))
    return dict(L=psi.L, bc=psi.bc, norm=enc_scalar(norm), sites=sites, bonds=bonds)


def mps_from_dump(d, exact=False):
    """driver 'mps' answer -> (list of B arrays (vL,p,vR), list of S arrays, forms, norm)."""
    Bs, forms = [], []
    for s in d['sites']:
        v = dec_list(s, exact)
        if not exact:
            v = v.reshape(s['dL'], s['d'], s['dR'])
        Bs.append(v)
        forms.append(s['form'])
    Ss = [dec_list(b, exact) for b in d['bonds']]
    return Bs, Ss, forms, dec_scalar(d['norm'], exact)


# ----------------------------------------------------------------------------------------------------------------
# random charged tensors / states


def basis_charges(sites):
    """per site the charge of every basis state (qconj=+1 leg) as int array (d, nq)."""
    return [s.leg.to_qflat() for s in sites]


def random_sector_vector(sites, nprng, complex_=False, density=1.0):
    """random dense vector (d0,...,dL-1) supported on one total-charge sector of the chain; well conditioned
    (entries O(1), all allowed entries nonzero with probability `density`)."""
    dims = [s.dim for s in sites]
    chinfo = sites[0].leg.chinfo
    shape = tuple(dims)
    psi = nprng.normal(size=shape)
    if complex_:
        psi = psi + 1j * nprng.normal(size=shape)
    if chinfo.qnumber > 0:
        qs = basis_charges(sites)
        tot = np.zeros(shape + (chinfo.qnumber,), dtype=np.int64)
        for ax, q in enumerate(qs):
            sh = [1] * len(dims) + [chinfo.qnumber]
            sh[ax] = dims[ax]
            tot = tot + q.reshape(sh)
        tot = chinfo.make_valid(tot.reshape(-1, chinfo.qnumber)).reshape(tot.shape)
        # pick the sector of a random basis state
        idx = tuple(int(nprng.integers(0, d)) for d in dims)
        target = tot[idx]
        mask = np.all(tot == target, axis=-1)
        psi = psi * mask
        qtotal = target
    else:
        qtotal = None
    if density < 1.0:
        keep = nprng.random(size=shape) < density
        if np.any(keep & (psi != 0)):
            psi = psi * keep
    nrm = np.linalg.norm(psi)
    return psi, qtotal


def psi_to_npc(sites, psi_dense, qtotal):
    import tenpy.linalg.np_conserved as npc
    legs = [s.leg for s in sites]
    arr = npc.Array.from_ndarray(psi_dense, legs, qtotal=qtotal, cutoff=0.0,
                                 labels=['p%d' % i for i in range(len(sites))])
    return arr


def kron_all(vs):
    out = np.array([1.0])
    for v in vs:
        out = np.kron(out, v)
    return out


def all_configs(dims):
    return itertools.product(*[range(d) for d in dims])


# ----------------------------------------------------------------------------------------------------------------
# state generators.  A case is a JSON-able dict; `build_state(case)` is a pure function of it.


def _nprng(case, salt=0):
    return np.random.default_rng([int(case['seed']) & 0xFFFFFFFF, salt])


def reachable_bond_charges(sites, Q=None, nprng=None):
    """allowed charge values (as tuples) on every bond 0..L for a finite chain with total charge Q (chosen among
    the reachable ones when None). Bond charges are those of the 'vL' leg (qconj=+1) of the tensor right of it."""
    chinfo = sites[0].leg.chinfo
    L = len(sites)
    zero = tuple(int(x) for x in chinfo.make_valid(None))
    qs = [s.leg.charges for s in sites]  # (blocks, nq)
    F = [{zero}]
    for i in range(L):
        nxt = set()
        for q in F[-1]:
            for c in qs[i]:
                nxt.add(tuple(int(x) for x in chinfo.make_valid(np.array(q) + c)))
        F.append(nxt)
    if Q is None:
        cand = sorted(F[L])
        Q = cand[int(nprng.integers(0, len(cand)))]
    R = [None] * (L + 1)
    R[L] = {tuple(Q)}
    for i in range(L - 1, -1, -1):
        prv = set()
        for q in R[i + 1]:
            for c in qs[i]:
                prv.add(tuple(int(x) for x in chinfo.make_valid(np.array(q) - c)))
        R[i] = prv
    return [sorted(F[i] & R[i]) for i in range(L + 1)], tuple(Q)


def random_bond_legs(sites, nprng, max_mult=3, bc='finite', keep_prob=0.8):
    """random virtual legs (qconj=+1, i.e. 'vL' legs) for bonds 0..L with non-uniform dimensions."""
    from tenpy.linalg import np_conserved as npc
    chinfo = sites[0].leg.chinfo
    L = len(sites)
    if chinfo.qnumber == 0:
        dims = [int(nprng.integers(1, max_mult + 2)) for _ in range(L + 1)]
        if bc == 'finite':
            dims[0] = dims[L] = 1
        return [npc.LegCharge.from_trivial(d, chinfo) for d in dims]
    allowed, Q = reachable_bond_charges(sites, None, nprng)
    qs = [s.leg.charges for s in sites]

    def succ(q, i):
        return [tuple(int(x) for x in chinfo.make_valid(np.array(q) + c)) for c in qs[i]]

    # choose the charges bond by bond so that every chosen charge has a predecessor and a successor
    # (no dead bond states: from_Bflat could not detect their charges)
    chosen = [[allowed[0][0]]]
    for i in range(L):
        al = set(allowed[i + 1])
        need = []
        for q in chosen[i]:
            sc = [x for x in succ(q, i) if x in al]
            need.append(sc[int(nprng.integers(0, len(sc)))])
        cand = sorted({x for q in chosen[i] for x in succ(q, i) if x in al})
        extra = [x for x in cand if nprng.random() < keep_prob]
        chosen.append(sorted(set(need) | set(extra)))
    legs = []
    for i, ch in enumerate(chosen):
        if bc == 'finite' and i in (0, L):
            mult = [1] * len(ch)
        else:
            mult = [int(nprng.integers(1, max_mult + 1)) for _ in ch]
        qflat = [list(q) for q, m in zip(ch, mult) for _ in range(m)]
        leg = npc.LegCharge.from_qflat(chinfo, qflat, qconj=+1)
        _, leg = leg.sort(bunch=True)
        legs.append(leg)
    return legs


def random_charged_tensors(sites, nprng, bc='finite', entries='normal', complex_=False, max_mult=3):
    """list of npc tensors B_i (labels vL,p,vR), charge rule satisfied with qtotal 0, random entries."""
    from tenpy.linalg import np_conserved as npc
    legs = random_bond_legs(sites, nprng, max_mult=max_mult, bc=bc)

    def func(size):
        if entries == 'int':
            x = nprng.integers(-3, 4, size=size).astype(float)
            if complex_:
                x = x + 1j * nprng.integers(-2, 3, size=size)
            return x
        x = nprng.normal(size=size)
        if complex_:
            x = x + 1j * nprng.normal(size=size)
        return x

    Bs = []
    for i, s in enumerate(sites):
        B = npc.Array.from_func(func, [legs[i], s.leg, legs[i + 1].conj()], dtype=complex if complex_ else float,
                                labels=['vL', 'p', 'vR'], shape_kw='size')
        Bs.append(B)
    return Bs, legs


def dyadic_S(n, nprng):
    """singular values that are powers of 4 (exact square roots, exact inverses in floating point)."""
    return np.array([4.0 ** int(k) for k in nprng.integers(-2, 2, size=n)])


def sites_of(case):
    return build_sites(case['sites'])


def build_state(case):
    """-> dict(psi=MPS, ref=dense reference state of shape dims or None, ref_kind=str, info={...}).
    `ref` is what the MPS must denote (including psi.norm) according to the documentation of the constructor,
    computed WITHOUT any MPS method."""
    from tenpy.networks.mps import MPS
    from tenpy.linalg import np_conserved as npc
    kind = case['kind']
    sites = sites_of(case)
    L = len(sites)
    nprng = _nprng(case)
    cplx = bool(case.get('complex', False))
    info = {}
    with warnings.catch_warnings():
        warnings.simplefilter('ignore')
        if kind == 'product':
            p_state, vecs = [], []
            for i, s in enumerate(sites):
                mode = case['p_modes'][i]
                inv_labels = sorted(s.state_labels.items())
                if mode == 'label':
                    lab, idx = inv_labels[int(nprng.integers(0, len(inv_labels)))]
                    p_state.append(lab)
                    e = np.zeros(s.dim)
                    e[idx] = 1.0
                    vecs.append(e)  # labels refer to the site's own basis
                elif mode == 'int':
                    k = int(nprng.integers(0, s.dim))
                    p_state.append(k)
                    e = np.zeros(s.dim)
                    e[k] = 1.0
                    vecs.append(e[s.perm] if case['permute'] else e)
                else:  # local vector; with charges only a basis vector times a number is allowed
                    if s.leg.chinfo.qnumber > 0:
                        v = np.zeros(s.dim, dtype=complex if cplx else float)
                        v[int(nprng.integers(0, s.dim))] = float(nprng.integers(1, 4)) / 2.0
                    else:
                        v = nprng.integers(-3, 4, size=s.dim).astype(complex if cplx else float) / 2.0
                        if cplx:
                            v = v + 1j * nprng.integers(-2, 3, size=s.dim) / 2.0
                        if not np.any(v):
                            v[0] = 1.0
                    p_state.append(v)
                    vecs.append(v[s.perm] if case['permute'] else v)
            psi = MPS.from_product_state(sites, p_state, bc=case.get('bc', 'finite'),
                                         dtype=complex if cplx else float, permute=case['permute'],
                                         form=case.get('form', 'B'), unit_cell_width=L)
            ref = vecs[0]
            for v in vecs[1:]:
                ref = np.multiply.outer(ref, v)
            info = dict(p_state=p_state, vecs=vecs)
            return dict(psi=psi, ref=ref, ref_kind='exact', info=info)
        if kind == 'full':
            v, q = random_sector_vector(sites, nprng, cplx, density=case.get('density', 1.0))
            arr = psi_to_npc(sites, v, q)
            psi = MPS.from_full(sites, arr, form=case.get('form'), normalize=case.get('normalize', True),
                                unit_cell_width=L)
            ref = v if not case.get('normalize', True) else v / np.linalg.norm(v)
            return dict(psi=psi, ref=ref, ref_kind='svd', info=dict(input=v))
        if kind in ('randB', 'book'):
            Bs, legs = random_charged_tensors(sites, nprng, bc='finite', entries=case.get('entries', 'normal'),
                                              complex_=cplx, max_mult=case.get('max_mult', 3))
            dense = [B.to_ndarray() for B in Bs]
            if kind == 'book':
                Ss = [dyadic_S(leg.ind_len, nprng) for leg in legs]
                forms = case['forms']
                psi = MPS(sites, Bs, Ss, bc='finite', form=[f if f is None else tuple(x / 2.0 for x in f) for f in forms],
                          unit_cell_width=L)
                return dict(psi=psi, ref=None, ref_kind='none', info=dict(dense=dense))
            Ss = [np.ones(leg.ind_len) for leg in legs]
            psi = MPS(sites, Bs, Ss, bc='finite', form=None, unit_cell_width=L)
            plain = np_plain(dense)
            if case.get('canon') is not None:
                psi.canonical_form_finite(renormalize=bool(case['canon']))
                ref = plain / np.linalg.norm(plain) if case['canon'] else plain
                return dict(psi=psi, ref=ref, ref_kind='svd', info=dict(dense=dense, plain=plain))
            return dict(psi=psi, ref=plain, ref_kind='plain', info=dict(dense=dense, plain=plain))
        if kind == 'bflat':
            # tensors of a random charged chain, written in the conserve=None basis order (permute=True)
            Bs, legs = random_charged_tensors(sites, nprng, bc='finite', entries='normal', complex_=cplx,
                                              max_mult=case.get('max_mult', 3))
            dense = [B.to_ndarray() for B in Bs]  # (vL, p, vR) in the sites' own basis order
            Bflat = []
            for s, B in zip(sites, dense):
                Bp = B.transpose(1, 0, 2)  # (p, vL, vR)
                if case['permute']:
                    inv = np.argsort(s.perm)
                    Bp = Bp[inv, :, :]  # so that Bp[s.perm] is the tensor in the site's order
                Bflat.append(Bp)
            psi = MPS.from_Bflat(sites, Bflat, SVs=None, bc='finite', dtype=None, permute=case['permute'],
                                 form=None, legL=legs[0], unit_cell_width=L)
            plain = np_plain(dense)
            ran_canon = L > 1 and max(B.shape[2] for B in dense[:-1]) > 1
            ref = plain / np.linalg.norm(plain) if ran_canon else plain
            return dict(psi=psi, ref=ref, ref_kind='svd' if ran_canon else 'plain',
                        info=dict(dense=dense, plain=plain, Bflat=Bflat, ran_canon=ran_canon))
        if kind == 'singlets':
            s = sites[0]
            up, down = case['up'], case['down']
            pairs = [tuple(p) for p in case['pairs']]
            lonely = list(case['lonely'])
            psi = MPS.from_singlets(s, L, pairs, up=up, down=down, lonely=lonely,
                                    lonely_state=case['lonely_state'], bc='finite', unit_cell_width=L)
            iu, idn = s.state_labels[up], s.state_labels[down]
            il = s.state_labels[case['lonely_state']]
            ref = np.zeros([s.dim] * L)
            # sum over the 2^npairs terms
            for signs in itertools.product([0, 1], repeat=len(pairs)):
                idx = [None] * L
                amp = 1.0
                for (a, b), sg in zip(pairs, signs):
                    if sg == 0:
                        idx[a], idx[b] = iu, idn
                    else:
                        idx[a], idx[b] = idn, iu
                        amp = -amp
                    amp = amp * 0.5 ** 0.5
                for x in lonely:
                    idx[x] = il
                ref[tuple(idx)] += amp
            return dict(psi=psi, ref=ref, ref_kind='svd', info={})
        if kind == 'covering':
            # local random states on disjoint site sets, interleaved
            index_map = [list(m) for m in case['index_map']]
            locals_, local_refs = [], []
            for k, m in enumerate(index_map):
                lsites = [sites[i] for i in m]
                v, q = random_sector_vector(lsites, _nprng(case, 100 + k), cplx)
                v = v / np.linalg.norm(v)
                if len(m) == 1:
                    # one-site local MPS: a product state with an explicit vector
                    lp = MPS.from_product_state(lsites, [v.reshape(-1)], permute=False,
                                                dtype=complex if cplx else float, unit_cell_width=1)
                else:
                    lp = MPS.from_full(lsites, psi_to_npc(lsites, v, q), unit_cell_width=len(m))
                    if case.get('local_canon', False):
                        lp.canonical_form_finite()  # virtual legs as left by the SVD sweep of canonical_form
                locals_.append(lp)
                local_refs.append(v)
            psi = MPS.from_product_mps_covering(locals_, index_map, bc='finite', unit_cell_width=L)
            ref = local_refs[0]
            for v in local_refs[1:]:
                ref = np.multiply.outer(ref, v)
            order = [i for m in index_map for i in m]  # axis k of ref lives on site order[k]
            ref = np.transpose(ref, np.argsort(order))
            return dict(psi=psi, ref=ref, ref_kind='svd', info={})
    raise ValueError('unknown kind ' + repr(kind))


FORMS = ['A', 'B', 'C', 'G']


def gen_case(rng, kinds, Lmax=6, dmax=1024):
    """draw one case description."""
    kind = rng.choice(kinds)
    L = rng.randint(2, Lmax)
    case = dict(kind=kind, seed=rng.getrandbits(31), complex=rng.random() < 0.3)
    if kind == 'product':
        L = rng.randint(1, Lmax + 1)
        case['sites'] = gen_site_spec(rng, L, dmax=dmax)
        case['p_modes'] = [rng.choice(['label', 'int', 'vec']) for _ in range(L)]
        case['permute'] = rng.random() < 0.6
        case['form'] = rng.choice(FORMS)
    elif kind == 'full':
        case['sites'] = gen_site_spec(rng, L, dmax=dmax)
        case['form'] = rng.choice([None] + FORMS)
        case['normalize'] = rng.random() < 0.5
        case['density'] = rng.choice([1.0, 1.0, 0.6])
    elif kind in ('randB', 'book', 'bflat'):
        case['sites'] = gen_site_spec(rng, L, dmax=dmax)
        case['max_mult'] = rng.choice([1, 2, 2, 3])
        if kind == 'randB':
            case['canon'] = rng.choice([None, True, False, False])
        if kind == 'book':
            case['entries'] = 'int'
            names = rng.choice([['A'], ['B'], ['C'], ['G'], ['Th'], ['A', 'B', 'C', 'G', 'Th']])
            case['forms'] = [list(HALF[rng.choice(names)]) for _ in range(L)]
        if kind == 'bflat':
            case['permute'] = rng.random() < 0.6
    elif kind == 'singlets':
        L = rng.randint(2, min(Lmax + 2, 8))
        k, up, down, lon = rng.choice([
            (('SpinHalf', None), 'up', 'down', 'up'), (('SpinHalf', 'Sz'), 'up', 'down', 'down'),
            (('SpinHalf', 'parity'), 'up', 'down', 'up'), (('Spin1', 'Sz'), 'up', 'down', '0.0'),
            (('Spin1', None), '1.0', '0.0', 'down'), (('Boson1', 'N'), '1', 'vac', 'vac'),
            (('Boson2', 'N'), '2', '1', '0'), (('Boson2', 'parity'), '1', '0', '2')])
        case['sites'] = {'kinds': [[k[0], k[1]]] * L}
        idx = list(range(L))
        rng.shuffle(idx)
        npairs = rng.randint(1, L // 2)
        case['pairs'] = [[idx[2 * j], idx[2 * j + 1]] for j in range(npairs)]
        case['lonely'] = idx[2 * npairs:]
        case.update(up=up, down=down, lonely_state=lon, complex=False)
    elif kind == 'covering' and rng.random() < 0.55:
        # several entangled local states crossing the same bond, conserved U(1) charge, local bond dimensions
        # 2 and 4 (the charge-sorted pipe of the combined virtual leg is then a non-trivial, in general not
        # self-inverse permutation of the product index)
        A, B = ['SpinHalf', 'Sz'], ['Spin32', 'Sz']
        tpl = rng.choice(['2x4', '4x2', '4x4', '4x4n', '2222', '2x2x4'])
        if tpl == '2x4':
            maps, kinds = [[0, 2], [1, 3]], [A, B, A, B]
        elif tpl == '4x2':
            maps, kinds = [[0, 2], [1, 3]], [B, A, B, A]
        elif tpl == '4x4':
            maps, kinds = [[0, 2], [1, 3]], [B, B, B, B]
        elif tpl == '4x4n':
            maps, kinds = [[0, 3], [1, 2]], [B, B, B, B]
        elif tpl == '2222':
            maps, kinds = [[0, 4], [1, 5], [2, 6], [3, 7]], [A] * 8
        else:
            maps, kinds = [[0, 3], [1, 4], [2, 5]], [A, A, B, A, A, B]
        if rng.random() < 0.3:
            rng.shuffle(maps)
        case['sites'] = {'kinds': kinds}
        case['index_map'] = maps
        case['local_canon'] = True
        case['complex'] = rng.random() < 0.3
    elif kind == 'covering':
        # bosonic sites only: the tensor product of the local states is then unambiguous
        bos = [k for k in SITE_KINDS if k[0] in ('SpinHalf', 'Spin1', 'Boson2', 'Boson1')]
        k = rng.choice(bos)
        L = rng.randint(2, min(Lmax, 6) if site_dim(k[0]) > 2 else min(Lmax + 1, 8))
        case['sites'] = {'kinds': [[k[0], k[1]]] * L}
        idx = list(range(L))
        rng.shuffle(idx)
        maps, pos = [], 0
        while pos < L:
            n = min(rng.choice([1, 2, 2, 3]), L - pos)
            m = idx[pos:pos + n]
            if rng.random() < 0.5:
                m = sorted(m)
            maps.append(m)
            pos += n
        case['index_map'] = maps
        case['local_canon'] = rng.random() < 0.7
    return case


# ----------------------------------------------------------------------------------------------------------------
# infinite MPS: random unit cells and an independent numpy reference for reduced density matrices


def build_infinite(case):
    """random non-canonical unit cell (form=None) -> dict(psi_raw=MPS before canonicalisation, dense=[A_i])."""
    from tenpy.networks.mps import MPS
    from tenpy.linalg import np_conserved as npc
    sites = sites_of(case)
    L = len(sites)
    nprng = _nprng(case)
    cplx = bool(case.get('complex', False))
    chinfo = sites[0].leg.chinfo
    dims = case['chi']
    if chinfo.qnumber == 0:
        legs = [npc.LegCharge.from_trivial(d, chinfo) for d in dims]
    else:
        # single Z_2 charge: `d` states of each parity on every bond (generic tensors are then injective)
        assert chinfo.qnumber == 1 and chinfo.mod[0] == 2
        legs = [npc.LegCharge.from_qflat(chinfo, [[0]] * d + [[1]] * d, qconj=+1).bunch()[1] for d in dims]
    legs = legs[:L] + [legs[0]]

    def func(size):
        x = nprng.normal(size=size)
        if cplx:
            x = x + 1j * nprng.normal(size=size)
        return x

    Bs = [npc.Array.from_func(func, [legs[i], s.leg, legs[i + 1].conj()], dtype=complex if cplx else float,
                              labels=['vL', 'p', 'vR'], shape_kw='size') for i, s in enumerate(sites)]
    with warnings.catch_warnings():
        warnings.simplefilter('ignore')
        psi = MPS(sites, Bs, [np.ones(l.ind_len) for l in legs], bc='infinite', form=None, unit_cell_width=L)
    return dict(psi=psi, dense=[B.to_ndarray() for B in Bs])


def transfer_spectrum(dense):
    """eigen-decomposition of the unit-cell transfer matrix of raw tensors (vL,p,vR)."""
    chi = dense[0].shape[0]
    T = np.eye(chi * chi, dtype=complex).reshape(chi, chi, chi, chi)  # (a,a',b,b')
    for A in dense:
        T = np.einsum('xyab,apc,bpd->xycd', T, A, A.conj())
    Tm = T.reshape(chi * chi, -1)
    w, vr = np.linalg.eig(Tm)
    wl, vl = np.linalg.eig(Tm.T)
    o = np.argsort(-abs(w))
    ol = np.argsort(-abs(wl))
    return w[o], vr[:, o], wl[ol], vl[:, ol], chi


def np_rho_window(dense, n):
    """reduced density matrix of sites 0..n-1 of the infinite chain built from the raw unit cell tensors,
    shape (D, D) with D = prod d, row index = ket configuration."""
    w, vr, wl, vl, chi = transfer_spectrum(dense)
    r = vr[:, 0].reshape(chi, chi)  # (b, b')
    l = vl[:, 0].reshape(chi, chi)  # (a, a')
    L = len(dense)
    th = None
    for k in range(n):
        A = dense[k % L]
        th = A if th is None else np.tensordot(th, A, axes=(-1, 0))
    D = int(np.prod(th.shape[1:-1]))
    th = th.reshape(chi, D, th.shape[-1])
    chiR = th.shape[-1]
    # the window may end inside a unit cell: propagate r through the remaining sites of the cell
    rem = (-n) % L
    rr = r
    if rem:
        # r lives on bond 0; bring it to the bond right of site n-1 by contracting the remaining sites from the right
        for k in range(n + rem - 1, n - 1, -1):
            A = dense[k % L]
            rr = np.einsum('apb,cpd,bd->ac', A, A.conj(), rr)
    rho = np.einsum('ac,asb,ctd,bd->st', l, th, th.conj(), rr)
    return rho / np.trace(rho)


# ----------------------------------------------------------------------------------------------------------------
# chunked evaluation with the Lean driver


def run_chunk(args):
    """worker: evaluate cases with `eval_fn` (module-level function given by dotted name), send all their driver
    lines through ONE driver process, let every case compare its answers.  Returns plain dicts."""
    import importlib
    import time
    import traceback
    from vlib import core
    mod_name, fn_name, cases, driver, budget_s = args
    core.use_repo()
    fn = getattr(importlib.import_module(mod_name), fn_name)
    t0 = time.time()
    evs = []
    for case in cases:
        if budget_s is not None and time.time() - t0 > budget_s:
            break
        try:
            with warnings.catch_warnings():
                warnings.simplefilter('ignore')
                ev = fn(case)
        except Exception as e:  # a bug of the harness itself must not look like a verdict
            ev = dict(skip='harness-exception: ' + ''.join(traceback.format_exception_only(type(e), e)).strip()[:300]
                      + ' @ ' + traceback.format_exc().strip().splitlines()[-3][:200])
        ev['case'] = case
        evs.append(ev)
    lines = []
    for ev in evs:
        ev['_slice'] = (len(lines), len(lines) + len(ev.get('lines', [])))
        lines += ev.get('lines', [])
    outs = []
    derr = None
    if lines:
        try:
            outs = core.run_driver(driver, lines, timeout=3000)
        except core.DriverError as e:
            derr = str(e)[:1500]
    res = []
    for ev in evs:
        corr = []
        if 'compare' in ev and derr is None and lines:
            a, b = ev['_slice']
            try:
                corr = ev['compare'](outs[a:b])
            except Exception as e:
                corr = [('harness.compare-exception', repr(e)[:300])]
        res.append(dict(case=ev['case'], oracle=ev.get('oracle', []), corr=corr, skip=ev.get('skip'),
                        nontrivial=bool(ev.get('nontrivial', False)), hist=ev.get('hist', []),
                        compared=('compare' in ev and derr is None and bool(ev.get('lines')))))
    return dict(results=res, driver_error=derr, n_lines=len(lines))


def run_cases(ctx, prop, mod_name, fn_name, cases, driver='C07', procs=None, budget_s=None):
    """distribute cases over processes; returns (list of per-case result dicts, driver errors)."""
    import multiprocessing as mp
    import os
    if not cases:
        return [], []
    procs = procs or min(16, os.cpu_count() or 4, max(1, len(cases) // 4))
    chunks = [cases[k::procs] for k in range(procs)]
    chunks = [c for c in chunks if c]
    args = [(mod_name, fn_name, c, driver, budget_s) for c in chunks]
    if len(chunks) == 1:
        outs = [run_chunk(args[0])]
    else:
        # ProcessPoolExecutor raises BrokenProcessPool when a worker dies (a plain Pool would hang forever)
        from concurrent.futures import ProcessPoolExecutor
        with ProcessPoolExecutor(max_workers=len(chunks), mp_context=mp.get_context('fork')) as ex:
            outs = list(ex.map(run_chunk, args))
    results, derrs = [], []
    for o in outs:
        results += o['results']
        if o['driver_error']:
            derrs.append(o['driver_error'])
    return results, derrs


def fold_results(res, results, derrs, prop, shrink=None):
    """per-case result dicts -> core.Result (failures, histogram, counters)."""
    from vlib import core
    for r in results:
        if r['skip']:
            res.count('skipped:' + r['skip'][:60])
            continue
        res.note_case(r['case'], r['nontrivial'])
        for k in r['hist']:
            res.count(k)
        if r['compared']:
            res.traces_validated += 1
        for sig, detail in r['oracle']:
            case = r['case']
            if shrink is not None:
                try:
                    case = shrink(case, sig)
                except Exception:
                    pass
            res.fail('property', sig, detail, case)
        if not r['oracle']:
            for sig, detail in r['corr']:
                res.fail('correspondence', sig, detail, r['case'])
    if derrs:
        raise core.DriverError(derrs[0])
    return res


def close(a, b, tol):
    a = np.asarray(a)
    b = np.asarray(b)
    if a.shape != b.shape:
        return False
    return bool(np.all(np.abs(a - b) <= tol * (1.0 + np.abs(b))))


def maxerr(a, b):
    a = np.asarray(a)
    b = np.asarray(b)
    if a.shape != b.shape:
        return float('inf')
    return float(np.max(np.abs(a - b))) if a.size else 0.0
