"""C02 coverage round: further public routines of np_conserved.py / charges.py that touch `_qdata`, `_qdata_sorted`,
`qtotal` or leg flags, each with its option variants: generators (registered in c02_stepgen.GEN) and executors
(called from c02_ops.prep for the operations defined here).

Most steps here have no Lean counterpart (model line None): they are judged by the model-free oracle on every live
tensor plus the documented contract of the call (`contract` list: legs, qtotal, dense result recomputed with numpy).
"""
import itertools

import numpy as np

from harness import c02_stepgen as sg
from harness.c02_oracle import dump_arr, dump_legS, struct_of, valid, label_perm, legs_same, legs_contractible

g, WEIGHTS = sg.g, sg.WEIGHTS
WEIGHTS.update(dict(
    charge_map=5, eq=2, divmul=2, labels_op=3, info=2, inner2=3, ctor=5, eye_like=2, diag_vec=1,
    grid_concat=4, grid_outer=4, detect_leg=3, from_ndarray_opts=3, mk_legop=5, getitem2=3, setitem_flat=3,
    add_charge_gen=2, fact2=4, malformed2=2, combine_pipes=4, misc=4,
))


def mods_of(a):
    return [int(m) for m in a.chinfo.mod]


def qt_of(a):
    return [int(x) for x in a.qtotal]


def dense(a):
    return a.to_ndarray() if sg.size(a) <= 20000 else None


def close(x, y, exact):
    if x is None or y is None:
        return True
    x, y = np.asarray(x, dtype=np.complex128), np.asarray(y, dtype=np.complex128)
    if x.shape != y.shape:
        return False
    if exact:
        return np.array_equal(x, y)
    if x.size == 0:
        return True
    return bool(np.max(np.abs(x - y)) <= 1.e-7 * max(1.0, float(np.max(np.abs(y)))))


def aliased(*arrays):
    """two stored blocks share memory (shallow copies, concatenate(copy=False)): in-place arithmetic then depends on the
    kernel configuration - values are C03's subject, the dense reference is skipped"""
    blocks = [t for a in arrays for t in a._data]
    return any(np.shares_memory(x, y) for i, x in enumerate(blocks) for y in blocks[i + 1:])


def qflat(leg):
    return [[int(x) for x in r] for r in leg.to_qflat()]


def ret(Hh, names_tensors=(), qts=None, contract=(), touched=(), outs=None):
    for n, t in names_tensors:
        Hh.env[n] = t
    return dict(outs=outs or {}, touched={n for n, _ in names_tensors} | set(touched), qt=dict(qts or {}), dense={},
                contract=list(contract))


# =========================================================================================================
# generators
# =========================================================================================================

def dipolar(a):
    return getattr(a.chinfo, '_dipole_idcs', None)


@g('charge_map')
def _(Hh, rng):
    n = sg.any_t(Hh, rng)
    a = Hh.env[n]
    if a.chinfo.qnumber == 0:
        return None
    inplace = rng.random() < 0.4
    st = dict(a=n, inplace=inplace)
    if not inplace:
        st['out'] = Hh.fresh()
    if dipolar(a) and rng.random() < 0.75:
        st.update(kind='shift', how=rng.choice(['shift_charges', 'shift_charges_horizontal']), dx=rng.choice([0, 1, 1, 2, -1, 3]))
    else:
        st.update(kind='scale', k=rng.choice([-1, 2, 3, 1]))
    return st


@g('eq')
def _(Hh, rng):
    st = sg.gen_bin(Hh, rng, False)
    if st is None:
        n = sg.any_t(Hh, rng)
        return dict(a=n, b=n)
    st.pop('valid', None)
    return st


@g('divmul')
def _(Hh, rng):
    n = sg.any_t(Hh, rng)
    how = rng.choice(['truediv', 'itruediv', 'imul', 'imul', 'rmul'])
    st = dict(a=n, how=how, x=rng.choice([2.0, -1.0, 0.5, 1.0]) if 'div' in how else rng.choice([0.0, 2.0, -1.0, 0, 1]))
    if how in ('truediv', 'rmul'):
        st['out'] = Hh.fresh()
    return st


@g('labels_op')
def _(Hh, rng):
    n = sg.any_t(Hh, rng)
    a = Hh.env[n]
    how = rng.choice(['ireplace_labels', 'replace_labels', 'idrop_labels', 'idrop_all', 'iset_leg_labels', 'ireplace_label'])
    named = [l for l in a._labels if l is not None]
    pool = [l for l in sg.ALPHABET + ['g', 'h', 'k', 'm', 'n', 'p', 'q'] if l not in a._labels]
    st = dict(a=n, how=how)
    if how in ('ireplace_labels', 'replace_labels'):
        if not named or len(pool) < len(named):
            return None
        old = rng.sample(named, rng.randint(1, len(named)))
        st.update(old=old, new=rng.sample(pool, len(old)))
        if rng.random() < 0.3:   # index instead of label for the old one
            st['old'] = [a._labels.index(o) if rng.random() < 0.5 else o for o in old]
    elif how == 'idrop_labels':
        if not named:
            return None
        st['old'] = rng.sample(named, rng.randint(1, len(named)))
    elif how == 'iset_leg_labels':
        if len(pool) < a.rank:
            return None
        st['new'] = [l if rng.random() < 0.8 else None for l in rng.sample(pool, a.rank)]
    elif how == 'ireplace_label':
        if not named or not pool:
            return None
        st.update(old=rng.choice(named), new=rng.choice(pool))
    if how == 'replace_labels':
        st['out'] = Hh.fresh()
    return st


@g('info')
def _(Hh, rng):
    n = sg.any_t(Hh, rng)
    how = rng.choice(['sparse_stats', 'str', 'norm', 'npc.norm', 'get_block', 'props', 'props', 'iter'])
    return dict(a=n, how=how, ord=rng.choice([None, None, 0, 1, 'inf', '-inf', 2]), valid=True, tag=how)


def legs_all(a, b, f):
    return a.rank == b.rank and a.chinfo == b.chinfo and all(f(x, y) for x, y in zip(a.legs, b.legs))


@g('inner2')
def _(Hh, rng):
    cands = []
    for n in sg.names(Hh):
        a = Hh.env[n]
        if sg.size(a) > sg.MAX_SIZE:
            continue
        for m in sg.names(Hh):
            b = Hh.env[m]
            if b.rank != a.rank or b.chinfo != a.chinfo:
                continue
            if legs_all(a, b, legs_same):
                cands.append((n, m, True, None))
            if legs_all(a, b, legs_contractible):
                cands.append((n, m, False, None))
            # same legs up to a transposition given by the labels
            perm = label_perm(a._labels, b._labels)
            if perm is not None and all(legs_same(x, b.legs[i]) for x, i in zip(a.legs, perm)):
                cands.append((n, m, True, perm))
    if not cands:
        return None
    n, m, do_conj, perm = rng.choice(cands)
    a, b = Hh.env[n], Hh.env[m]
    if perm is not None:
        return dict(a=n, b=m, do_conj=True, axes='labels', perm=perm)
    r = rng.random()
    if r < 0.35:
        axes = 'range'
    elif r < 0.6 and do_conj and None not in a._labels and a._labels == b._labels:
        axes = 'labels'
    else:
        p = list(range(a.rank))
        rng.shuffle(p)
        axes = [p, p]
    return dict(a=n, b=m, do_conj=do_conj, axes=axes, perm=None, lab=rng.random() < 0.5)


@g('ctor')
def _(Hh, rng):
    how = rng.choice(['trivial', 'func_square', 'func_opts', 'ones', 'zeros', 'func_square'])
    st = dict(how=how, out=Hh.fresh(), dseed=rng.randrange(10 ** 6), dtype=rng.choice(sg.DTYPES + [None]))
    if how == 'trivial':
        st['shape'] = [rng.randint(1, 3) for _ in range(rng.randint(1, 3))]
        st['labels'] = rng.choice([None, rng.sample(sg.ALPHABET, len(st['shape']))])
        return st
    if how == 'func_square':
        cand = [i for i, l in enumerate(Hh.pool) if 0 < l.block_number and l.ind_len <= 10]
        if not cand:
            return None
        st.update(leg=dict(pool=rng.choice(cand), conj=rng.random() < 0.5), labels=rng.choice([None, ['p', 'p*']]))
        return st
    n = sg.pick(Hh, rng, lambda a: sg.size(a) <= sg.MAX_SIZE and all(l.block_number > 0 for l in a.legs))
    if not n:
        return None
    a = Hh.env[n]
    mods = mods_of(a)
    st.update(a=n, qtotal=rng.choice([None, qt_of(a), [rng.randint(-2, 3) for _ in mods]]),
              shape_kw=rng.random() < 0.5, with_labels=rng.random() < 0.5)
    return st


@g('eye_like')
def _(Hh, rng):
    n = sg.any_t(Hh, rng)
    a = Hh.env[n]
    ax = rng.randrange(a.rank)
    if a.shape[ax] > 12:
        return None
    return dict(a=n, axis=ax if rng.random() < 0.7 else ax - a.rank, out=Hh.fresh(), labels=rng.choice([None, ['u', 'v']]),
                lab=rng.random() < 0.5)


@g('diag_vec')
def _(Hh, rng):
    n = sg.any_t(Hh, rng)
    a = Hh.env[n]
    ax = rng.randrange(a.rank)
    if a.shape[ax] > 12:
        return None
    return dict(a=n, axis=ax, out=Hh.fresh(), s=[float(rng.randint(-2, 3)) for _ in range(int(a.shape[ax]))],
                dtype=rng.choice([None, 'complex128', 'float64']))


def cut_points(rng, n):
    """split range(n) into 2 contiguous non-empty parts (or 1 part if n < 2)"""
    if n < 2:
        return [0, n]
    return [0, rng.randint(1, n - 1), n]


@g('grid_concat')
def _(Hh, rng):
    n = sg.pick(Hh, rng, lambda a: sg.size(a) <= sg.MAX_SIZE and all(s > 0 for s in a.shape)
                and not any(sg.is_pipe(l) for l in a.legs))
    if not n:
        return None
    a = Hh.env[n]
    k = 1 if a.rank < 2 or rng.random() < 0.4 else 2
    axes = sorted(rng.sample(range(a.rank), k)) if rng.random() < 0.7 else rng.sample(range(a.rank), k)
    cuts = [cut_points(rng, int(a.shape[x])) for x in axes]
    ncell = 1
    for c in cuts:
        ncell *= len(c) - 1
    none = []
    if k == 2 and ncell == 4 and rng.random() < 0.5:
        none = [[rng.randrange(2), rng.randrange(2)]]
    return dict(a=n, out=Hh.fresh(), axes=axes, cuts=cuts, none=none, copy=rng.random() < 0.5, lab=rng.random() < 0.4)


@g('grid_outer')
def _(Hh, rng):
    n = sg.pick(Hh, rng, lambda a: a.rank >= 2 and sg.size(a) <= sg.MAX_SIZE and all(s > 0 for s in a.shape)
                and not any(sg.is_pipe(l) for l in a.legs[:2]))
    if not n:
        return None
    a = Hh.env[n]
    k = 1 if a.rank < 3 or rng.random() < 0.5 else 2
    if any(a.shape[i] > 4 for i in range(k)):
        return None
    return dict(a=n, out=Hh.fresh(), k=k, qtotal=rng.random() < 0.5, grid_labels=rng.random() < 0.5,
                detect=rng.choice([None, None, 0, k - 1]), qconj=rng.choice([1, -1]))


@g('detect_leg')
def _(Hh, rng):
    n = sg.pick(Hh, rng, lambda a: sg.size(a) <= sg.MAX_SIZE and all(s > 0 for s in a.shape) and len(a._data) > 0
                and a.rank >= 2 and not any(sg.is_pipe(l) for l in a.legs))
    if not n:
        return None
    a = Hh.env[n]
    return dict(a=n, out=Hh.fresh(), axis=rng.randrange(a.rank), qconj=rng.choice([1, -1]), give_qtotal=rng.random() < 0.7)


@g('from_ndarray_opts')
def _(Hh, rng):
    n = sg.pick(Hh, rng, lambda a: sg.size(a) <= sg.MAX_SIZE and all(l.block_number > 0 for l in a.legs)
                and all(s > 0 for s in a.shape))
    if not n:
        return None
    return dict(a=n, out=Hh.fresh(), detect=rng.random() < 0.5, pollute=rng.random() < 0.5,
                raise_wrong=rng.random() < 0.3, cutoff=rng.choice([None, 0.5, 1.e-10]), dtype=rng.choice([None, 'complex128']))


@g('mk_legop')
def _(Hh, rng):
    n = sg.any_t(Hh, rng)
    a = Hh.env[n]
    k = rng.randrange(a.rank)
    leg = a.legs[k]
    if leg.ind_len > 12 or leg.block_number == 0:
        return None
    how = rng.choice(['sort0', 'sort1', 'bunch', 'qdict', 'project', 'extend', 'flip', 'map', 'add', 'drop', 'change',
                      'qflat', 'sectors'])
    st = dict(a=n, k=k, how=how, out=Hh.fresh(), dseed=rng.randrange(10 ** 6), valid=True)
    if how == 'project':
        st['mask'] = sg.gen_mask(rng, int(leg.ind_len), leg)
    if how == 'extend':
        st['extra'] = rng.choice([1, 2, dict(pool=rng.randrange(len(Hh.pool)), conj=rng.random() < 0.5)])
        if isinstance(st['extra'], dict) and mods_of(a) != Hh.mods0:
            st['extra'] = 1
    if how == 'map':
        st['kmul'] = rng.choice([-1, 2, 3])
    if how in ('drop', 'change') and a.chinfo.qnumber == 0:
        return None
    if how == 'drop':
        st['c'] = rng.choice([None, rng.randrange(a.chinfo.qnumber)])
    if how == 'change':
        c = rng.randrange(a.chinfo.qnumber)
        m = mods_of(a)[c]
        cand = [2, 3, 4] if m == 1 else [d for d in range(2, m) if m % d == 0]
        if not cand:
            return None
        st.update(c=c, mod=rng.choice(cand))
    if how == 'add':
        # a second leg with its own block structure over the same indices
        n2 = int(leg.ind_len)
        st['qflat2'] = [[rng.randint(0, 1)] for _ in range(n2)]
        st['mod2'] = rng.choice([1, 2, 3])
        st['bunch2'] = rng.random() < 0.7
    return st


@g('getitem2')
def _(Hh, rng):
    n = sg.pick(Hh, rng, lambda a: sg.size(a) <= sg.MAX_SIZE and all(s > 0 for s in a.shape))
    if not n:
        return None
    a = Hh.env[n]
    r = a.rank
    # leading explicit indices, then Ellipsis or fewer indices than legs, then trailing ones
    nlead = rng.randint(0, r)
    ntrail = rng.randint(0, r - nlead)
    if nlead + ntrail == r and rng.random() < 0.5 and r > 1:
        ntrail = max(0, ntrail - 1)

    def one(s):
        x = rng.random()
        if x < 0.3:
            return rng.randrange(-s, s)
        if x < 0.55:
            lo = rng.randrange(s)
            hi = rng.randint(lo + 1, s)
            return dict(s=[hi - 1, lo - 1 if lo > 0 else None, -1])   # reversed slice
        if x < 0.75:
            return dict(s=[None, None, rng.choice([1, 2])])
        p = [i for i in range(s) if rng.random() < 0.7] or [0]
        rng.shuffle(p)
        return dict(i=p)
    lead = [one(int(a.shape[i])) for i in range(nlead)]
    trail = [one(int(a.shape[r - ntrail + i])) for i in range(ntrail)]
    use_ell = nlead + ntrail < r and rng.random() < 0.6 or (nlead + ntrail < r and ntrail > 0)
    if all(isinstance(x, int) for x in lead + trail) and nlead + ntrail == r:
        return None
    if any(sg.is_pipe(a.legs[i]) for i in range(r)) and any(isinstance(x, dict) for x in lead + trail):
        pass  # projecting a pipe is allowed (converted to LegCharge with a warning)
    return dict(a=n, out=Hh.fresh(), lead=lead, trail=trail, ellipsis=bool(use_ell))


@g('setitem_flat')
def _(Hh, rng):
    n = sg.pick(Hh, rng, lambda a: sg.size(a) <= sg.MAX_SIZE and all(s > 0 for s in a.shape) and a.rank >= 1)
    if not n:
        return None
    a = Hh.env[n]
    inds = []
    for s in a.shape:
        s = int(s)
        x = rng.random()
        if x < 0.25 and a.rank > 1:
            inds.append(rng.randrange(s))
        elif x < 0.5:
            inds.append(dict(s=[None, None, None]))
        elif x < 0.75:
            lo = rng.randrange(s)
            inds.append(dict(s=[lo, rng.randint(lo + 1, s), None]))
        else:
            inds.append(dict(m=[rng.random() < 0.7 for _ in range(s)] if s > 1 else [True]))
    if all(isinstance(i, int) for i in inds):
        inds[-1] = dict(s=[None, None, None])
    if any(isinstance(i, dict) and 'm' in i and not any(i['m']) for i in inds):
        return None
    return dict(a=n, inds=inds, factor=rng.choice([2.0, -1.0, 0.0, 3.0]), other=rng.choice(['flat', 'flat', 'npc']))


@g('add_charge_gen')
def _(Hh, rng):
    n = sg.pick(Hh, rng, lambda a: a.chinfo.qnumber in (1, 2) and sg.size(a) <= sg.MAX_SIZE and sg.no_zero_blocks(a)
                and all(s > 0 for s in a.shape) and not dipolar(a))
    if not n:
        return None
    a = Hh.env[n]
    mx = float(np.max(np.abs(a.to_ndarray()), initial=0.0))
    detect = rng.random() < 0.5
    if detect and 0.0 < mx <= 1.e-8:
        return None   # rounding residue of a factorization: whether detect_qtotal 'sees' it depends on its cutoff
    return dict(a=n, out=Hh.fresh(), col=rng.randrange(a.chinfo.qnumber), detect=detect,
                bunch=rng.random() < 0.8, give_chinfo=rng.random() < 0.4, valid=mx > 1.e-8 or not detect)


def square_cands(Hh):
    return [n for n in sg.names(Hh) if Hh.env[n].rank == 2 and 0 < sg.size(Hh.env[n]) <= 400
            and all(l.block_number > 0 for l in Hh.env[n].legs)]


@g('fact2')
def _(Hh, rng):
    how = rng.choice(['polar', 'polar', 'eigvalsh', 'eigvals', 'orthogonal_columns', 'speigs', 'svd_full', 'svd_noUV'])
    if how in ('eigvalsh', 'eigvals', 'speigs'):
        c = [n for n in square_cands(Hh) if legs_contractible(Hh.env[n].legs[0], Hh.env[n].legs[1])
             and all(x == 0 for x in qt_of(Hh.env[n]))]
    else:
        c = square_cands(Hh)
    if not c:
        return None
    n = rng.choice(c)
    st = dict(a=n, how=how, out=Hh.fresh(), out2=Hh.fresh())
    if how == 'polar':
        st.update(left=rng.random() < 0.5, labels=rng.choice([None, ['x', 'y']]), cutoff=rng.choice([1.e-16, 1.e-8]))
    if how == 'orthogonal_columns':
        st['label'] = rng.choice([None, 'w'])
    if how == 'speigs':
        st['k'] = 1
    if how in ('eigvalsh', 'eigvals'):
        st['sort'] = rng.choice([None, 'm>', 'm<', '>', '<'])
    return st


@g('malformed2')
def _(Hh, rng):
    """further argument errors: the call must raise and leave everything as it was"""
    n = sg.any_t(Hh, rng)
    a = Hh.env[n]
    r = a.rank
    kind = rng.choice(['concat_shape', 'split_nonpipe', 'split_twice', 'combine_dup', 'combine_new_axes', 'take_slice_len',
                       'transpose_len', 'labels_dup', 'labels_empty', 'replace_dup', 'tensordot_len', 'from_ndarray_shape',
                       'iproject_len', 'iscale_axis_len', 'permute_len', 'add_leg_label', 'add_charge_len', 'squeeze_nonunit',
                       'itruediv0', 'combine_pipes_len', 'sort_legcharge_len'])
    st = dict(op='malformed2', a=n, kind=kind, expect='error')
    if kind == 'concat_shape':
        m = sg.pick(Hh, rng, lambda b: b.rank == r and tuple(b.shape) != tuple(a.shape))
        if not m or r < 2:
            return None
        b = Hh.env[m]
        ax = [i for i in range(r) if all(a.shape[j] == b.shape[j] for j in range(r) if j != i)]
        bad = [i for i in range(r) if i not in ax]
        if not bad:
            return None
        st.update(b=m, axis=rng.choice(bad))
    elif kind in ('split_nonpipe', 'split_twice'):
        pipes = [i for i, l in enumerate(a.legs) if sg.is_pipe(l)]
        non = [i for i in range(r) if i not in pipes]
        if kind == 'split_nonpipe':
            if not non:
                return None
            st['axes'] = [rng.choice(non)]
        else:
            if not pipes:
                return None
            st['axes'] = [pipes[0], pipes[0]]
    elif kind in ('combine_dup', 'combine_new_axes', 'combine_pipes_len'):
        if r < 2 or not sg.has_blocks(a):
            return None
    elif kind == 'labels_dup' and r < 2:
        return None
    elif kind == 'replace_dup':
        if len([l for l in a._labels if l is not None]) < 2:
            return None
    elif kind == 'tensordot_len' and r < 2:
        return None
    elif kind == 'squeeze_nonunit':
        non = [i for i, s in enumerate(a.shape) if s != 1]
        if not non:
            return None
        st['axes'] = [rng.choice(non)]
    elif kind == 'add_leg_label':
        if not any(l is not None for l in a._labels) or r >= sg.MAX_RANK or mods_of(a) != Hh.mods0:
            return None
        st['label'] = rng.choice([l for l in a._labels if l is not None])
    return st


@g('combine_pipes')
def _(Hh, rng):
    st = sg.GEN['combine'](Hh, rng)
    if st is None:
        return None
    st.pop('qconjs', None)
    st.pop('flat', None)
    st['op'] = 'combine_pipes'
    st['pipes'] = [dict(qconj=rng.choice([1, -1]), sort=rng.random() < 0.7, bunch=rng.random() < 0.7,
                        from_conj=rng.random() < 0.4, via=rng.choice(['make_pipe', 'LegPipe'])) for _ in st['groups']]
    return st


@g('misc')
def _(Hh, rng):
    how = rng.choice(['complex_conj', 'matvec', 'binary_args', 'drop_name', 'change_name', 'eq_other', 'helpers', 'inner_list', 'pickle'])
    st = dict(how=how, tag=how)
    if how == 'matvec':
        c = []
        for n in sg.names(Hh):
            a = Hh.env[n]
            if a.rank != 2 or not sg.no_zero_blocks(a):
                continue
            for m in sg.names(Hh):
                b = Hh.env[m]
                if b.rank == 1 and b.chinfo == a.chinfo and legs_contractible(a.legs[1], b.legs[0]) and sg.no_zero_blocks(b):
                    c.append((n, m))
        if not c:
            return None
        n, m = rng.choice(c)
        st.update(a=n, b=m, out=Hh.fresh())
    elif how == 'binary_args':
        b = sg.gen_bin(Hh, rng, False)
        if b is None:
            return None
        st.update(a=b['a'], b=b['b'], c=rng.choice([2.0, -1.0]), valid=True)
    elif how in ('drop_name', 'change_name'):
        n = sg.pick(Hh, rng, lambda a: a.chinfo.qnumber >= 1 and not dipolar(a))
        if not n:
            return None
        a = Hh.env[n]
        st.update(a=n, out=Hh.fresh(), give_chinfo=rng.random() < 0.6)
        if how == 'change_name':
            m = mods_of(a)[0]
            cand = [2, 3, 4] if m == 1 else [d for d in range(2, m) if m % d == 0]
            if not cand:
                return None
            st['mod'] = rng.choice(cand)
    elif how == 'inner_list':
        n = sg.pick(Hh, rng, lambda a: sg.size(a) <= sg.MAX_SIZE)
        if not n:
            return None
        st.update(a=n, valid=True)
    else:
        st.update(a=sg.any_t(Hh, rng))
        if how in ('complex_conj', 'pickle'):
            st['out'] = Hh.fresh()
    return st


# =========================================================================================================
# executors
# =========================================================================================================

def index_of(i):
    if isinstance(i, dict):
        if 's' in i:
            return slice(*i['s'])
        if 'm' in i:
            return np.array(i['m'], dtype=bool)
        return np.array(i['i'], dtype=np.intp)
    return i


def np_index(d, inds):
    """numpy reference of Array.__getitem__: every axis indexed independently (outer indexing), ints drop the axis"""
    for ax in reversed(range(len(inds))):
        i = inds[ax]
        if isinstance(i, (int, np.integer)):
            d = np.take(d, int(i), axis=ax)
        elif isinstance(i, slice):
            d = d[(slice(None),) * ax + (i,)]
        else:
            i = np.asarray(i)
            d = np.compress(i, d, axis=ax) if i.dtype == np.bool_ else np.take(d, i, axis=ax)
    return d


def int_data(rs, shape, dtype):
    x = rs.randint(-3, 4, size=shape).astype(np.float64)
    if dtype is not None and np.dtype(dtype).kind == 'c':
        x = x + 1j * rs.randint(-3, 4, size=shape)
    return x


def prep(Hh, st):
    op = st['op']
    env, io, npc, ch = Hh.env, Hh.io, Hh.npc, Hh.ch
    a = env[st['a']] if 'a' in st else None
    A = Hh.S(st['a']) if 'a' in st else None
    b = env[st['b']] if 'b' in st else None
    B = Hh.S(st['b']) if 'b' in st else None
    out = st.get('out')
    exact = not Hh.inexact

    # ------------------------------------------------------------------------------------------------ charge_map
    if op == 'charge_map':
        mods, q = mods_of(a), qt_of(a)
        if st['kind'] == 'scale':
            k = st['k']
            line = dict(op='charge_map', a=A, kind='scale', k=k)
            eq = valid(mods, [k * x for x in q])

            def call():
                ci = a.chinfo
                return a.apply_charge_mapping(lambda c: ci.make_valid(k * np.asarray(c)), inplace=st['inplace'])
        else:
            dx = st['dx']
            dp = list(zip(a.chinfo._charge_idcs, a.chinfo._dipole_idcs))
            line = dict(op='charge_map', a=A, kind='shift', pairs=[[int(c), int(d)] for c, d in dp], dx=dx)
            if dx == 0:
                line = dict(op='copy', a=A)   # trivial shift: the very same instance comes back, nothing is reset
            qq = list(q)
            for c, d in dp:
                qq[d] += dx * qq[c]
            eq = valid(mods, qq)

            def call():
                if st['how'] == 'shift_charges':
                    return a.shift_charges([dx, 0], inplace=st['inplace'])
                return a.shift_charges_horizontal(dx, inplace=st['inplace'])

        def run():
            d0 = dense(a)
            res = call()
            con = []
            if res is a and not st['inplace']:
                # trivial mapping: the same instance is returned (documented)
                if not (st['kind'] == 'shift' and st['dx'] == 0):
                    con.append('a non-trivial mapping returned the unmodified instance')
                return ret(Hh, contract=con, outs={'res': st['a']}, touched=[st['a']], qts={st['a']: eq})
            if st['inplace'] and res is not a:
                con.append('inplace=True returned another instance')
            if not close(dense(res), d0, True):
                con.append('apply_charge_mapping changed the entries')
            if st['inplace']:
                return ret(Hh, contract=con, outs={'res': st['a']}, touched=[st['a']], qts={st['a']: eq})
            return ret(Hh, [(out, res)], {out: eq}, con, outs={'res': out})
        return line, run
    # ------------------------------------------------------------------------------------------------ eq
    if op == 'eq':
        perm = label_perm(a._labels, b._labels)
        if perm is not None:
            st['tag'] = 'permuted-labels'
        same = st['a'] == st['b']
        line = None if same else dict(op='iadd', cy=Hh.cy, a=A, b=B, perm=perm, zero=False)

        def run():
            bd, ad = dense(b), dense(a)
            if perm is not None and bd is not None:
                bd = bd.transpose(perm)
            res = (a == b)
            con = []
            if ad is not None and bd is not None and ad.shape == bd.shape and exact:
                want = bool(np.max(np.abs(ad - bd), initial=0.0) < 1.e-14)
                if bool(res) != want:
                    con.append(f'a == b gives {res}, dense comparison gives {want}')
            if same:
                return ret(Hh, contract=con)
            if [int(x) for x in a.qtotal] != [int(x) for x in b.qtotal]:
                return ret(Hh, contract=con)   # returns False before any subtraction
            return ret(Hh, contract=con, outs={'b': st['b']}, touched=[st['b']])
        if line is not None and qt_of(a) != qt_of(b):
            line = None
        return line, run
    # ------------------------------------------------------------------------------------------------ divmul
    if op == 'divmul':
        x, how = st['x'], st['how']
        line = dict(op='iscale_prefactor', a=A, zero=(how in ('imul', 'rmul') and x == 0))

        def run():
            d0 = None if aliased(a) else dense(a)
            if how == 'truediv':
                res = a / x
            elif how == 'rmul':
                res = x * a
            elif how == 'itruediv':
                res = a.__itruediv__(x)
            else:
                res = a.__imul__(x)
            want = None if d0 is None else (d0 / x if 'div' in how else d0 * x)
            con = [] if close(dense(res), want, exact) else [f'{how}: wrong entries']
            if how in ('truediv', 'rmul'):
                return ret(Hh, [(out, res)], {out: qt_of(a)}, con, outs={'res': out})
            if res is not a:
                con.append(f'{how} returned another instance')
            return ret(Hh, contract=con, outs={'res': st['a']}, touched=[st['a']], qts={st['a']: qt_of(a)})
        return line, run
    # ------------------------------------------------------------------------------------------------ labels
    if op == 'labels_op':
        how = st['how']

        def run():
            labs = list(a._labels)
            con = []
            if how in ('ireplace_labels', 'replace_labels'):
                idx = [o if isinstance(o, int) else labs.index(o) for o in st['old']]
                want = list(labs)
                for i, nw in zip(idx, st['new']):
                    want[i] = nw
                res = a.ireplace_labels(st['old'], st['new']) if how == 'ireplace_labels' else a.replace_labels(st['old'], st['new'])
            elif how == 'idrop_labels':
                want = [None if l in st['old'] else l for l in labs]
                res = a.idrop_labels(st['old'])
            elif how == 'idrop_all':
                want = [None] * a.rank
                res = a.idrop_labels()
            elif how == 'iset_leg_labels':
                want = list(st['new'])
                res = a.iset_leg_labels(st['new'])
            else:
                want = [st['new'] if l == st['old'] else l for l in labs]
                res = a.ireplace_label(st['old'], st['new'])
            if list(res._labels) != want:
                con.append(f'{how}: labels {res._labels}, documented {want}')
            if how == 'replace_labels':
                if a._labels != labs:
                    con.append('replace_labels changed the labels of the original')
                return ret(Hh, [(out, res)], {out: qt_of(a)}, con, outs={'res': out})
            return ret(Hh, contract=con, outs={'res': st['a']}, touched=[st['a']], qts={st['a']: qt_of(a)})
        return dict(op='copy', a=A), run
    # ------------------------------------------------------------------------------------------------ info
    if op == 'info':
        def run():
            con = []
            how = st['how']
            d0 = dense(a)
            if how == 'sparse_stats':
                s = a.sparse_stats()
                if not isinstance(s, str):
                    con.append('sparse_stats() is not a string')
            elif how == 'str':
                str(a), repr(a), str(a.legs[0]), repr(a.legs[0]), str(a.chinfo), repr(a.chinfo)
            elif how in ('norm', 'npc.norm'):
                o = {'inf': np.inf, '-inf': -np.inf}.get(st['ord'], st['ord'])
                val = a.norm(o) if how == 'norm' else npc.norm(a, o)
                if d0 is not None:
                    flat = d0.reshape(-1)
                    want = np.count_nonzero(flat) if o == 0 else (np.linalg.norm(flat, o) if flat.size else 0.)
                    if o == -np.inf and len(a._data) < int(np.prod([l.block_number for l in a.legs])):
                        want = min(want, 0.)   # (documented: missing blocks count as zeros)
                    if not np.isclose(float(val), float(want), rtol=1.e-5, atol=1.e-6) and o != -np.inf:
                        con.append(f'norm(ord={st["ord"]}) = {val}, numpy {want}')
            elif how == 'get_block':
                for r in [list(x) for x in a._qdata][:3]:
                    blk = a.get_block(np.array(r, dtype=np.intp))
                    if blk is None:
                        con.append(f'get_block({r}) is None although the block is stored')
            elif how == 'props':
                if a.stored_blocks != len(a._data) or a.size != sum(t.size for t in a._data) or a.ndim != a.rank:
                    con.append('stored_blocks / size / ndim wrong')
                if bool(a.is_completely_blocked()) != all(len({tuple(int(x) for x in c) for c in l.charges}) == l.block_number
                                                           for l in a.legs):
                    con.append('is_completely_blocked() wrong')
                for l in a.legs:
                    cs = l.charge_sectors()
                    want = sorted({tuple(int(x) for x in c) for c in l.charges}, key=lambda c: c[::-1])
                    if [tuple(int(x) for x in c) for c in cs] != want:
                        con.append(f'charge_sectors() = {cs.tolist()}, expected {want}')
                    if l.is_blocked() and l.block_number > 0:
                        i = 0
                        if int(l.get_qindex_of_charges(l.get_charge(i))) != i:
                            con.append('get_qindex_of_charges(get_charge(0)) != 0')
            else:
                for block, slices, charges, qdat in a:
                    if d0 is not None and not close(d0[slices], block, True):
                        con.append('__iter__: block does not sit at its slices')
                        break
            return ret(Hh, contract=con)
        return None, run
    # ------------------------------------------------------------------------------------------------ inner2
    if op == 'inner2':
        def run():
            ad, bd = dense(a), dense(b)
            axes = st['axes']
            if isinstance(axes, list):
                ax_a = sg_ax(a, axes[0], st.get('lab'))
                ax_b = sg_ax(b, axes[1], st.get('lab'))
                arg = (ax_a, ax_b)
            else:
                arg = axes
            val = npc.inner(a, b, axes=arg, do_conj=st['do_conj'])
            con = []
            if ad is not None and bd is not None:
                if st.get('perm') is not None:
                    bd = bd.transpose(st['perm'])
                x = np.conj(ad) if st['do_conj'] else ad
                want = np.sum(x * bd)
                if not np.isclose(complex(val), complex(want), rtol=1.e-5, atol=1.e-6 * (1 + abs(want))):
                    con.append(f'inner = {val}, numpy {want}')
            return ret(Hh, contract=con)
        return None, run
    # ------------------------------------------------------------------------------------------------ constructors
    if op == 'ctor':
        how = st['how']
        rs = np.random.RandomState(st['dseed'])
        dt = None if st['dtype'] is None else np.dtype(st['dtype'])
        if how == 'trivial':
            def run():
                data = int_data(rs, st['shape'], dt)
                t = npc.Array.from_ndarray_trivial(data, dtype=dt, labels=st['labels'])
                con = [] if close(dense(t), data.astype(dt) if dt is not None else data, True) else ['from_ndarray_trivial: entries']
                return ret(Hh, [(out, t)], {out: []}, con)
            return None, run
        if how == 'func_square':
            leg = sg_leg(Hh, st['leg'])

            def run():
                t = npc.Array.from_func_square(lambda shape: int_data(rs, shape, dt or np.float64), leg, dtype=dt,
                                               labels=st['labels'])
                con = []
                if not (legs_same(t.legs[0], leg) and legs_contractible(t.legs[0], t.legs[1])):
                    con.append('from_func_square: legs are not (leg, leg.conj())')
                return ret(Hh, [(out, t)], {out: [0] * len(mods_of(t))}, con)
            return None, run
        legs = [dump_legS(l, io) for l in a.legs]
        qt = st['qtotal']
        labels = a._labels[:] if st.get('with_labels') else None
        line = dict(op='zeros' if how == 'zeros' else 'from_func', legs=legs, qtotal=qt)
        eq = valid(mods_of(a), qt) if qt is not None else [0] * len(mods_of(a))

        def run():
            if how == 'zeros':
                t = npc.zeros(a.legs, dt if dt is not None else np.float64, qt, labels)
            elif how == 'ones':
                t = npc.ones(a.legs, dt if dt is not None else np.float64, qt, labels)
            else:   # from_func with the dtype taken from the function's output and the shape passed by keyword
                if st['shape_kw']:
                    t = npc.Array.from_func(lambda size=None: int_data(rs, size, dt), a.legs, dtype=None, qtotal=qt,
                                            shape_kw='size', labels=labels)
                else:
                    t = npc.Array.from_func(lambda shape: int_data(rs, shape, dt), a.legs, None, qt, labels=labels)
            con = []
            if how == 'ones' and not all(np.all(blk == 1) for blk in t._data):
                con.append('ones: a block is not filled with ones')
            return ret(Hh, [(out, t)], {out: eq}, con, outs={'res': out})
        return line, run
    if op == 'eye_like':
        ax = st['axis'] + a.rank if st['axis'] < 0 else st['axis']
        leg = a.legs[ax]
        arg = a._labels[ax] if st.get('lab') and a._labels[ax] is not None else st['axis']

        def run():
            t = npc.eye_like(a, arg, st['labels'])
            con = [] if close(dense(t), np.eye(int(leg.ind_len)), True) else ['eye_like: not the identity']
            if not (legs_same(t.legs[0], leg) and legs_contractible(t.legs[0], t.legs[1])):
                con.append('eye_like: legs are not (leg, leg.conj())')
            return ret(Hh, [(out, t)], {out: [0] * len(mods_of(a))}, con, outs={'res': out})
        return dict(op='diag', leg=dump_legS(leg, io)), run
    if op == 'diag_vec':
        leg = a.legs[st['axis']]

        def run():
            s = np.array(st['s'])
            t = npc.diag(s, leg, dtype=None if st['dtype'] is None else np.dtype(st['dtype']), labels=None)
            con = [] if close(dense(t), np.diag(s), True) else ['diag: entries']
            return ret(Hh, [(out, t)], {out: [0] * len(mods_of(a))}, con, outs={'res': out})
        return dict(op='diag', leg=dump_legS(leg, io)), run
    # ------------------------------------------------------------------------------------------------ combine with pipes
    if op == 'combine_pipes':
        from tenpy.linalg.charges import LegPipe
        pipes = []
        for grp, ps in zip(st['groups'], st['pipes']):
            legs = [a.legs[k] for k in grp]
            if ps['from_conj']:
                p = LegPipe([l.conj() for l in legs], qconj=ps['qconj'], sort=ps['sort'], bunch=ps['bunch'])
            elif ps['via'] == 'make_pipe':
                p = a.make_pipe(grp, qconj=ps['qconj'], sort=ps['sort'], bunch=ps['bunch'])
            else:
                p = LegPipe(legs, qconj=ps['qconj'], sort=ps['sort'], bunch=ps['bunch'])
            pipes.append(p)
        line = dict(op='combine_pipes', a=A, groups=st['groups'], new_axes=st['new_axes'], pipes=[io.dump_pipe(p) for p in pipes])

        def run():
            groups = [sg_ax(a, grp, st.get('lab')) for grp in st['groups']]
            kw = {}
            if st['new_axes'] is not None:
                kw['new_axes'] = list(st['new_axes'])
            d0 = dense(a)
            res = a.combine_legs(groups, pipes=pipes, **kw)
            con = []
            if d0 is not None and res.rank >= 1:
                back = res.split_legs()
                # split(combine(a)) is `a` up to the transposition that brought the groups together
                if int(np.prod(back.shape)) != int(np.prod(a.shape)) or not np.isclose(np.linalg.norm(back.to_ndarray()), np.linalg.norm(d0)):
                    con.append('split_legs(combine_legs(a, pipes=...)) lost entries')
            return ret(Hh, [(out, res)], {out: qt_of(a)}, con, outs={'res': out})
        return line, run
    # ------------------------------------------------------------------------------------------------ misc
    if op == 'misc':
        how = st['how']
        if how == 'complex_conj':
            return dict(op='copy', a=A), lambda: ret(Hh, [(out, a.complex_conj())], {out: qt_of(a)},
                                                      [] if close(dense(a.complex_conj()), None if dense(a) is None else np.conj(dense(a)), True) else ['complex_conj: entries'],
                                                      outs={'res': out})
        if how == 'pickle':
            def run():
                import pickle
                res = pickle.loads(pickle.dumps(a))
                con = [] if close(dense(res), dense(a), True) else ['pickle round trip: entries']
                return ret(Hh, [(out, res)], {out: qt_of(a)}, con, outs={'res': out})
            return dict(op='copy', a=A), run
        if how == 'matvec':
            line = dict(op='tensordot', cy=Hh.cy, a=A, b=B, axes=1)

            def run():
                want = None if dense(a) is None else dense(a) @ dense(b)
                res = a.matvec(b)
                con = [] if close(dense(res), want, exact) else ['matvec: entries']
                return ret(Hh, [(out, res)], {out: valid(mods_of(a), [x + y for x, y in zip(qt_of(a), qt_of(b))])}, con, outs={'res': out})
            return line, run
        if how == 'binary_args':
            perm = label_perm(a._labels, b._labels)
            if perm is not None:
                st['tag'] = 'permuted-labels'
            line = dict(op='ibinary', a=A, b=B, perm=perm)

            def run():
                bd, ad = (None, None) if aliased(a, b) else (dense(b), dense(a))
                if perm is not None and bd is not None:
                    bd = bd.transpose(perm)
                c = st['c']
                a.ibinary_blockwise(lambda x, y, cc, dd=0.: x + cc * y + dd, b, c, dd=0.)
                con = [] if ad is None or bd is None or ad.shape != bd.shape or close(dense(a), ad + c * bd, exact) else ['ibinary_blockwise(f, b, *args): entries']
                return ret(Hh, contract=con, outs={'res': st['a'], 'b': st['b']}, touched=[st['a'], st['b']], qts={st['a']: qt_of(a)})
            return line, run
        if how == 'drop_name':
            from tenpy.linalg.charges import ChargeInfo
            line = dict(op='drop_charge', a=A, k=0, nz=[])

            def run():
                ci2 = ChargeInfo.drop(a.chinfo, 0) if st['give_chinfo'] else None
                res = a.drop_charge(a.chinfo.names[0], ci2)
                con = [] if close(dense(res), dense(a), True) else ['drop_charge: entries']
                return ret(Hh, [(out, res)], {out: qt_of(a)[1:]}, con, outs={'res': out})
            return line, run
        if how == 'change_name':
            from tenpy.linalg.charges import ChargeInfo
            m = st['mod']
            line = dict(op='change_charge', a=A, k=0, mod=m)

            def run():
                ci2 = ChargeInfo.change(a.chinfo, 0, m, 'par') if st['give_chinfo'] else None
                res = a.change_charge(a.chinfo.names[0], m, 'par', ci2)
                con = []
                if res.chinfo.names[0] != 'par':
                    con.append('change_charge: new name not set')
                m2 = [m] + mods_of(a)[1:]
                return ret(Hh, [(out, res)], {out: valid(m2, qt_of(a))}, con, outs={'res': out})
            return line, run
        if how == 'eq_other':
            def run():
                con = []
                if (a == 3) is not False and (a == 3) is not NotImplemented and bool(a == 3):
                    con.append('a == 3 is true')
                if not (a == a):
                    con.append('a == a is false')
                return ret(Hh, contract=con)
            return None, run
        if how == 'helpers':
            def run():
                con = []
                if npc.to_iterable_arrays(a) != [a] or list(npc.to_iterable_arrays([a, a])) != [a, a]:
                    con.append('to_iterable_arrays')
                for i, l in enumerate(a._labels):
                    if l is not None and (not a.has_label(l) or a.get_leg(l) is not a.legs[i] or a.get_leg_index(l) != i):
                        con.append('has_label / get_leg / get_leg_index')
                if a.has_label('no-such-label'):
                    con.append('has_label of an unknown label')
                d0 = dense(a)
                if d0 is not None and d0.dtype.kind in 'fc':
                    for o in (None, 1, np.inf):
                        if not np.isclose(npc.norm(d0, o), np.linalg.norm(d0.reshape(-1), o) if d0.size else 0.):
                            con.append('npc.norm(ndarray)')
                    if not np.isclose(npc.norm([a, d0]), np.sqrt(2) * np.linalg.norm(d0.reshape(-1)), rtol=1.e-5, atol=1.e-6):
                        con.append('npc.norm(list)')
                return ret(Hh, contract=con)
            return None, run
        if how == 'inner_list':
            def run():
                d0 = dense(a)
                val = npc.inner([a, a], [a, a], axes='range', do_conj=True)
                con = []
                if d0 is not None and not np.isclose(complex(val), 2 * np.sum(np.abs(d0.astype(complex)) ** 2), rtol=1.e-5, atol=1.e-6):
                    con.append('inner of lists')
                if None not in a._labels:
                    ac = a.conj()
                    v2 = npc.inner(a, ac, axes='labels', do_conj=False)
                    if d0 is not None and not np.isclose(complex(v2), np.sum(np.abs(d0.astype(complex)) ** 2), rtol=1.e-5, atol=1.e-6):
                        con.append("inner(a, a.conj(), axes='labels')")
                return ret(Hh, contract=con)
            return None, run
        raise KeyError(how)
    return prep2(Hh, st, a, A, b, B, out, exact)


def sg_ax(a, axes, use_labels):
    if use_labels and all(a._labels[i] is not None for i in axes):
        return [a._labels[i] for i in axes]
    return list(axes)


def sg_leg(Hh, spec):
    l = Hh.pool[spec['pool']]
    return l.conj() if spec.get('conj') else l


from harness.c02_cover2 import prep2  # noqa: E402
