"""C17 — saving and loading reproduces an equal object (HDF5 in every leg format, pickle, deepcopy)."""
import collections
import json
import os
import multiprocessing
import random
import time

from vlib import core
from harness import c17_cases as K
from harness import c17_graph as G

PROP = 'C17'
MODEL_MODULES = ['TenpyModel.Util.J', 'TenpyModel.C17.Graph', 'TenpyModel.C17.Legs']
PROPS_MODULES = ['TenpyModel.C17.PropsLegs', 'TenpyModel.C17.PropsGraph', 'TenpyModel.C17.Props2']
LEAN_MODULES = PROPS_MODULES
LEVEL = 'proof'
BUDGET = {'quick': 175, 'thorough': 1500}
RULE = ('four streams, every case replayable from (seed, index): (zoo) every class of the installed tenpy package that has a '
        'save_hdf5 attribute (found by reflection, new classes included) x generated instances x leg format in '
        '{blocks, compact, flat}, the instance referenced twice below one root; (graph) random object graphs of Python/numpy '
        'leaves, list/tuple/set/dict(simple and general keys)/default-Hdf5Exportable/pickle-fallback objects with sharing, '
        'self-reference and cycles, optionally holding zoo instances; (leg) random LegCharge (unsorted, repeated sectors, '
        'empty, Z_N, dipolar charge info) x format; (linalg) random ChargeInfo / LegPipe / Array (missing blocks, pipes, '
        'shared legs) x format. Each root goes through HDF5, pickle and deepcopy; the copy is compared with the original by a '
        'generic structural comparer (types, __dict__ of every instance, dense arrays, flags) that also checks that the '
        'object-identity pattern is a bijection and calls test_sanity() on every object of the copy. The written file is '
        'walked with h5py (groups, datasets, hard-link classes by object id) and compared exactly with the Lean model\'s '
        '`save` of the reflected object graph; for plain container graphs the loaded object graph is compared with the '
        'model\'s `load`. A case is non-trivial when it has >= 3 containers and sharing or a cycle (graph) / any class '
        'instance (zoo, linalg) / a leg with >= 2 blocks (leg); distinct by content hash.')
TRUSTED = ['Lean 4.33 kernel; axioms of every C17_* theorem within {propext, Classical.choice, Quot.sound}',
           'hand-written model TenpyModel/C17/{Graph,Legs}.lean, tied to tenpy/tools/hdf5_io.py and tenpy/linalg/charges.py by '
           'this correspondence run',
           'reflection of Python objects into model nodes: own traversal for builtin containers, trace of the calls '
           '`saver.save(obj, path)` made by each class\'s save_hdf5 (subclass of Hdf5Saver overriding only `save` and '
           '`save_iterable` to record their arguments) for class instances',
           'h5py: group/dataset/attribute/hard-link semantics and ObjectID equality; pickle; copy.deepcopy',
           'the structural comparer harness/c17_graph.py::Compare']
ASSUMPTIONS = ['id(obj) is stable while the saver holds a reference (memo_save stores the object)',
               'str(i) is injective on naturals; HDF5 iterates link names in increasing byte order = code-point order',
               'None is a singleton: re-running load_none is indistinguishable from a memo hit']


ANCHOR_COVERAGE_NOTE = ('measured 2026-09-26 with coverage.py --branch, quick tier seed 0, all cases evaluated in-process: '
                        'tenpy/tools/hdf5_io.py 78.3% lines (414/529), 88/140 branches before the coverage round -> 97.7% lines '
                        '(519/531), 140/144 branches after; bodies of all save_hdf5/from_hdf5/__getstate__/__setstate__ methods of '
                        'the package 94.9% -> 99.1% of 452 statements. Not executed: import fallbacks, numpy<1.20 / h5py<3 branches, '
                        'the unreachable "no __reduce__" error, the legacy tuple branch of Array.__setstate__ (TenPy 0.3.0 pickles).')

# --------------------------------------------------------------------------------------------
# cases


def zoo_choices(rng, n=6):
    names = sorted(K.classes())
    return [{'t': 'zoo', 'cls': rng.choice(names), 'seed': 0, 'i': rng.randrange(3)} for _ in range(n)]


def make_cases(ctx, n_graph, n_leg, n_linalg, zoo_seeds, zoo_all, n_api=2):
    """returns (first, rest): `first` = every discovered class once (instance 0, default format), evaluated before
    anything else so that a deadline cut never drops a class; `rest` is shuffled by the caller."""
    first, rest = [], []
    names = sorted(K.classes())
    for zs in zoo_seeds:
        for cn in names:
            n_inst = len(K.zoo_instances(cn, zs)) or 1
            rng = ctx.sub_rng('zoo:%s:%d' % (cn, zs))
            for i in range(n_inst):
                wrap = 'dict' if (i + zs) % 2 == 0 else 'list'
                if zoo_all:
                    fmts = K.FORMATS
                elif i == 0:
                    # flat cannot load anything holding a tensor (known finding): sample it
                    fmts = ('blocks', 'compact') + (('flat',) if (cn.startswith('tenpy.linalg') or rng.random() < 0.2) else ())
                else:
                    fmts = (rng.choice(['blocks', 'compact']),)
                for fmt in fmts:
                    c = {'kind': 'zoo', 'cls': cn, 'seed': zs, 'i': i, 'fmt': fmt, 'wrap': wrap}
                    (first if (i == 0 and fmt == 'blocks' and zs == zoo_seeds[0]) else rest).append(c)
    # API / rarely-taken-branch scenarios (harness/c17_api.py): cheap, always evaluated
    from harness import c17_api
    for name in c17_api.SCENARIOS:
        for k in range(n_api):
            first.append({'kind': 'api', 'name': name, 'seed': ctx.sub_rng('api:%s:%d' % (name, k)).randrange(2 ** 31)})
    for n in range(n_graph):
        rng = ctx.sub_rng('graph:%d' % n)
        with_zoo = rng.random() < 0.12
        spec = K.gen_spec(rng, zoo_choices=zoo_choices(rng) if with_zoo else None,
                          allow_tuple_cycle=rng.random() < 0.06, allow_reduce=rng.random() < 0.3)
        rest.append({'kind': 'graph', 'index': n, 'spec': spec})
    for n in range(n_leg):
        s = ctx.sub_rng('leg:%d' % n).randrange(2 ** 31)
        for fmt in K.FORMATS:
            rest.append({'kind': 'leg', 'seed': s, 'fmt': fmt})
    for n in range(n_linalg):
        rng = ctx.sub_rng('linalg:%d' % n)
        c = {'kind': 'linalg', 'seed': rng.randrange(2 ** 31), 'what': rng.choice(['chinfo', 'pipe', 'array', 'array']),
             'fmt': rng.choice(K.FORMATS + ('blocks',))}
        if c['what'] == 'pipe':
            # pipes as constructed, and pipes derived from them (these keep the block order of their origin)
            c['derived'] = rng.choice([None, None, None, 'conj', 'outer_conj', 'outer_conj', 'outer_conj2', 'mapped'])
        rest.append(c)
    return first, rest


def corpus_cases():
    out = []
    d = core.CORPUS_DIR / PROP
    if d.is_dir():
        for f in sorted(d.glob('*.json')):
            j = json.loads(f.read_text())
            out += j if isinstance(j, list) else [j.get('case', j)]
    return out


# --------------------------------------------------------------------------------------------
# evaluation


def evaluate(cases, pool, deadline):
    recs = []
    if pool is None:
        for c in cases:
            if time.time() > deadline:
                break
            recs.append(K.eval_case(c))
        return recs
    for r in pool.imap(K.eval_case, cases, chunksize=4):
        recs.append(r)
        if time.time() > deadline:
            break
    return recs


def run_cases(res, cases, procs, deadline, use_model=True, batch=1000):
    """evaluate on the real code (worker processes), compare with the model batch by batch (bounded memory)"""
    pool = multiprocessing.Pool(procs) if procs > 1 else None
    done = 0
    try:
        for b in range(0, len(cases), batch):
            if time.time() > deadline:
                break
            recs = evaluate(cases[b:b + batch], pool, deadline)
            done += len(recs)
            model_compare(res, recs, use_model)
    finally:
        if pool is not None:
            pool.terminate()
    return done


def model_compare(res, recs, use_model=True):
    """Batch the driver, diff model vs implementation; turn oracle failures into property failures."""
    lines, where = [], []
    if use_model:
        for n, rec in enumerate(recs):
            if rec.get('heap') and not rec.get('unsupported'):
                lines.append({'k': 'graph', 'nodes': rec['heap']['nodes'], 'root': rec['heap']['root']})
                where.append((n, 'graph'))
            if rec.get('leg'):
                lines.append(dict(k='leg', **rec['leg']))
                where.append((n, 'leg'))
    outs = core.run_driver(PROP, lines) if lines else []
    by_rec = collections.defaultdict(dict)
    for (n, what), o in zip(where, outs):
        by_rec[n][what] = o
    seen_sig = res.extra.setdefault('failure_signature_counts', {})
    for n, rec in enumerate(recs):
        case = rec['case']
        res.note_case(_case_key(case), rec.get('nontrivial', False))
        for k, v in rec['hist'].items():
            res.count(k, v)
        if rec.get('harness_error'):
            res.count('harness-error')
            res.extra.setdefault('harness_errors', []).append(str(rec['harness_error'])[-400:])
        oracle_failed = bool(rec['fails'])
        for sig, detail in rec['fails']:
            seen_sig[sig] = seen_sig.get(sig, 0) + 1
            if seen_sig[sig] <= 2:
                res.fail('property', sig, detail, _small_case(case, sig))
        m = by_rec.get(n, {})
        if 'graph' in m:
            res.traces_validated += 1
            o = m['graph']
            problem = None
            if 'error' in o:
                problem = ('graph.driver-error', o['error'])
            elif not o.get('wf'):
                problem = ('graph.reflected-heap-not-wf', 'the reflected heap violates WF (hypothesis of C17_graph_roundtrip)')
            elif o.get('file') is None:
                problem = ('graph.model-save-fails', 'model save returned none')
            else:
                mf = G.canonical(o['file']['nodes'], o['file']['root'])
                d = G.first_graph_diff(mf, rec['file'])
                if d:
                    problem = ('graph.file-vs-model', 'model vs file: ' + d)
                elif rec.get('loaded') is not None:
                    if o.get('loaded') is None:
                        problem = ('graph.model-load-fails', 'model load returned none')
                    else:
                        ml = G.canonical(o['loaded']['nodes'], o['loaded']['root'], inline_scalars=True, sort_sets=True)
                        d = G.first_graph_diff(ml, rec['loaded'])
                        if d:
                            problem = ('graph.loaded-vs-model', 'model vs loaded object: ' + d)
                    if rec.get('tuple_cycle'):
                        res.count('graph.tuple-cycle-bug-reproduced-by-model', 0 if problem else 1)
            if problem and not oracle_failed:
                res.fail('correspondence', problem[0], problem[1][:1500], _small_case(case, None))
        if 'leg' in m:
            res.traces_validated += 1
            o = m['leg']
            problem = None
            if 'error' in o:
                problem = ('leg.driver-error', o['error'])
            elif rec.get('leg_file') is not None and o.get('file') != rec['leg_file']:
                problem = ('leg.file-vs-model', 'model %s file %s' % (o.get('file'), rec['leg_file']))
            elif rec.get('leg_loaded') is not None and o.get('decoded') != rec['leg_loaded']:
                problem = ('leg.loaded-vs-model', 'model %s loaded %s' % (o.get('decoded'), rec['leg_loaded']))
            elif rec.get('leg_file') is not None and rec.get('leg_loaded') is None and o.get('decoded') is not None:
                problem = ('leg.loaded-vs-model', 'model decodes, implementation raised')
            if problem and not oracle_failed:
                res.fail('correspondence', problem[0], problem[1][:1500], case)


def _case_key(case):
    if case['kind'] == 'graph':
        return {'kind': 'graph', 'spec': case['spec']}
    return case


def _small_case(case, sig):
    """shrink graph cases against the oracle (same signature)"""
    if case['kind'] != 'graph' or sig is None:
        return case
    spec = case['spec']

    def fails(sp):
        try:
            rec = K.eval_graph({'kind': 'graph', 'spec': sp})
        except Exception:
            return False
        return any(s == sig for s, _ in rec['fails'])

    small = shrink_spec(spec, fails)
    return {'kind': 'graph', 'spec': small, 'original_index': case.get('index')}


def shrink_spec(spec, fails, max_evals=150):
    cur = json.loads(json.dumps(spec))
    evals = [0]

    def attempt(cand):
        if evals[0] >= max_evals:
            return False
        evals[0] += 1
        try:
            return fails(cand)
        except Exception:
            return False

    changed = True
    while changed and evals[0] < max_evals:
        changed = False
        for i, nd in enumerate(cur['nodes']):
            for field in ('kids', 'vals', 'fields'):
                if field not in nd:
                    continue
                for k in range(len(nd[field]) - 1, -1, -1):
                    cand = json.loads(json.dumps(cur))
                    del cand['nodes'][i][field][k]
                    if field == 'vals':
                        del cand['nodes'][i]['keys'][k]
                    if attempt(cand):
                        cur, changed = cand, True
                        nd = cur['nodes'][i]
        for i, nd in enumerate(cur['nodes']):
            if i == cur['root'] or nd['t'] == 'none':
                continue
            if any(i in n.get('keys', []) for n in cur['nodes']):
                continue
            cand = json.loads(json.dumps(cur))
            cand['nodes'][i] = {'t': 'none'}
            if attempt(cand):
                cur, changed = cand, True
    return cur


# --------------------------------------------------------------------------------------------
# entry points


def run(ctx):
    res = core.Result()
    t0 = time.time()
    deadline = ctx.t0 + ctx.budget_s * (0.62 if ctx.quick else 0.80)  # leaves room for the model pass, shrinking, audit
    if os.environ.get('C17_NO_DEADLINE'):  # coverage measurements only (in-process evaluation is slow)
        deadline = ctx.t0 + 10 ** 6
    if ctx.quick:
        first, rest = make_cases(ctx, n_graph=500, n_leg=120, n_linalg=140, zoo_seeds=[ctx.seed], zoo_all=False)
        procs = int(os.environ.get('C17_PROCS', '6'))  # C17_PROCS=1: in-process (used for coverage measurements)
    else:
        first, rest = make_cases(ctx, n_graph=20000, n_leg=4000, n_linalg=4000, zoo_seeds=[ctx.seed * 7 + k for k in range(6)],
                                 zoo_all=True, n_api=40)
        procs = 15
    random.Random('order:%d' % ctx.seed).shuffle(rest)  # a deadline cut keeps every stream represented
    cases = corpus_cases() + first + rest
    done = run_cases(res, cases, procs, deadline)
    res.extra['cases_planned'] = len(cases)
    res.extra['cases_run'] = done
    res.extra['classes_discovered'] = len(K.classes())
    res.extra['classes_exercised'] = len([k for k in res.hist if k.startswith('class.')])
    res.extra['classes_without_instance'] = sorted(k.split(':', 1)[1] for k in res.hist if k.startswith('zoo.no-instance:'))
    res.extra['eval_seconds'] = round(time.time() - t0, 1)
    res.extra['anchor_coverage_note'] = ANCHOR_COVERAGE_NOTE
    return res


def search(ctx, reasons):
    """oracle only, other seeds, bigger budget"""
    res = core.Result()
    ctx2 = core.Ctx(PROP, ctx.tier, ctx.seed + 1000003, ctx.budget_s)
    first, rest = make_cases(ctx2, n_graph=1500 if ctx.quick else 30000, n_leg=300 if ctx.quick else 5000,
                             n_linalg=300 if ctx.quick else 5000, zoo_seeds=[ctx.seed + 1], zoo_all=True)
    random.Random('search:%d' % ctx.seed).shuffle(rest)
    cases = corpus_cases() + first + rest
    run_cases(res, cases, 12, time.time() + (30 if ctx.quick else 600), use_model=False)
    return res


def replay(ctx, payload):
    res = core.Result()
    case = payload.get('case', payload)
    recs = [K.eval_case(case)]
    model_compare(res, recs)
    return res
