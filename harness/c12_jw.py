"""C12, part `chain`: Jordan-Wigner machinery on chains of up to 6 sites.

For every generated term (pairs: all of them; quadruples and longer / odd terms: sampled; any order; repeated
sites; compound names):
  * `order_combine_term`, `coupling_term_handle_JW`, `multi_coupling_term_handle_JW`, `MPS._term_to_ops_list`,
    the autoJW decision of `MPS.correlation_function`: output strings compared *exactly* with the Lean model;
  * TermList -> OnsiteTerms/CouplingTerms -> MPOGraph -> MPO -> ExactDiag dense matrix compared with the ordered
    product of Jordan-Wigner images built by explicit numpy kron (independent oracle), dense anticommutators
    compared with the canonical values;
  * `expectation_value_term`, `correlation_function`, `apply_local_term` on random MPS compared with dense
    <psi|O|psi> of the same oracle.
"""
import itertools
import warnings

import numpy as np

from vlib import core
from harness import c12_common as cc

TOL = 1e-11

# need_JW_string of the model's site tables (cross-checked against the real sites in every chain)
NJW = {'fermion': ['C', 'Cd', 'JW'], 'shFermion': ['Cd', 'Cdd', 'Cdu', 'Cu', 'JW', 'JWd', 'JWu'],
       'shHole': ['Cd', 'Cdd', 'Cdu', 'Cu', 'JW', 'JWd', 'JWu'], 'spinHalf': ['JW'], 'spin': ['JW'],
       'boson': ['JW'], 'clock': ['JW']}


# ------------------------------------------------------------------------------------------------
# chains

def gen_chain(rng, quick, idx):
    """A chain = list of site specs (+ how charges are made common)."""
    kinds = ['f-none', 'f-N', 'f-parity', 'mixed-none', 'mixed-none', 'mixed-common', 'spinful-N', 'bf-none', 'bf-common']
    kind = kinds[idx % len(kinds)] if idx < 2 * len(kinds) else rng.choice(kinds)
    fil = [1, 2]
    if kind.startswith('f-'):
        L = rng.randint(2, 6) if idx >= 3 else 6
        cons = {'f-none': None, 'f-N': 'N', 'f-parity': 'parity'}[kind]
        return dict(kind=kind, specs=[dict(cls='fermion', cons=cons, filling=fil)] * L, common=None)
    if kind.startswith('bf-'):
        # bosonic and fermionic sites interleaved in one chain / unit cell: the site an operator acts on decides
        # whether it needs a string, not the position in the term
        cons = None if kind == 'bf-none' else 'N'
        B = rng.choice([dict(cls='boson', nmax=1, cons=cons, filling=[0, 1]), dict(cls='boson', nmax=2, cons=cons, filling=[0, 1])] +
                       ([dict(cls='spinHalf', cons=None)] if cons is None else []))
        F = dict(cls='fermion', cons=cons, filling=fil)
        pat = rng.choice([[B, F, F, B, F, F], [B, F, F, B, F], [F, B, F, F, B], [B, B, F, F, B, F]])
        return dict(kind=kind, specs=[dict(x) for x in pat], common=None if cons is None else 'independent')
    if kind == 'spinful-N':
        L = rng.randint(2, 3)
        cN, cS = rng.choice([('N', 'Sz'), ('parity', None), ('N', 'parity'), ('parity', 'Sz')])
        cls = rng.choice(['shFermion', 'shFermion', 'shHole'])
        return dict(kind=kind, specs=[dict(cls=cls, consN=cN, consSz=cS, filling=[1, 1])] * L, common=None)
    pool_none = [dict(cls='fermion', cons=None, filling=fil), dict(cls='fermion', cons=None, filling=fil),
                 dict(cls='shFermion', consN=None, consSz=None, filling=[1, 1]),
                 dict(cls='shHole', consN=None, consSz=None, filling=[1, 1]),
                 dict(cls='spinHalf', cons=None), dict(cls='boson', nmax=2, cons=None, filling=[0, 1]),
                 dict(cls='spin', twoS=2, cons=None)]
    pool_common = [dict(cls='fermion', cons='N', filling=fil), dict(cls='fermion', cons='N', filling=fil),
                   dict(cls='shFermion', consN='N', consSz='Sz', filling=[1, 1]),
                   dict(cls='shHole', consN='N', consSz='Sz', filling=[1, 1]),
                   dict(cls='spinHalf', cons='Sz'), dict(cls='boson', nmax=2, cons='N', filling=[0, 1]),
                   dict(cls='fermion', cons='parity', filling=fil)]
    pool = pool_none if kind == 'mixed-none' else pool_common
    dims = {'fermion': 2, 'shFermion': 4, 'shHole': 3, 'spinHalf': 2, 'boson': 3, 'spin': 3}
    cap = 200 if quick else 520
    while True:
        L = rng.randint(2, 6)
        specs = [dict(rng.choice(pool)) for _ in range(L)]
        D = int(np.prod([dims[s['cls']] for s in specs]))
        nferm = sum(s['cls'] in ('fermion', 'shFermion', 'shHole') for s in specs)
        if D <= cap and nferm >= 2:
            break
    policy = None
    if kind == 'mixed-common':
        policy = rng.choice(['same', 'same', 'independent'])
        # 'parity' and 'N' named charges differ in name, so 'same' keeps them separate - fine
    return dict(kind=kind, specs=specs, common=policy)


def build_chain(chain):
    from tenpy.networks import site as S
    specs = chain['specs']
    if chain['common'] is None:
        cache = {}
        sites = []
        for s in specs:
            k = cc.spec_key(s)
            if k not in cache:
                cache[k] = cc.make_site(s)
            sites.append(cache[k])
        return sites
    sites = [cc.make_site(s) for s in specs]
    with warnings.catch_warnings():
        warnings.simplefilter('ignore')
        S.set_common_charges(sites, chain['common'])
    return sites


def site_words(site, rng=None):
    """(odd words, even words) incl. compound names"""
    odd, even = cc.fermionic_names(site)
    odd_w = list(odd)
    even_w = [e for e in even]
    if odd:
        even_w += [f'{a} {b}' for a in odd for b in odd][:6]
        odd_w += [f'{a} {e}' for a in odd[:2] for e in even if e != 'Id'][:3] + [f'{odd[0]} {odd[-1]} {odd[0]}']
    return odd_w, even_w


def word_is_odd(word):
    return sum(n in cc.ODD_NAMES for n in word.split()) % 2 == 1


# ------------------------------------------------------------------------------------------------
# implementation wrappers (each returns canonical JSON-able data or {'err': class})

def impl_oc(term, sites):
    from tenpy.networks.terms import order_combine_term
    t, sign = order_combine_term([(w, i) for w, i in term], sites)
    return {'term': [[cc.norm_name(w), int(i)] for w, i in t], 'sign': int(sign)}


def _err(e):
    return {'err': type(e).__name__}


def impl_cjw(term, sites, op_string=None):
    from tenpy.networks.terms import CouplingTerms
    ct = CouplingTerms(len(sites))
    try:
        with warnings.catch_warnings():
            warnings.simplefilter('ignore')
            _, i, j, oi, oj, s = ct.coupling_term_handle_JW(1.0, [(w, i) for w, i in term], sites, op_string)
        return {'ok': [int(i), int(j), cc.norm_name(oi), cc.norm_name(oj), s]}
    except (ValueError, AssertionError) as e:
        return _err(e)


def impl_mjw(term, sites, op_string=None):
    from tenpy.networks.terms import MultiCouplingTerms
    ct = MultiCouplingTerms(len(sites))
    try:
        with warnings.catch_warnings():
            warnings.simplefilter('ignore')
            _, ijkl, ops, strs = ct.multi_coupling_term_handle_JW(1.0, [(w, i) for w, i in term], sites, op_string)
        return {'ok': [[int(i) for i in ijkl], [cc.norm_name(o) for o in ops], list(strs)]}
    except (ValueError, AssertionError) as e:
        return _err(e)


def model_err_class(m):
    if 'err' in m:
        return {'err': m['err'].split(':')[0]}
    return m


class RecordMultiply:
    """Record the name lists handed to Site.multiply_operators (the output strings of _term_to_ops_list)."""

    def __enter__(self):
        from tenpy.networks.site import Site
        self.Site = Site
        self.orig = Site.multiply_operators
        self.calls = []
        rec = self

        def wrapped(site, operators):
            rec.calls.append([cc.norm_name(o) if isinstance(o, str) else '<array>' for o in operators])
            return rec.orig(site, operators)

        Site.multiply_operators = wrapped
        return self

    def __exit__(self, *a):
        self.Site.multiply_operators = self.orig


def impl_t2o(psi, term, autoJW=True, i_offset=0, from_right=False):
    with RecordMultiply() as rec:
        ops, i_min, extra = psi._term_to_ops_list([(w, i) for w, i in term], autoJW, i_offset, from_right)
    return {'ops': rec.calls, 'i_min': int(i_min), 'extra': bool(extra)}


# ------------------------------------------------------------------------------------------------
# random states

def random_state(nprng, sites):
    """(MPS, dense vector in the kron order of the sites' current bases); definite charge if charges are conserved"""
    import tenpy.linalg.np_conserved as npc
    from tenpy.networks.mps import MPS
    dims = [s.dim for s in sites]
    D = int(np.prod(dims))
    chinfo = sites[0].leg.chinfo
    tot = np.zeros((D, chinfo.qnumber), int)
    if chinfo.qnumber:
        tot = np.zeros((1, chinfo.qnumber), int)
        for s in sites:
            q = s.leg.to_qflat() * s.leg.qconj
            tot = (tot[:, None, :] + q[None, :, :]).reshape(-1, chinfo.qnumber)
        tot = chinfo.make_valid(tot)
    ref = int(nprng.integers(D))
    mask = np.all(tot == tot[ref], axis=1) if chinfo.qnumber else np.ones(D, bool)
    if mask.sum() < 3:  # take the biggest sector instead
        uniq, inv, cnt = np.unique(tot, axis=0, return_inverse=True, return_counts=True)
        mask = (inv.reshape(-1) == np.argmax(cnt))
        ref = int(np.argmax(mask))
    vec = np.zeros(D, complex)
    n = int(mask.sum())
    vec[mask] = nprng.normal(size=n) + 1j * nprng.normal(size=n)
    vec /= np.linalg.norm(vec)
    with warnings.catch_warnings():
        warnings.simplefilter('ignore')
        arr = npc.Array.from_ndarray(vec.reshape(dims), [s.leg for s in sites], dtype=complex,
                                     qtotal=tot[ref] if chinfo.qnumber else None,
                                     labels=['p%d' % i for i in range(len(sites))])
        psi = MPS.from_full(sites, arr, bc='finite', unit_cell_width=len(sites))
    return psi, vec


def mps_to_dense(psi):
    th = psi.get_theta(0, psi.L).to_ndarray()
    return th.reshape(-1) * psi.norm


# ------------------------------------------------------------------------------------------------
# term generation

def gen_terms(rng, sites, quick):
    L = len(sites)
    words = [site_words(s) for s in sites]
    ferm = [i for i in range(L) if words[i][0]]
    atomic_odd = [cc.fermionic_names(s)[0] for s in sites]
    pairs = []
    for i in ferm:
        for j in ferm:
            for a in atomic_odd[i]:
                for b in atomic_odd[j]:
                    pairs.append([[a, i], [b, j]])
    cap = 150 if quick else 600
    if len(pairs) > cap:
        # keep every site pair, sample the operator choices
        keep = {}
        rng.shuffle(pairs)
        out = []
        for p in pairs:
            k = (p[0][1], p[1][1])
            if keep.get(k, 0) < max(2, cap // (len(ferm) ** 2)):
                keep[k] = keep.get(k, 0) + 1
                out.append(p)
        # both orders are needed for the anticommutator: add the mirror of each kept pair
        have = {tuple(map(tuple, p)) for p in out}
        for p in list(out):
            m = [p[1], p[0]]
            if tuple(map(tuple, m)) not in have:
                out.append(m)
                have.add(tuple(map(tuple, m)))
        pairs = out

    def rand_entry(odd=None):
        i = rng.choice(ferm) if (odd or (odd is None and rng.random() < 0.8)) else rng.randrange(L)
        ow, ew = words[i]
        if odd is None:
            odd = bool(ow) and rng.random() < 0.7
        if odd and not ow:
            odd = False
        w = rng.choice(ow if odd else ew)
        return [w, i]

    multi = []
    nq = 60 if quick else 300
    for _ in range(nq):
        n = rng.choice([4, 4, 4, 3, 5, 6, 2])
        multi.append([rand_entry() for _ in range(n)])
    # quadruples of atomic fermionic operators in any order (incl. repeated sites)
    for _ in range(nq):
        multi.append([rand_entry(odd=True) for _ in range(4)])
        multi[-1] = [[w.split()[0], i] for w, i in multi[-1]]
    return pairs, multi


CANON = {'C': (0, False), 'Cd': (0, True)}
CANON_SPINFUL = {'Cu': (0, False), 'Cdu': (0, True), 'Cd': (1, False), 'Cdd': (1, True)}


def canonical_anticommutator(sites, a, i, b, j, D):
    """{a_i, b_j} for atomic fermionic operators on non-projected sites: delta * identity or 0; None if n/a"""
    from tenpy.networks import site as S

    def mode(site, name):
        if isinstance(site, S.FermionSite):
            return CANON[name]
        if isinstance(site, S.SpinHalfFermionSite):
            return CANON_SPINFUL[name]
        return None
    ma, mb = mode(sites[i], a), mode(sites[j], b)
    if ma is None or mb is None:
        if i != j:
            return np.zeros((D, D))  # projected sites: still anticommute on different sites
        return None
    if i == j and ma[0] == mb[0] and ma[1] != mb[1]:
        return np.eye(D)
    return np.zeros((D, D))


def term_verdict(sites, orc, term):
    """None if the dense MPO of `term` is the ordered product of the JW images (or the term is correctly
    rejected), otherwise (signature suffix, detail)."""
    ref, parity = orc.term(term)
    try:
        H = cc.dense_from_termlist(sites, [[(w, i) for w, i in term]], [1.0])
        err = None
    except ValueError as e:
        H, err = None, str(e)
    if parity:
        if H is not None and len({i for _, i in term}) >= 2:
            return 'odd-term-accepted', f'term {term} has odd fermion parity but was turned into an MPO'
        return None
    if H is None:
        return 'even-term-rejected', f'term {term}: {err}'
    if not np.all(np.abs(H - ref) <= TOL):
        sign_only = np.all(np.abs(H + ref) <= TOL)
        return ('dense-vs-JW.' + ('sign' if sign_only else 'operator'),
                f'term {term}: dense MPO differs from the ordered product of Jordan-Wigner images '
                f'(max diff {np.abs(H - ref).max():.3g})')
    return None


def shrink_term(sites, orc, term):
    """greedy removal of operators (and splitting of compound names) while the term still fails"""
    cur = [list(t) for t in term]
    changed = True
    while changed:
        changed = False
        for k in range(len(cur)):
            cand = cur[:k] + cur[k + 1:]
            if cand and term_verdict(sites, orc, cand) is not None:
                cur, changed = cand, True
                break
        if changed:
            continue
        for k, (w, i) in enumerate(cur):
            parts = w.split()
            if len(parts) > 1:
                for drop in range(len(parts)):
                    cand = cur[:k] + [[' '.join(parts[:drop] + parts[drop + 1:]), i]] + cur[k + 1:]
                    if term_verdict(sites, orc, cand) is not None:
                        cur, changed = cand, True
                        break
            if changed:
                break
    return cur


# ------------------------------------------------------------------------------------------------
def check_chain(ctx, res, chain, rng, nprng, use_model=True, first_terms=()):
    quick = ctx.quick
    try:
        sites = build_chain(chain)
    except Exception as e:
        res.fail('property', 'chain.build.' + str(chain['common']), f'{type(e).__name__}: {e}', {'part': 'chain', 'chain': chain})
        return
    L = len(sites)
    njw = [NJW[s['cls']] for s in chain['specs']]
    for k, (s, n) in enumerate(zip(sites, njw)):
        if sorted(s.need_JW_string) != n:
            res.fail('correspondence', 'chain.need_JW_string', f'site {k}: impl {sorted(s.need_JW_string)} model {n}',
                     {'part': 'chain', 'chain': chain})
    orc = cc.ChainOracle(sites)
    D = orc.D
    pairs, multi = gen_terms(rng, sites, quick)
    multi = [t for t in first_terms if all(0 <= i < L for _, i in t)] + multi
    res.count('chain.kind=' + chain['kind'])
    res.count('chain.L=%d' % L)

    lines, slots = [], []   # driver lines and (what, key) to map answers back

    def ask(what, key, line):
        line['sites'] = njw
        lines.append(line)
        slots.append((what, key))

    records = []
    dense_pairs = {}
    n_shrunk = [0]
    for tnum, term in enumerate(pairs + multi):
        case = {'part': 'chain', 'chain': chain, 'term': term}
        rec = dict(case=case, term=term)
        records.append(rec)
        res.count('chain.termlen=%d' % len(term))
        # --- symbolic functions on the real code
        rec['oc'] = impl_oc(term, sites)
        ask('oc', len(records) - 1, {'k': 'oc', 'term': term})
        comb = rec['oc']['term']
        if len(comb) == 2:
            rec['cjw'] = impl_cjw(comb, sites)
            ask('cjw', len(records) - 1, {'k': 'cjw', 'term': comb})
        if len(comb) >= 2:
            rec['mjw'] = impl_mjw(comb, sites)
            ask('mjw', len(records) - 1, {'k': 'mjw', 'term': comb})
        # --- dense: TermList -> MPO -> ExactDiag   vs   explicit JW product
        ref, parity = orc.term(term)
        try:
            H = cc.dense_from_termlist(sites, [[(w, i) for w, i in term]], [1.0])
            rec['dense_err'] = None
        except ValueError as e:
            H, rec['dense_err'] = None, str(e)
        nontrivial = len({i for _, i in term}) >= 2 and any(word_is_odd(w) for w, _ in term)
        res.note_case(case, nontrivial)
        bad = None
        if parity:
            # a fermion-odd product has an open string: terms spanning several sites must be rejected
            # (an odd product on a single site goes through OnsiteTerms, which carry no parity information)
            if H is not None and len({i for _, i in term}) >= 2:
                bad = 'odd-term-accepted'
        elif H is None:
            bad = 'even-term-rejected'
        elif not np.all(np.abs(H - ref) <= TOL):
            bad = 'dense'
        if bad:
            n_shrunk[0] += 1
            small = shrink_term(sites, orc, term) if n_shrunk[0] <= 3 else term
            sig, detail = term_verdict(sites, orc, small) or (bad, f'term {term}')
            res.fail('property', 'chain.mpo.' + sig,
                     detail + f' (order_combine_term -> {impl_oc(small, sites)}; original term {term})',
                     {'part': 'chain', 'chain': chain, 'term': small})
        if tnum < len(pairs) and H is not None:
            dense_pairs[(term[0][0], term[0][1], term[1][0], term[1][1])] = H

    # --- canonical anticommutation relations of the dense operators
    for (a, i, b, j), H1 in dense_pairs.items():
        H2 = dense_pairs.get((b, j, a, i))
        if H2 is None:
            continue
        expect = canonical_anticommutator(sites, a, i, b, j, D)
        if expect is None:
            continue
        res.count('chain.CAR-pairs')
        if not np.all(np.abs(H1 + H2 - expect) <= TOL):
            res.fail('property', 'chain.CAR.' + ('same-site' if i == j else 'different-sites'),
                     f'{{{a}_{i}, {b}_{j}}} as dense MPOs is not {"1" if expect[0, 0] else "0"} '
                     f'(max dev {np.abs(H1 + H2 - expect).max():.3g})',
                     {'part': 'chain', 'chain': chain, 'term': [[a, i], [b, j]]})

    # --- symbolic functions with unit-cell indices outside [0, L) and explicit op_string
    for _ in range(20 if quick else 200):
        n = rng.choice([2, 2, 3, 4])
        idx = sorted(rng.sample(range(-L, 3 * L), n))
        words = [site_words(sites[i % L]) for i in idx]
        term = [[rng.choice(w[0] + w[1]), i] for w, i in zip(words, idx)]
        opstr = rng.choice([None, None, None, 'JW', 'Id'])
        rec = dict(case={'part': 'chain-symbolic', 'chain': chain, 'term': term, 'op_string': opstr}, term=term)
        records.append(rec)
        res.note_case(rec['case'], True)
        rec['mjw'] = impl_mjw(term, sites, opstr)
        ask('mjw', len(records) - 1, {'k': 'mjw', 'term': term, 'op_string': opstr})
        if n == 2:
            rec['cjw'] = impl_cjw(term, sites, opstr)
            ask('cjw', len(records) - 1, {'k': 'cjw', 'term': term, 'op_string': opstr})
        shuffled = list(term)
        rng.shuffle(shuffled)
        rec2 = dict(case={'part': 'chain-symbolic', 'chain': chain, 'term': shuffled}, term=shuffled)
        records.append(rec2)
        rec2['oc'] = impl_oc(shuffled, sites)
        ask('oc', len(records) - 1, {'k': 'oc', 'term': shuffled})

    # --- MPS level
    psi, vec = random_state(nprng, sites)
    check_mps(ctx, res, chain, sites, orc, psi, vec, rng, multi, ask, records)
    try:
        check_mps_extras(ctx, res, chain, sites, orc, psi, mps_to_dense(psi), rng, ask, records)
        check_terms_extras(ctx, res, chain, sites, orc, rng, multi)
    except Exception as e:   # an unexpected exception class in an API path is itself a finding
        import traceback
        res.fail('property', 'chain.extra.crash', f'{type(e).__name__}: {e} ' + traceback.format_exc()[-600:], {'part': 'chain-mps-extra', 'chain': chain})

    if use_model and lines:
        answers = core.run_driver('C12', lines)
        for (what, key), ans in zip(slots, answers):
            rec = records[key]
            res.traces_validated += 1
            impl = rec.get(what)
            if what == 'corr':
                # observable: evaluated or ValueError (the string itself is checked through the values)
                want = 'ValueError' if 'err' in ans else 'evaluated'
                if impl != want:
                    res.fail('correspondence', 'chain.corr-autoJW.model-vs-impl',
                             f'{rec["case"]}: impl {impl} model {ans}', rec['case'])
            elif model_err_class(ans) != impl:
                res.fail('correspondence', f'chain.{what}.model-vs-impl', f'input {rec["term"]}: impl {impl} model {ans}',
                         rec['case'])


def corr_case(res, chain, sites, orc, psi, vec, a1, a2, ask, records):
    """one call of correlation_function(a1, a2) (names or lists of names) against the dense oracle"""
    L = len(sites)
    ops1 = [a1] * L if isinstance(a1, str) else list(a1)
    ops2 = [a2] * L if isinstance(a2, str) else list(a2)
    par1 = {word_is_odd(w) for w in ops1}
    par2 = {word_is_odd(w) for w in ops2}
    mixed = len(par1 | par2) > 1
    case = {'part': 'chain-corr', 'chain': chain, 'ops1': a1, 'ops2': a2}
    rec = dict(case=case, term=[a1, a2])
    records.append(rec)
    res.note_case(case, True)
    res.count('corr.parity=%s%s' % ('o' if True in par1 else 'e', 'o' if True in par2 else 'e'))
    ask('corr', len(records) - 1, {'k': 'corr', 'ops1': [a1] if isinstance(a1, str) else a1,
                                   'ops2': [a2] if isinstance(a2, str) else a2,
                                   'sites1': list(range(L)), 'sites2': list(range(L))})
    try:
        with warnings.catch_warnings():
            warnings.simplefilter('ignore')
            C = psi.correlation_function(a1, a2)
        rec['corr'] = 'evaluated'
    except ValueError as e:
        C = None
        rec['corr'] = 'ValueError'
    if C is None:
        if not mixed:
            res.fail('property', 'chain.correlation_function.rejected', f'{a1},{a2} raised ValueError', case)
        return
    # dense fermionic values  <psi| A_i B_j |psi>
    want = np.zeros((L, L), complex)
    for i in range(L):
        for j in range(L):
            m, _ = orc.term([[ops1[i], i], [ops2[j], j]])
            want[i, j] = np.vdot(vec, m @ vec)
    if not np.all(np.abs(C - want) <= 1e-9):
        if mixed:
            res.fail('property', 'chain.correlation_function.autoJW.mixed-parity-evaluated',
                     f'correlation_function({a1!r}, {a2!r}): one operator is fermionic, one is not (no consistent '
                     f'Jordan-Wigner string exists); the call did not raise and returned values deviating by '
                     f'{np.abs(C - want).max():.3g} from the dense fermionic expectation values', case)
        else:
            res.fail('property', 'chain.correlation_function.value',
                     f'correlation_function({a1!r}, {a2!r}) deviates from dense Jordan-Wigner values by '
                     f'{np.abs(C - want).max():.3g}', case)


def check_mps(ctx, res, chain, sites, orc, psi, vec, rng, multi, ask, records):
    quick = ctx.quick
    L = len(sites)
    # dense vector of the MPS must be the vector we started from (up to a phase fixed by from_full: none)
    back = mps_to_dense(psi)
    ph = np.vdot(vec, back)
    if abs(abs(ph) - 1) > 1e-9:
        res.fail('property', 'chain.mps.from_full', f'overlap {abs(ph)}', {'part': 'chain', 'chain': chain})
        return
    vec = back  # use the MPS's own dense vector (phase)

    # --- expectation_value_term / _term_to_ops_list on sampled terms
    for term in multi[:40 if quick else 400]:
        case = {'part': 'chain-mps', 'chain': chain, 'term': term}
        ref, parity = orc.term(term)
        rec = dict(case=case, term=term)
        records.append(rec)
        rec['t2o'] = impl_t2o(psi, term)
        ask('t2o', len(records) - 1, {'k': 't2o', 'term': term})
        res.note_case(case, True)
        try:
            with warnings.catch_warnings():
                warnings.simplefilter('ignore')
                val = psi.expectation_value_term([(w, i) for w, i in term])
        except ValueError as e:
            val = None
        if parity:
            if val is not None:
                res.fail('property', 'chain.expectation_value_term.odd-term-accepted', f'{term} -> {val}', case)
            continue
        want = np.vdot(vec, ref @ vec)
        if val is None or abs(val - want) > 1e-9:
            res.fail('property', 'chain.expectation_value_term.value',
                     f'term {term}: <psi|term|psi> = {val}, dense Jordan-Wigner value {want}; ops {rec["t2o"]}', case)
    # _term_to_ops_list with i_offset / JW_from_right variants (symbolic only)
    for term in multi[:15 if quick else 100]:
        for fr in (True, None):
            rec = dict(case={'part': 'chain-t2o', 'chain': chain, 'term': term, 'from_right': fr}, term=term)
            records.append(rec)
            rec['t2o'] = impl_t2o(psi, term, True, 0, fr)
            ask('t2o', len(records) - 1, {'k': 't2o', 'term': term, 'from_right': fr})
        rec = dict(case={'part': 'chain-t2o', 'chain': chain, 'term': term, 'autoJW': False}, term=term)
        records.append(rec)
        rec['t2o'] = impl_t2o(psi, term, False, 0, False)
        ask('t2o', len(records) - 1, {'k': 't2o', 'term': term, 'autoJW': False, 'from_right': False})

    # --- correlation_function: all pairs of (lists of) operator names
    odd_lists, even_lists = [], []
    atomic = [cc.fermionic_names(s) for s in sites]
    n_odd = max(len(a[0]) for a in atomic)
    if all(a[0] for a in atomic):  # every site fermionic: a list of odd operators exists
        for k in range(min(n_odd, 4)):
            odd_lists.append([a[0][k % len(a[0])] for a in atomic])
    for k in range(2):
        even_lists.append([a[1][(k + 1) % len(a[1])] for a in atomic])
    if all(a[0] for a in atomic):
        even_lists.append([f'{a[0][-1]} {a[0][0]}' for a in atomic])
    cands = [(o, True) for o in odd_lists] + [(e, False) for e in even_lists]
    combos = list(itertools.product(cands, cands))
    if len(combos) > (12 if quick else 60):
        combos = rng.sample(combos, 12 if quick else 60)
    for (ops1, odd1), (ops2, odd2) in combos:
        uniform1 = len(set(ops1)) == 1 and rng.random() < 0.5
        uniform2 = len(set(ops2)) == 1 and rng.random() < 0.5
        a1 = ops1[0] if uniform1 else list(ops1)
        a2 = ops2[0] if uniform2 else list(ops2)
        corr_case(res, chain, sites, orc, psi, vec, a1, a2, ask, records)

    # --- apply_local_term with an open string (needs charge_to_JW_parity) and even terms
    c2 = all(getattr(s, 'charge_to_JW_parity', None) is not None for s in sites)
    for term in multi[:12 if quick else 100]:
        ref, parity = orc.term(term)
        if parity and not c2:
            continue
        case = {'part': 'chain-apply', 'chain': chain, 'term': term}
        phi = psi.copy()
        try:
            with warnings.catch_warnings():
                warnings.simplefilter('ignore')
                phi.apply_local_term([(w, i) for w, i in term], canonicalize=False)
        except ValueError as e:
            if 'destroys state' in str(e):
                continue
            res.fail('property', 'chain.apply_local_term.rejected', f'{term}: {e}', case)
            continue
        res.note_case(case, True)
        got = mps_to_dense(phi)
        want = ref @ vec
        if not np.all(np.abs(got - want) <= 1e-9):
            res.fail('property', 'chain.apply_local_term.' + ('open-string' if parity else 'even'),
                     f'term {term}: state after apply_local_term deviates from dense JW image by '
                     f'{np.abs(got - want).max():.3g}', case)


def _shift(term, d):
    return [[w, i + d] for w, i in term]


def check_mps_extras(ctx, res, chain, sites, orc, psi, vec, rng, ask=None, records=None):
    """coverage round: the remaining Jordan-Wigner paths of the MPS API, all against the dense oracle
    (options of correlation_function, term(-list) correlation functions = _term_to_ops_list with JW_from_right
    True/None, expectation_value_terms_sum, apply_local_op with an open string, expectation_value of an odd operator)"""
    import tenpy.linalg.np_conserved as npc
    from tenpy.networks.terms import TermList
    L = len(sites)
    atomic = [cc.fermionic_names(s) for s in sites]
    base = {'part': 'chain-mps-extra', 'chain': chain}

    def ev(term):
        m, par = orc.term(term)
        return np.vdot(vec, m @ vec), par

    def bad(sig, what, detail):
        res.fail('property', 'chain.' + sig, detail, dict(base, what=what))

    def quiet(fn):
        with warnings.catch_warnings():
            warnings.simplefilter('ignore')
            return fn()

    all_ferm = all(a[0] for a in atomic)
    if all_ferm and L >= 3:
        o1 = [a[0][0] for a in atomic]                                  # e.g. C / Cu
        o2 = [sites[k].hc_ops[o1[k]] for k in range(L)]                  # adjoints
        want = np.array([[ev([[o2[i], i], [o1[j], j]])[0] for j in range(L)] for i in range(L)])
        res.note_case(dict(base, what='corr-options'), True)
        res.count('chain.extra.corr-options')
        variants = {
            'opstr=JW': lambda: psi.correlation_function(o2, o1, opstr='JW'),
            'hermitian': lambda: psi.correlation_function(o2, o1, hermitian=True),
            'autoJW=False+opstr': lambda: psi.correlation_function(o2, o1, opstr='JW', autoJW=False),
        }
        for name, fn in variants.items():
            C = quiet(fn)
            if not np.all(np.abs(C - want) <= 1e-9):
                bad('correlation_function.option.' + name.split('=')[0], name, f'{name}: deviates by {np.abs(C - want).max():.3g}')
        s1, s2 = [0, 2], list(range(1, L))
        try:
            C = quiet(lambda: psi.correlation_function(o2, o1, sites1=s1, sites2=s2, hermitian=True))
            if not np.all(np.abs(C - want[np.ix_(s1, s2)]) <= 1e-9):
                bad('correlation_function.option.sites', 'sites1/sites2', f'subsets {s1} x {s2} deviate')
        except ValueError as e:
            bad('correlation_function.option.hermitian-different-sites', 'hermitian=True, sites1 != sites2',
                f'correlation_function(..., sites1={s1}, sites2={s2}, hermitian=True) raised ValueError ({e}) instead of '
                f'ignoring the hermitian flag with a warning')
        C = quiet(lambda: psi.correlation_function(o2, o1, sites1=s1, sites2=s2))
        if not np.all(np.abs(C - want[np.ix_(s1, s2)]) <= 1e-9):
            bad('correlation_function.option.sites', 'sites1/sites2', f'subsets {s1} x {s2} deviate')
        C = quiet(lambda: psi.correlation_function(o2, o1, sites1=2, sites2=[L - 1]))
        if not np.all(np.abs(C - want[np.ix_([0, 1], [L - 1])]) <= 1e-9):
            bad('correlation_function.option.sites', 'int sites1', 'sites1=2 deviates')
        C = quiet(lambda: psi.correlation_function(o2, o1, sites1=range(0, L - 1), sites2=[L - 1]))   # "inefficient" branch
        if not np.all(np.abs(C - want[np.ix_(range(L - 1), [L - 1])]) <= 1e-9):
            bad('correlation_function.option.sites', 'many-vs-one', 'deviates')
        try:
            quiet(lambda: psi.correlation_function(o2, o1, str_on_first=False))
            bad('correlation_function.option.str_on_first', 'str_on_first=False', 'fermionic operators with str_on_first=False did not raise')
        except ValueError:
            pass
        try:
            quiet(lambda: psi.expectation_value(o1[0]))
            bad('expectation_value.odd-operator-accepted', o1[0], f'expectation_value({o1[0]!r}) of a single fermionic operator did not raise')
        except ValueError:
            pass
    # non-string operators: no JW can be determined, plain (bosonic) evaluation of even operators
    e1 = [a[1][(1 if len(a[1]) > 1 else 0)] for a in atomic]
    arrs = [sites[k].get_op(e1[k]) for k in range(L)]
    want_e = np.array([[ev([[e1[i], i], [e1[j], j]])[0] for j in range(L)] for i in range(L)])
    res.note_case(dict(base, what='corr-arrays'), False)
    for a1, a2, nm in ((arrs, e1, 'arrays,names'), (e1, arrs, 'names,arrays')):
        C = quiet(lambda: psi.correlation_function(a1, a2))
        if not np.all(np.abs(C - want_e) <= 1e-9):
            bad('correlation_function.option.arrays', nm, f'{nm}: deviates by {np.abs(C - want_e).max():.3g}')

    # term correlation functions
    ferm = [k for k in range(L) if atomic[k][0]]
    uniform = len({cc.spec_key(s) for s in chain['specs']}) == 1
    if uniform and all_ferm and L >= 4:
        odd, even = atomic[0]
        pool = [(w, True) for w in odd] + [(w, False) for w in even if w != 'Id']
        for _ in range(6 if ctx.quick else 40):
            nL, nR = rng.choice([1, 2]), rng.choice([1, 2])
            tL = [[rng.choice(pool), k] for k in (rng.sample(range(2), nL))]
            tR = [[rng.choice(pool), k] for k in (rng.sample(range(2), nR))]
            if sum(p[1] for p, _ in tL + tR) % 2:
                continue
            tL = [[p[0], k] for p, k in tL]
            tR = [[p[0], k] for p, k in tR]
            case = dict(base, what='term_correlation', term_L=tL, term_R=tR)
            res.note_case(case, True)
            res.count('chain.extra.term-correlation')
            wL, wR = max(k for _, k in tL) + 1, max(k for _, k in tR) + 1
            js = list(range(wL - min(k for _, k in tR), L - wR + 1))
            want = np.array([ev(tL + _shift(tR, j))[0] for j in js])
            try:
                got = quiet(lambda: psi.term_correlation_function_right([tuple(t) for t in tL], [tuple(t) for t in tR]))
                if len(got) != len(want) or not np.all(np.abs(np.array(got) - want) <= 1e-9):
                    res.fail('property', 'chain.term_correlation_function_right.value', f'{tL} x {tR}: {list(got)} vs dense {want.tolist()}', case)
                j_fix = L - wR
                iL = list(range(0, j_fix + min(k for _, k in tR) - wL + 1))
                want_l = np.array([ev(_shift(tL, i) + _shift(tR, j_fix))[0] for i in iL])[::-1]
                got = quiet(lambda: psi.term_correlation_function_left([tuple(t) for t in tL], [tuple(t) for t in tR], i_L=iL, j_R=j_fix))
                if not np.all(np.abs(np.array(got) - want_l) <= 1e-9):
                    res.fail('property', 'chain.term_correlation_function_left.value', f'{tL} x {tR}: {list(got)} vs dense {want_l.tolist()}', case)
                # sums of terms
                tL2 = [[rng.choice(pool)[0], 0]]
                par = lambda t: sum(word_is_odd(w) for w, _ in t) % 2
                if par(tL2) == par(tL):
                    TL = TermList([[tuple(t) for t in tL], [tuple(t) for t in tL2]], [0.5, -1.25])
                    TR = TermList([[tuple(t) for t in tR]], [2.0])
                    js2 = list(range(wL - min(k for _, k in tR), L - wR + 1))
                    want2 = np.array([2.0 * (0.5 * ev(tL + _shift(tR, j))[0] - 1.25 * ev(tL2 + _shift(tR, j))[0]) for j in js2])
                    got = quiet(lambda: psi.term_list_correlation_function_right(TL, TR, 0, js2))
                    if not np.all(np.abs(np.array(got) - want2) <= 1e-9):
                        res.fail('property', 'chain.term_list_correlation_function_right.value',
                                 f'{tL}+{tL2} x {tR}: {list(got)} vs dense {want2.tolist()}', case)
            except ValueError as e:
                res.fail('property', 'chain.term_correlation_function.rejected', f'{tL} x {tR}: {e}', case)
    # --- offsets on (possibly heterogeneous) chains: the terms are written relative to i_L / j_R / i_offset, the site an
    # operator really acts on is index + offset; operators are chosen for that site
    if len(ferm) >= 2 and L >= 3:
        wsite = [site_words(s) for s in sites]

        def pick(k, odd):
            ow, ew = wsite[k]
            ew = [w for w in ew if w != 'Id'] or ew
            return rng.choice(ow) if (odd and ow) else rng.choice(ew)

        for _ in range(10 if ctx.quick else 80):
            cut = rng.randint(1, L - 1)                      # left term lives on sites < cut, right term on sites >= cut
            nL, nR = rng.randint(1, min(2, cut)), rng.randint(1, min(2, L - cut))
            aL, aR = sorted(rng.sample(range(cut), nL)), sorted(rng.sample(range(cut, L), nR))
            actual = []
            for k in aL + aR:
                actual.append([pick(k, rng.random() < 0.75), k])
            if sum(word_is_odd(w) for w, _ in actual) % 2:
                # flip one fermionic-capable entry
                cand = [x for x in actual if wsite[x[1]][0]]
                if not cand:
                    continue
                x = rng.choice(cand)
                x[0] = pick(x[1], not word_is_odd(x[0]))
                if sum(word_is_odd(w) for w, _ in actual) % 2:
                    continue
            termL, termR = actual[:nL], actual[nL:]
            rng.shuffle(termL)
            rng.shuffle(termR)
            i_L, j_R = min(aL), min(aR)
            relL, relR = _shift(termL, -i_L), _shift(termR, -j_R)
            case = dict(base, what='offset-correlation', term_L=relL, term_R=relR, i_L=i_L, j_R=j_R)
            res.note_case(case, len({cc.spec_key(x) for x in chain['specs']}) > 1)
            res.count('chain.extra.offset-correlation')
            want = ev(termL + termR)[0]
            tl, tr = [tuple(t) for t in relL], [tuple(t) for t in relR]
            try:
                got = {
                    'term_correlation_function_right': quiet(lambda: psi.term_correlation_function_right(tl, tr, i_L, [j_R]))[0],
                    'term_correlation_function_left': quiet(lambda: psi.term_correlation_function_left(tl, tr, [i_L], j_R))[0],
                    'term_list_correlation_function_right': quiet(lambda: psi.term_list_correlation_function_right(
                        TermList([tl], [0.5]), TermList([tr], [-2.0]), i_L, [j_R]))[0] / (-1.0),
                }
            except ValueError as e:
                res.fail('property', 'chain.term_correlation_function.offset.rejected', f'{relL}@{i_L} x {relR}@{j_R}: {e}', case)
                continue
            for name, val in got.items():
                if abs(val - want) > 1e-9:
                    res.fail('property', f'chain.{name}.offset.value',
                             f'{name}(term_L={relL}, term_R={relR}, i_L={i_L}, j_R={j_R}) = {val}, dense Jordan-Wigner value '
                             f'{want} (sites {[c["cls"] for c in chain["specs"]]})', case)
                    break
            # the same two terms through _term_to_ops_list with an offset: strings compared with the Lean model
            if ask is not None:
                for rel, off, fr in ((relR, j_R, False), (relL, i_L, True), (relL, i_L, None)):
                    rec = dict(case=dict(base, what='t2o-offset', term=rel, i_offset=off, from_right=fr), term=rel)
                    records.append(rec)
                    rec['t2o'] = impl_t2o(psi, rel, True, off, fr)
                    ask('t2o', len(records) - 1, {'k': 't2o', 'term': rel, 'i_offset': off, 'from_right': fr})
            # apply_local_term with i_offset
            whole = termL + termR
            rng.shuffle(whole)
            off = min(i for _, i in whole)
            ref_m, par = orc.term(whole)
            if par:
                continue
            phi = psi.copy()
            try:
                quiet(lambda: phi.apply_local_term([tuple(t) for t in _shift(whole, -off)], i_offset=off, canonicalize=False))
            except ValueError as e:
                if 'destroys state' not in str(e):
                    res.fail('property', 'chain.apply_local_term.offset.rejected', f'{whole} (i_offset={off}): {e}', case)
                continue
            if not np.all(np.abs(mps_to_dense(phi) - ref_m @ vec) <= 1e-9):
                res.fail('property', 'chain.apply_local_term.offset.value',
                         f'apply_local_term({_shift(whole, -off)}, i_offset={off}) deviates from the dense Jordan-Wigner image by '
                         f'{np.abs(mps_to_dense(phi) - ref_m @ vec).max():.3g}', dict(case, term=_shift(whole, -off), i_offset=off))
    # expectation_value_terms_sum
    if len(ferm) >= 2:
        terms, strengths, want = [], [], 0.
        for _ in range(4):
            i, j = rng.sample(ferm, 2)
            t = [[rng.choice(atomic[i][0]), i], [rng.choice(atomic[j][0]), j]]
            sgth = rng.choice([1.0, -0.5, 0.25])
            terms.append([tuple(x) for x in t])
            strengths.append(sgth)
            want += sgth * ev(t)[0]
        case = dict(base, what='terms_sum', terms=[[list(x) for x in t] for t in terms], strengths=strengths)
        res.note_case(case, True)
        try:
            got, _ = quiet(lambda: psi.expectation_value_terms_sum(TermList(terms, strengths)))
            if abs(got - want) > 1e-9:
                res.fail('property', 'chain.expectation_value_terms_sum.value', f'{terms}: {got} vs dense {want}', case)
        except ValueError as e:
            if charge_neutral_sum(sites, orc, terms):
                res.fail('property', 'chain.expectation_value_terms_sum.rejected', f'{terms}: {e}', case)
    # without charge_to_JW_parity an open string cannot be applied: documented ValueError
    if ferm and not all(getattr(s, 'charge_to_JW_parity', None) is not None for s in sites):
        i = ferm[-1]
        w = atomic[i][0][0]
        if getattr(sites[i], 'charge_to_JW_parity', None) is None:
            for what, fn in (('apply_local_op', lambda: psi.copy().apply_local_op(i, w, unitary=False)),
                             ('apply_local_term', lambda: psi.copy().apply_local_term([(w, i)], canonicalize=False))):
                try:
                    quiet(fn)
                    bad(what + '.open-string-without-signs', f'{w}_{i}', f'{what} of a fermionic operator without '
                        f'charge_to_JW_parity did not raise')
                except ValueError:
                    pass
    # apply_local_op with a fermionic operator: needs charge_to_JW_signs
    if all(getattr(s, 'charge_to_JW_parity', None) is not None for s in sites):
        for i in rng.sample(ferm, min(2, len(ferm))):
            w = rng.choice(atomic[i][0])
            case = dict(base, what='apply_local_op', i=i, op=w)
            m, _ = orc.image(i, w)
            want = m @ vec
            if np.linalg.norm(want) < 1e-8:
                continue
            res.note_case(case, True)
            res.count('chain.extra.apply_local_op')
            phi = psi.copy()
            try:
                quiet(lambda: phi.apply_local_op(i, w, unitary=False))
            except ValueError as e:
                res.fail('property', 'chain.apply_local_op.rejected', f'{w}_{i}: {e}', case)
                continue
            got = mps_to_dense(phi)
            if not np.all(np.abs(got - want) <= 1e-9):
                only_sign = np.all(np.abs(got + want) <= 1e-9)
                res.fail('property', 'chain.apply_local_op.open-string' + ('.global-sign' if only_sign else ''),
                         f'apply_local_op({i}, {w!r}): state deviates from the dense Jordan-Wigner image by '
                         f'{np.abs(got - want).max():.3g}', case)


def charge_neutral_sum(sites, orc, terms):
    from harness.c12_model import charge_conserving
    charged = [not charge_conserving(sites, orc.term([list(x) for x in t])[0]) for t in terms]
    return not any(charged)


def check_terms_extras(ctx, res, chain, sites, orc, rng, multi):
    """coverage round: MultiCouplingTerms options (switchLR, add_coupling_term) and argument errors of the term
    containers; every variant must give the same dense operator"""
    from tenpy.networks.terms import CouplingTerms, MultiCouplingTerms, order_combine_term
    from tenpy.networks.mpo import MPOGraph
    from tenpy.algorithms.exact_diag import ExactDiag
    L = len(sites)

    def dense_of(ct):
        with warnings.catch_warnings():
            warnings.simplefilter('ignore')
            mpo = MPOGraph.from_terms([ct], sites, 'finite').build_MPO()
            ed = ExactDiag.from_H_mpo(mpo)
            ed.build_full_H_from_mpo()
            H = ed.full_H.split_legs()
            H = H.transpose(['p%d' % i for i in range(L)] + ['p%d*' % i for i in range(L)]).to_ndarray()
        return H.reshape(orc.D, orc.D)

    done = 0
    for term in multi:
        ref, parity = orc.term(term)
        if parity or np.abs(ref).max() < 1e-12:
            continue
        comb, sign = order_combine_term([(w, i) for w, i in term], sites)
        if len(comb) < 2:
            continue
        case = {'part': 'chain-terms-extra', 'chain': chain, 'term': term}
        ijkl = [i for _, i in comb]
        variants = ['middle_i', 'middle_op', None, ijkl[0], ijkl[-1], (ijkl[0] + ijkl[-1]) // 2]
        for sw in variants:
            ct = MultiCouplingTerms(L)
            try:
                with warnings.catch_warnings():
                    warnings.simplefilter('ignore')
                    if len(comb) == 2 and sw in ('middle_i', None):
                        args = ct.coupling_term_handle_JW(float(sign), comb, sites)
                        ct.add_coupling_term(*args, switchLR=sw)
                    else:
                        args = ct.multi_coupling_term_handle_JW(float(sign), comb, sites)
                        ct.add_multi_coupling_term(*args, switchLR=sw)
                H = dense_of(ct)
            except ValueError as e:
                from harness.c12_model import charge_conserving
                if charge_conserving(sites, ref):
                    res.fail('property', 'chain.multi_coupling.switchLR.rejected', f'{term} switchLR={sw}: {e}', case)
                break
            res.count('chain.extra.switchLR')
            if not np.all(np.abs(H - ref) <= TOL):
                res.fail('property', 'chain.multi_coupling.switchLR.dense', f'term {term}, switchLR={sw!r}: dense MPO differs from '
                         f'the Jordan-Wigner product by {np.abs(H - ref).max():.3g}', case)
                break
        res.note_case(case, True)
        done += 1
        if done >= (4 if ctx.quick else 30):
            break
    # argument errors
    case = {'part': 'chain-terms-extra', 'chain': chain, 'what': 'errors'}
    for fn in (lambda: CouplingTerms(L).add_coupling_term(1., L, L + 1, 'Id', 'Id'),
               lambda: CouplingTerms(L).add_coupling_term(1., 1, 1, 'Id', 'Id'),
               lambda: MultiCouplingTerms(L).add_coupling_term(1., 1, 0, 'Id', 'Id'),
               lambda: MultiCouplingTerms(L).add_coupling_term(1., -1, 0, 'Id', 'Id'),
               lambda: MultiCouplingTerms(L).add_multi_coupling_term(1., [0], ['Id'], []),
               lambda: MultiCouplingTerms(L).add_multi_coupling_term(1., [1, 0], ['Id', 'Id'], 'Id'),
               lambda: MultiCouplingTerms(L).multi_coupling_term_handle_JW(1., [('Id', 0)], sites)):
        try:
            fn()
            res.fail('property', 'chain.terms.invalid-argument-accepted', 'invalid indices accepted', case)
        except (ValueError, AssertionError):
            pass


# ------------------------------------------------------------------------------------------------
def run_needjw(ctx, res, use_model=True):
    """Site.op_needs_JW on random words vs model vs parity oracle."""
    rng = ctx.sub_rng('needjw')
    specs = [dict(cls='fermion', cons='N', filling=[1, 2]), dict(cls='shFermion', consN='N', consSz='Sz', filling=[1, 1]),
             dict(cls='shHole', consN=None, consSz=None, filling=[1, 1]), dict(cls='spinHalf', cons='Sz'),
             dict(cls='boson', nmax=2, cons='N', filling=[0, 1])]
    lines, impl, cases = [], [], []
    for spec in specs:
        site = cc.make_site(spec)
        names = sorted(site.opnames)
        for _ in range(40 if ctx.quick else 400):
            w = ' '.join(rng.choice(names) for _ in range(rng.randint(1, 5)))
            lines.append({'k': 'needjw', 'njw': NJW[spec['cls']], 'op': w})
            got = bool(site.op_needs_JW(w))
            impl.append(got)
            case = {'part': 'needjw', 'spec': spec, 'op': w}
            cases.append(case)
            res.note_case(case, len(w.split()) > 1)
            # oracle: the dense operator anticommutes (odd) or commutes (even) with JW
            m = site.get_op(w).to_ndarray()
            jw = site.JW.to_ndarray()
            if np.abs(m).max() > 1e-14:
                anti = np.all(np.abs(jw @ m + m @ jw) <= 1e-12)
                comm = np.all(np.abs(jw @ m - m @ jw) <= 1e-12)
                # the JW sign operators themselves are flagged although they commute: skip words containing them
                if not any(n.startswith('JW') for n in w.split()):
                    if (got and not anti) or (not got and not comm):
                        res.fail('property', 'site.op_needs_JW.parity', f'{spec["cls"]}: op_needs_JW({w!r}) = {got} but the '
                                 f'operator {"commutes" if comm else "does not anticommute"} with JW', case)
    # order_combine_term on a term of more than 100 operators (warning branch), symbolic comparison only
    site = cc.make_site(specs[0])
    long_term = [[rng.choice(['C', 'Cd', 'N']), rng.randrange(6)] for _ in range(104)]
    with warnings.catch_warnings():
        warnings.simplefilter('ignore')
        long_impl = impl_oc(long_term, [site] * 6)
    if use_model:
        ans = core.run_driver('C12', [{'k': 'oc', 'sites': [NJW['fermion']] * 6, 'term': long_term}])[0]
        res.traces_validated += 1
        res.note_case({'part': 'oc-long', 'term': long_term}, True)
        if ans != long_impl:
            res.fail('correspondence', 'chain.oc.model-vs-impl', f'104-operator term: impl {long_impl} model {ans}',
                     {'part': 'oc-long', 'term': long_term})
    if use_model:
        for case, got, ans in zip(cases, impl, core.run_driver('C12', lines)):
            res.traces_validated += 1
            if ans.get('need') != got:
                res.fail('correspondence', 'site.op_needs_JW.model-vs-impl', f'{case}: impl {got} model {ans}', case)


def _one_chain(args):
    """worker: one chain, its own PRNG derived from (seed, index) so that it replays in any process"""
    prop, tier, seed, budget, idx, use_model = args
    ctx = core.Ctx(prop, tier, seed, budget)
    res = core.Result()
    rng = ctx.sub_rng(f'chain:{idx}')
    nprng = np.random.default_rng(rng.getrandbits(32))
    chain = gen_chain(rng, ctx.quick, idx)
    check_chain(ctx, res, chain, rng, nprng, use_model)
    return res


def run(ctx, use_model=True, n_chains=None):
    res = core.Result()
    run_needjw(ctx, res, use_model)
    n = n_chains or (9 if ctx.quick else 48)
    jobs = [(ctx.prop, ctx.tier, ctx.seed, ctx.budget_s, idx, use_model) for idx in range(n)]
    if ctx.quick:
        for j in jobs:
            res.merge(_one_chain(j))
    else:
        import multiprocessing as mp
        with mp.get_context('fork').Pool(min(16, mp.cpu_count())) as pool:
            for r in pool.imap_unordered(_one_chain, jobs):
                res.merge(r)
    return res


def run_case(ctx, case):
    """replay of one stored case. `chain-corr`: exactly that correlation_function call on a fixed random state;
    other chain cases: the chain is re-run with a fixed rng (the stored term is checked first)."""
    res = core.Result()
    rng = ctx.sub_rng('replay')
    nprng = np.random.default_rng(12345)
    if case.get('part') == 'chain-corr':
        sites = build_chain(case['chain'])
        orc = cc.ChainOracle(sites)
        psi, vec = random_state(nprng, sites)
        vec = mps_to_dense(psi)
        njw = [NJW[s['cls']] for s in case['chain']['specs']]
        lines, slots, records = [], [], []

        def ask(what, key, line):
            line['sites'] = njw
            lines.append(line)
            slots.append((what, key))
        corr_case(res, case['chain'], sites, orc, psi, vec, case['ops1'], case['ops2'], ask, records)
        for (what, key), ans in zip(slots, core.run_driver('C12', lines)):
            res.traces_validated += 1
            want = 'ValueError' if 'err' in ans else 'evaluated'
            if records[key]['corr'] != want:
                res.fail('correspondence', 'chain.corr-autoJW.model-vs-impl',
                         f'impl {records[key]["corr"]} model {ans}', records[key]['case'])
        return res
    check_chain(ctx, res, case['chain'], rng, nprng, True, first_terms=[case['term']] if 'term' in case else [])
    return res


def search(ctx):
    return run(ctx, use_model=False, n_chains=(14 if ctx.quick else 64))
