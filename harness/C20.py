"""C20 — caches and event dispatch obey their sequential spec under any schedule."""
import warnings

from vlib import core
from harness import c20_events

PROP = 'C20'
MODEL_MODULES = ['TenpyModel.Util.J', 'TenpyModel.C20.Events']
LEAN_MODULES = ['TenpyModel.C20.PropsEvents']
PROPS_MODULE = 'TenpyModel.C20.PropsEvents'
LEVEL = 'proof'
BUDGET = {'quick': 120, 'thorough': 1200}
RULE = ('events: random histories of connect/disconnect/emit/emit_until_result (length 1-14, priorities from a '
        'small window so ties are frequent, disconnects of live, dead and never-issued ids) run on the real '
        'EventHandler and on the Lean model; a case is non-trivial when it has >=2 live listeners at some emit '
        'and at least one disconnect; distinct by content hash.')
TRUSTED = ['Lean 4.33 kernel; axioms of every C20_* theorem ⊆ {propext, Classical.choice, Quot.sound}',
           'hand-written model TenpyModel/C20/*.lean, tied to tenpy/tools/{events,cache,thread}.py by this '
           'correspondence run (same histories, outputs diffed)',
           'callbacks are abstracted to their identity; exceptions raised inside callbacks are not modelled']
ASSUMPTIONS = ['Python list/sorted semantics (sorted is stable)']


def run(ctx):
    res = core.Result()
    res.merge(c20_events.run(ctx))
    return res


def search(ctx, reasons):
    res = core.Result()
    res.merge(c20_events.search(ctx))
    return res


def replay(ctx, payload):
    res = core.Result()
    case = payload.get('case', {})
    if case.get('part') == 'events':
        res.merge(c20_events.run_cases(ctx, [case['ops']], use_model=True))
    return res
