"""C20 — caches and event dispatch obey their sequential spec under any schedule."""
import os

from vlib import core
from harness import c20_events
from harness import c20_cache
from harness import c20_threaded
from harness import c20_api

PROP = 'C20'
MODEL_MODULES = ['TenpyModel.Util.J', 'TenpyModel.C20.Events', 'TenpyModel.C20.Cache', 'TenpyModel.C20.Threaded']
PROPS_MODULES = ['TenpyModel.C20.PropsEvents', 'TenpyModel.C20.PropsCache', 'TenpyModel.C20.PropsThreaded']
PROPS_MODULES = PROPS_MODULES + ['TenpyModel.C20.Props2']   # second round of theorems (Props2.lean + P2_*.lean)
LEAN_MODULES = PROPS_MODULES
LEVEL = 'proof'
BUDGET = {'quick': 170, 'thorough': 1700}
RULE = ('events: random histories of connect/disconnect/emit/emit_until_result (length 1-14, priorities from a '
        'small window so ties are frequent, disconnects of live, dead and never-issued ids) run on the real '
        'EventHandler and on the Lean model; non-trivial = >=2 live listeners at some emit and >=1 disconnect. '
        'cache: random sequences (length 2-14; thorough 2-24) of set/get/[]/del/in/len/iter/set_short_term_keys/'
        'preload/create_subcache/close/bool over <=4 keys and <=4 nested (sub-)caches, each run on Storage, '
        'PickleStorage and Hdf5Storage, on the Lean DictCache model and on a dict oracle; non-trivial = a read of '
        'a previously written key plus a delete/overwrite/short-term/preload/sub-cache operation. threaded: random '
        'DictCache programs (length <=8, 1-3 keys, optional sub-cache, max_queue_size 1-3, 30% with an injected '
        'disk fault; 35% are key-life-cycle scenarios set/preload/delete-or-overwrite/set/leave-short-term-keys/read '
        'with a lagging or leading worker) on the REAL Worker/ThreadedStorage/PickleStorage under a seeded cooperative scheduler; the '
        'recorded schedule is replayed on the Lean transition system and labels, enabled sets, call results and '
        'final state are compared; plus depth-first enumeration of all schedules (modulo idle polling, bounded '
        'preemptions) of short programs over 2 keys; non-trivial = >=4 thread switches and >=1 disk operation by '
        'the worker. stress: the same operation generator with real threads against the dict oracle with a 30 s '
        'termination deadline. All cases distinct by content hash.')
TRUSTED = ['Lean 4.33 kernel; axioms of every C20_* theorem ⊆ {propext, Classical.choice, Quot.sound}',
           'hand-written models TenpyModel/C20/{Events,Cache,Threaded}.lean, tied to tenpy/tools/{events,cache,'
           'thread}.py by this correspondence run (same histories / same schedules, outputs and sync-point traces '
           'diffed)',
           'the cooperative queue/event/thread objects of harness/c20_sched.py stand for queue.Queue, '
           'threading.Event and threading.Thread (documented contract; the stress run uses the real ones)',
           'callbacks are abstracted to their identity; exceptions raised inside callbacks are not modelled; '
           'pickle / h5py are taken to store and return equal values']
ASSUMPTIONS = ['Python list/sorted semantics (sorted is stable)',
               'dict/set operations and queue.Queue methods are atomic under the GIL (each is one scheduling step)',
               'only one caller thread uses a cache (as in tenpy); keys are valid file names without "/"']

PARTS = {'events': c20_events, 'cache': c20_cache, 'threaded': c20_threaded}


def run(ctx):
    res = core.Result()
    res.merge(c20_events.run(ctx))
    res.merge(c20_cache.run(ctx))
    res.merge(c20_threaded.run(ctx))
    if not os.environ.get('VERIF_C20_NO_API'):      # (switch used once to measure the coverage before the API stream)
        res.merge(c20_api.run(ctx))
    return res


def search(ctx, reasons):
    res = core.Result()
    res.merge(c20_events.search(ctx))
    res.merge(c20_cache.search(ctx))
    res.merge(c20_threaded.search(ctx))
    res.merge(c20_api.search(ctx))
    return res


def replay(ctx, payload):
    res = core.Result()
    case = payload.get('case') or payload      # a replay file written by check, or a bare corpus case
    part = case.get('part')
    if part == 'events':
        res.merge(c20_events.run_cases(ctx, [case['ops']], use_model=True))
    elif part == 'cache':
        ops = c20_cache.fix_cids([[o[0], 'sub' if o[1] == 'sub_dup' else o[1]] + list(o[2:]) for o in case['ops']])
        if case.get('threaded'):
            res.merge(c20_threaded.replay_stress(ctx, case))
        else:
            res.merge(c20_cache.run_cases(ctx, [ops], storages=[case.get('storage', 'Storage')]))
    elif part == 'threaded':
        res.merge(c20_threaded.run_batch(ctx, [case]))
    elif part == 'api':
        res.merge(c20_api.run_cases(ctx, [case]))
    elif part == 'stress':
        res.merge(c20_threaded.replay_stress(ctx, case))
    return res
