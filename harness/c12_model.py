"""C12, part `model`: fermionic (and mixed) terms added through the MODEL API.

`CouplingModel.add_local_term`, `add_coupling`, `add_multi_coupling` with plus_hc True/False, explicit_plus_hc
True/False, operators in every site order (i<j, i>j, repeated sites), complex strengths, on finite chains of up to 6
sites (uniform fermion chains and lattices with a heterogeneous unit cell).  Oracle only (this layer has no Lean
model): the dense Hamiltonian obtained from the MPO through ExactDiag (and, for nearest-neighbour models, from the
bond terms `H_bond` through ExactDiag.build_full_H_from_bonds) must equal

    H_ref = sum over calls of  s * A_{x+dx_0,u_0} B_{x+dx_1,u_1} ...  (+ hermitian conjugate)

with every factor the Jordan-Wigner image built by explicit numpy kron (`c12_common.ChainOracle`), the product taken
in the order in which the operators were *written*; and H must be Hermitian whenever the h.c. was requested.

Semantics of the flags (tenpy/models/model.py):
  explicit_plus_hc=False: plus_hc=False -> s*T            plus_hc=True -> s*T + (s*T)^dagger
  explicit_plus_hc=True : plus_hc=False -> (s*T + h.c.)/2  plus_hc=True -> s*T + (s*T)^dagger   (h.c. added by the MPO)
"""
import itertools
import warnings

import numpy as np

from vlib import core
from harness import c12_common as cc
from harness import c12_jw

TOL = 1e-11

STRENGTHS = [1.0, -0.5, 0.75 + 0.5j, 1.5j, -0.25 - 1.25j, 2.0 - 0.5j]


# ------------------------------------------------------------------------------------------------
# lattices

def gen_lattice(rng, idx):
    """(unit cell specs, Lx). idx < 4: fixed uniform fermion chains (every site order is enumerated on them)."""
    fil = [1, 2]
    fixed = [([dict(cls='fermion', cons=None, filling=fil)], 4), ([dict(cls='fermion', cons='N', filling=fil)], 4),
             ([dict(cls='fermion', cons='parity', filling=fil)], 3), ([dict(cls='fermion', cons=None, filling=fil)], 6)]
    if idx < len(fixed):
        return fixed[idx]
    cells = [
        ([dict(cls='fermion', cons=None, filling=fil), dict(cls='shFermion', consN=None, consSz=None, filling=[1, 1])], 2),
        ([dict(cls='fermion', cons=None, filling=fil), dict(cls='spinHalf', cons=None)], 3),
        ([dict(cls='shFermion', consN=None, consSz=None, filling=[1, 1])], 3),
        ([dict(cls='shFermion', consN='N', consSz='Sz', filling=[1, 1])], 2),
        ([dict(cls='shHole', consN=None, consSz=None, filling=[1, 1]), dict(cls='fermion', cons=None, filling=fil)], 2),
        ([dict(cls='fermion', cons='N', filling=fil), dict(cls='shFermion', consN='N', consSz=None, filling=[1, 1])], 2),
        ([dict(cls='fermion', cons=None, filling=fil), dict(cls='boson', nmax=2, cons=None, filling=[0, 1]),
          dict(cls='fermion', cons=None, filling=fil)], 2),
        ([dict(cls='fermion', cons='parity', filling=fil)], 5),
        ([dict(cls='fermion', cons='N', filling=fil)], 6),
    ]
    return rng.choice(cells)


def build_lattice(cell_specs, Lx):
    from tenpy.models.lattice import Lattice
    cache = {}
    cell = []
    for s in cell_specs:
        k = cc.spec_key(s)
        if k not in cache:
            cache[k] = cc.make_site(s)
        cell.append(cache[k])
    with warnings.catch_warnings():
        warnings.simplefilter('ignore')
        return Lattice([Lx], cell, bc='open', bc_MPS='finite')


def make_model(lat, explicit):
    from tenpy.models.model import CouplingModel, MPOModel

    class _M(CouplingModel, MPOModel):
        def __init__(self, lat, explicit):
            CouplingModel.__init__(self, lat, explicit_plus_hc=explicit)

    return _M(lat, explicit)


def dense_from_mpo_model(m):
    from tenpy.models.model import MPOModel
    from tenpy.algorithms.exact_diag import ExactDiag
    with warnings.catch_warnings():
        warnings.simplefilter('ignore')
        MPOModel.__init__(m, m.lat, m.calc_H_MPO())
        ed = ExactDiag(m)
        ed.build_full_H_from_mpo()
        return _dense(ed, m.lat.mps_sites())


def dense_from_bonds_model(m):
    """second path (nearest-neighbour couplings only): H_bond -> ExactDiag.build_full_H_from_bonds"""
    from tenpy.models.model import NearestNeighborModel
    from tenpy.algorithms.exact_diag import ExactDiag
    with warnings.catch_warnings():
        warnings.simplefilter('ignore')
        NearestNeighborModel.__init__(m, m.lat, m.calc_H_bond())
        ed = ExactDiag(m)
        ed.build_full_H_from_bonds()
        return _dense(ed, m.lat.mps_sites())


def _dense(ed, sites):
    L = len(sites)
    H = ed.full_H.split_legs()
    H = H.transpose(['p%d' % i for i in range(L)] + ['p%d*' % i for i in range(L)]).to_ndarray()
    D = int(np.prod([s.dim for s in sites]))
    return H.reshape(D, D)


# ------------------------------------------------------------------------------------------------
# calls:  {'api': 'local'|'coupling'|'multi', 'strength': [re, im], 'plus_hc': bool, ...}

def cplx(s):
    return complex(s[0], s[1])


def apply_call(m, call):
    s = cplx(call['strength'])
    api = call['api']
    kw = {}
    if call.get('category'):
        kw['category'] = call['category']
    if api == 'local':
        m.add_local_term(s, [(w, tuple(idx)) for w, idx in call['term']], plus_hc=call['plus_hc'], **kw)
    elif api == 'coupling':
        if 'op_string' in call:
            kw['op_string'] = call['op_string']
        st = s
        if call.get('strength_array'):
            st = s * np.array(call['strength_array'], float)
        m.add_coupling(st, call['u1'], call['op1'], call['u2'], call['op2'], call['dx'], plus_hc=call['plus_hc'], **kw)
    elif api == 'multi':
        m.add_multi_coupling(s, [(w, dx, u) for w, dx, u in call['ops']], plus_hc=call['plus_hc'], **kw)
    elif api == 'onsite':
        m.add_onsite(s, call['u'], call['op'], plus_hc=call['plus_hc'], **kw)
    elif api == 'onsite_term':
        m.add_onsite_term(s, call['i'], call['op'], plus_hc=call['plus_hc'], **kw)
    elif api == 'coupling_term':
        m.add_coupling_term(s, call['i'], call['j'], call['op_i'], call['op_j'], call['op_string'], plus_hc=call['plus_hc'], **kw)
    elif api == 'multi_term':
        m.add_multi_coupling_term(s, call['ijkl'], call['ops'], call['op_string'], plus_hc=call['plus_hc'],
                                  switchLR=call.get('switchLR', 'middle_i'), **kw)
    elif api == 'exp':
        m.add_exponentially_decaying_coupling(s, cplx(call['lambda']), call['op_i'], call['op_j'], plus_hc=call['plus_hc'])
    else:
        raise KeyError(api)


PLAIN_APIS = ('onsite_term', 'coupling_term', 'multi_term')   # literal operator strings, no automatic Jordan-Wigner


def plain_product(orc, entries):
    """kron of the given local operator words, identity elsewhere; no strings added (`entries`: {site: word})"""
    fac = []
    for k in range(orc.L):
        if k in entries:
            fac.append(orc.local(k, entries[k])[0])
        else:
            fac.append(np.eye(orc.dims[k]))
    return cc.kron_all(fac)


def call_dense(orc, call, n, Lx):
    """(T, odd, number of elementary terms): the operator the call stands for, without the h.c. part"""
    s = cplx(call['strength'])
    api = call['api']
    T = np.zeros((orc.D, orc.D), complex)
    if api == 'onsite':
        odd = c12_jw.word_is_odd(call['op'])
        for x in range(Lx):
            T += s * orc.image(x * n + call['u'], call['op'])[0]
        return T, odd, Lx
    if api == 'onsite_term':
        return s * plain_product(orc, {call['i']: call['op']}), False, 1
    if api == 'coupling_term':
        ent = {call['i']: call['op_i'], call['j']: call['op_j']}
        for k in range(call['i'] + 1, call['j']):
            ent[k] = call['op_string']
        return s * plain_product(orc, ent), False, 1
    if api == 'multi_term':
        ijkl, ops, strs = call['ijkl'], call['ops'], call['op_string']
        if isinstance(strs, str):
            strs = [strs] * (len(ijkl) - 1)
        ent = dict(zip(ijkl, ops))
        for a, b, st in zip(ijkl, ijkl[1:], strs):
            for k in range(a + 1, b):
                ent[k] = st
        return s * plain_product(orc, ent), False, 1
    if api == 'exp':
        lam = cplx(call['lambda'])
        odd = c12_jw.word_is_odd(call['op_i']) != c12_jw.word_is_odd(call['op_j'])
        cnt = 0
        for i in range(orc.L):
            for j in range(i + 1, orc.L):
                T += s * lam ** (j - i) * orc.term([[call['op_i'], i], [call['op_j'], j]])[0]
                cnt += 1
        return T, odd, cnt
    odd = False
    cnt = 0
    arr = call.get('strength_array')
    for k, term in enumerate(call_terms(call, n, Lx)):
        mat, parity = orc.term(term)
        odd |= parity
        T += s * (arr[k] if arr else 1.0) * mat
        cnt += 1
    return T, odd, cnt


def call_terms(call, n, Lx):
    """the products the call stands for, as lists [(word, mps index), ...] in the order written (own geometry)"""
    if call['api'] == 'local':
        return [[[w, idx[0] * n + idx[1]] for w, idx in call['term']]]
    if call['api'] == 'onsite':
        return [[[call['op'], x * n + call['u']]] for x in range(Lx)]
    if call['api'] == 'onsite_term':
        return [[[call['op'], call['i']]]]
    if call['api'] == 'coupling_term':
        return [[[call['op_i'], call['i']], [call['op_j'], call['j']]]]
    if call['api'] == 'multi_term':
        return [[[w, i] for w, i in zip(call['ops'], call['ijkl'])]]
    if call['api'] == 'exp':
        return [[[call['op_i'], 0], [call['op_j'], Lx * n - 1]]]
    if call['api'] == 'coupling':
        ops = [(call['op1'], 0, call['u1']), (call['op2'], call['dx'][0], call['u2'])]
    else:
        ops = [(w, dx[0], u) for w, dx, u in call['ops']]
    out = []
    for x in range(-3 * Lx, 3 * Lx):
        if all(0 <= x + dx < Lx for _, dx, _ in ops):
            out.append([[w, (x + dx) * n + u] for w, dx, u in ops])
    return out


def reference(orc, calls, explicit, n, Lx):
    """(H_ref, some term has odd parity, number of elementary terms)"""
    H = np.zeros((orc.D, orc.D), complex)
    odd = False
    nterms = 0
    for call in calls:
        T, o, cnt = call_dense(orc, call, n, Lx)
        odd |= o
        nterms += cnt
        if call['plus_hc']:
            H += T + T.conj().T
        elif explicit:
            H += 0.5 * (T + T.conj().T)
        else:
            H += T
    return H, odd, nterms


def is_nn(calls, n, Lx):
    if any(c['api'] == 'exp' for c in calls):
        return False
    return all(max(i for _, i in t) - min(i for _, i in t) <= 1 for c in calls for t in call_terms(c, n, Lx))


# ------------------------------------------------------------------------------------------------
# generation

def gen_calls(rng, lat, quick, enumerate_pairs):
    sites = lat.mps_sites()
    n = len(lat.unit_cell)
    Lx = lat.Ls[0]
    words = [c12_jw.site_words(s) for s in lat.unit_cell]       # per u: (odd words, even words)
    atomic = [cc.fermionic_names(s)[0] for s in lat.unit_cell]
    ferm_u = [u for u in range(n) if atomic[u]]
    cases = []

    def strength():
        s = rng.choice(STRENGTHS)
        return [float(np.real(s)), float(np.imag(s))]

    # --- add_local_term: every ordered pair of sites x atomic operators (uniform fermion chains), both plus_hc
    if enumerate_pairs:
        for (x1, u1), (x2, u2) in itertools.product(itertools.product(range(Lx), ferm_u), repeat=2):
            for a in atomic[u1]:
                for b in atomic[u2]:
                    for hc in (False, True):
                        cases.append([dict(api='local', strength=strength(), plus_hc=hc,
                                           term=[[a, [x1, u1]], [b, [x2, u2]]])])
    if len(cases) > (260 if quick else 3000):
        cases = rng.sample(cases, 260 if quick else 3000)

    def rand_entry(odd):
        u = rng.choice(ferm_u) if odd else rng.randrange(n)
        ow, ew = words[u]
        w = rng.choice(ow) if odd else rng.choice(ew)
        return w, u

    def parities(k):
        """k flags with an even number of True, mostly fermionic"""
        while True:
            p = [rng.random() < 0.75 for _ in range(k)]
            if sum(p) % 2 == 0 and any(p):
                return p

    # --- add_local_term: products of 2..5 operators in any order, repeated sites, compound names
    for _ in range(50 if quick else 600):
        k = rng.choice([2, 3, 4, 4, 4, 5])
        term = []
        for odd in parities(k):
            w, u = rand_entry(odd)
            term.append([w, [rng.randrange(Lx), u]])
        cases.append([dict(api='local', strength=strength(), plus_hc=rng.random() < 0.6, term=term)])
    # quadruples of atomic fermionic operators (the classic  Cd_i Cd_j C_k C_l  in any order)
    for _ in range(40 if quick else 400):
        term = []
        for _k in range(4):
            u = rng.choice(ferm_u)
            term.append([rng.choice(atomic[u]), [rng.randrange(Lx), u]])
        cases.append([dict(api='local', strength=strength(), plus_hc=True, term=term)])
    # --- add_coupling: every (u1, u2, dx) incl. negative dx
    for _ in range(40 if quick else 400):
        odd = rng.random() < 0.8
        (w1, u1), (w2, u2) = rand_entry(odd), rand_entry(odd)
        dx = rng.choice([-2, -1, -1, 0, 1, 1, 2])
        if (dx == 0 and u1 == u2) or abs(dx) >= Lx:
            continue
        cases.append([dict(api='coupling', strength=strength(), plus_hc=rng.random() < 0.6, u1=u1, op1=w1, u2=u2, op2=w2,
                           dx=[dx])])
    # --- add_multi_coupling
    for _ in range(40 if quick else 400):
        k = rng.choice([2, 3, 3, 4, 4])
        ops = []
        for odd in parities(k):
            w, u = rand_entry(odd)
            ops.append([w, [rng.choice([-1, 0, 0, 1, 1, 2])], u])
        dxs = [o[1][0] for o in ops]
        if (len({(o[1][0], o[2]) for o in ops}) == 1) or max(dxs) - min(dxs) >= Lx:
            continue
        cases.append([dict(api='multi', strength=strength(), plus_hc=rng.random() < 0.6, ops=ops)])
    # --- coverage round: the remaining entry points -------------------------------------------------------------
    N = n * Lx
    allw = [words[u][0] + words[u][1] for u in range(n)]
    for _ in range(12 if quick else 120):      # add_onsite (even operators; odd ones must be rejected)
        u = rng.randrange(n)
        odd = bool(words[u][0]) and rng.random() < 0.2
        cases.append([dict(api='onsite', strength=strength(), plus_hc=rng.random() < 0.5, u=u,
                           op=rng.choice(words[u][0] if odd else words[u][1]))])
    for _ in range(10 if quick else 100):      # add_onsite_term: literal operator on one MPS site
        i = rng.randrange(N)
        cases.append([dict(api='onsite_term', strength=strength(), plus_hc=rng.random() < 0.5, i=i,
                           op=rng.choice(words[i % n][1]))])
    for _ in range(25 if quick else 250):      # add_coupling_term: literal operator string, no automatic JW
        i, j = sorted(rng.sample(range(N), 2))
        fermi = atomic[i % n] and atomic[j % n] and rng.random() < 0.6
        if fermi:
            call = dict(op_i=rng.choice(atomic[i % n]) + ' JW', op_j=rng.choice(atomic[j % n]), op_string='JW')
        else:
            call = dict(op_i=rng.choice(allw[i % n]), op_j=rng.choice(allw[j % n]), op_string=rng.choice(['Id', 'Id', 'JW']))
        cases.append([dict(api='coupling_term', strength=strength(), plus_hc=rng.random() < 0.6, i=i, j=j, **call)])
    if N >= 3:
        for _ in range(25 if quick else 250):  # add_multi_coupling_term: op_string as list or single name, switchLR
            k = rng.choice([2, 3, 3, min(4, N)])
            ijkl = sorted(rng.sample(range(N), k))
            ops = [rng.choice(allw[i % n]) for i in ijkl]
            strs = rng.choice(['Id', 'JW', [rng.choice(['Id', 'JW']) for _ in range(k - 1)], [rng.choice(['Id', 'JW']) for _ in range(k - 1)]])
            cases.append([dict(api='multi_term', strength=strength(), plus_hc=rng.random() < 0.6, ijkl=ijkl, ops=ops,
                               op_string=strs, switchLR=rng.choice(['middle_i', 'middle_op', ijkl[0], ijkl[-1]]))])
    for _ in range(25 if quick else 250):      # add_coupling with explicit op_string / category / strength array
        odd = rng.random() < 0.7
        (w1, u1), (w2, u2) = rand_entry(odd), rand_entry(odd)
        dx = rng.choice([-2, -1, 1, 1, 2])
        if abs(dx) >= Lx:
            continue
        call = dict(api='coupling', strength=strength(), plus_hc=rng.random() < 0.6, u1=u1, op1=w1, u2=u2, op2=w2, dx=[dx],
                    op_string='JW' if odd else 'Id')
        if rng.random() < 0.5:
            call['category'] = 'my category'
        if rng.random() < 0.5:
            call['strength_array'] = [rng.choice([1.0, -0.5, 2.0, 0.25]) for _ in range(Lx - abs(dx))]
        cases.append([call])
    if n == 1 and ferm_u:
        for _ in range(10 if quick else 80):   # add_exponentially_decaying_coupling with fermionic / bosonic operators
            odd = rng.random() < 0.7
            w1 = rng.choice(words[0][0] if odd else words[0][1])
            w2 = rng.choice(words[0][0] if odd else words[0][1])
            lam = rng.choice([[0.5, 0.0], [-0.25, 0.0], [0.0, 0.5], [0.5, 0.25]])
            cases.append([dict(api='exp', strength=strength(), plus_hc=rng.random() < 0.6, op_i=w1, op_j=w2, **{'lambda': lam})])
    # the same category first for a two-site, then for a longer term: CouplingTerms -> MultiCouplingTerms conversion
    locals2 = [c[0] for c in cases if c[0]['api'] == 'local' and len({tuple(i) for _, i in c[0]['term']}) == 2]
    locals3 = [c[0] for c in cases if c[0]['api'] in ('local', 'multi') and len(c[0].get('term', c[0].get('ops'))) >= 3]
    for _ in range(6 if quick else 60):
        if locals2 and locals3:
            cases.append([dict(rng.choice(locals2), category='shared'), dict(rng.choice(locals3), category='shared')])
    cterms = [c[0] for c in cases if c[0]['api'] == 'coupling_term']
    mterms = [c[0] for c in cases if c[0]['api'] == 'multi_term' and len(c[0]['ijkl']) >= 3]
    for _ in range(4 if quick else 40):
        if cterms and mterms:
            cases.append([dict(rng.choice(cterms), category='shared2'), dict(rng.choice(mterms), category='shared2')])
    # --- several calls in one model
    singles = [c[0] for c in cases]
    for _ in range(15 if quick else 150):
        cases.append([dict(c) for c in rng.sample(singles, min(len(singles), rng.choice([2, 3])))])
    # --- invalid: odd total parity must be rejected
    for _ in range(8 if quick else 60):
        (w1, u1), (w2, u2) = rand_entry(True), rand_entry(False)
        x1, x2 = rng.sample(range(Lx), 2)
        cases.append([dict(api='local', strength=strength(), plus_hc=rng.random() < 0.5,
                           term=[[w1, [x1, u1]], [w2, [x2, u2]]])])
    return cases


def charge_conserving(sites, H):
    """True if the dense operator only connects basis states of equal total charge (w.r.t. the sites' legs)"""
    chinfo = sites[0].leg.chinfo
    if chinfo.qnumber == 0:
        return True
    tot = np.zeros((1, chinfo.qnumber), int)
    for s in sites:
        q = s.leg.to_qflat() * s.leg.qconj
        tot = (tot[:, None, :] + q[None, :, :]).reshape(-1, chinfo.qnumber)
    tot = chinfo.make_valid(tot)
    a, b = np.nonzero(np.abs(H) > TOL)
    return bool(np.all(tot[a] == tot[b]))


# ------------------------------------------------------------------------------------------------
def check_calls(res, lat_spec, lat, orc, calls, explicit):
    n = len(lat.unit_cell)
    Lx = lat.Ls[0]
    case = {'part': 'model', 'cell': lat_spec[0], 'Lx': lat_spec[1], 'explicit_plus_hc': explicit, 'calls': calls}
    apis = '+'.join(sorted({c['api'] for c in calls}))
    Href, odd, nterms = reference(orc, calls, explicit, n, Lx)
    nontrivial = any(len({i for _, i in t}) >= 2 and any(c12_jw.word_is_odd(w) for w, _ in t)
                     for c in calls for t in call_terms(c, n, Lx))
    res.note_case(case, nontrivial)
    res.count('model.api=' + apis)
    res.count('model.explicit=%s' % explicit)
    res.count('model.plus_hc=%s' % any(c['plus_hc'] for c in calls))
    m = make_model(lat, explicit)
    try:
        with warnings.catch_warnings():
            warnings.simplefilter('ignore')
            for c in calls:
                apply_call(m, c)
        err = None
    except ValueError as e:
        err = str(e)
    if odd or nterms == 0:
        multi_site = any(len({i for _, i in t}) >= 2 for c in calls for t in call_terms(c, n, Lx))
        # odd products must be rejected: over several sites by the JW functions, on one site by add_onsite /
        # add_local_term ("can't add onsite operator which needs a Jordan-Wigner string")
        if err is None and odd and (multi_site or all(c['api'] in ('onsite', 'local') for c in calls)):
            res.fail('property', f'model.{apis}.odd-term-accepted', f'calls {calls}: odd fermion parity accepted', case)
        return
    if err is not None:
        if 'hermitian conjugate of operator' in err and any(c['api'] == 'multi_term' and isinstance(c['op_string'], str)
                                                             and c['plus_hc'] for c in calls):
            res.fail('property', 'model.multi_term.plus_hc.single-name-op_string-rejected',
                     f'add_multi_coupling_term(..., op_string=<single name>, plus_hc=True) raised ValueError ({err}); the same '
                     f'call with plus_hc=False is accepted. calls {calls}', case)
            return
        res.fail('property', f'model.{apis}.even-term-rejected', f'calls {calls}: ValueError {err}', case)
        return
    try:
        H = dense_from_mpo_model(m)
    except Exception as e:
        # legitimate: the zero operator has no MPO; an operator that changes a conserved charge has none either
        sites = lat.mps_sites()
        fragile = np.abs(Href).max() <= TOL or not charge_conserving(sites, Href)
        if not fragile:
            # an elementary product that vanishes identically (e.g. 'Cd Cd') or changes a conserved charge still
            # carries a formal charge tenpy cannot place in one MPO
            for c in calls:
                if c['api'] in PLAIN_APIS or c['api'] in ('exp', 'onsite'):
                    mats = [call_dense(orc, c, n, Lx)[0]]
                else:
                    mats = [orc.term(t)[0] for t in call_terms(c, n, Lx)]
                for mat in mats:
                    if np.abs(mat).max() <= TOL or not charge_conserving(sites, mat):
                        fragile = True
        if fragile:
            res.count('model.not-representable')
            return
        res.fail('property', f'model.{apis}.mpo-build', f'{type(e).__name__}: {e}', case)
        return
    hc_requested = explicit or all(c['plus_hc'] for c in calls)
    herm = float(np.abs(H - H.conj().T).max())
    dev = float(np.abs(H - Href).max())
    if dev > TOL:
        kind = 'hc-part' if (hc_requested and herm > TOL) else 'operator'
        res.fail('property', f'model.{apis}.dense-vs-JW.{kind}',
                 f'explicit_plus_hc={explicit}, calls {calls}: dense H from the MPO deviates from the Jordan-Wigner '
                 f'reference by {dev:.3g}; |H - H^dagger| = {herm:.3g}' +
                 (' although the hermitian conjugate was requested' if hc_requested and herm > TOL else ''), case)
        return
    if hc_requested and herm > TOL:
        res.fail('property', f'model.{apis}.plus_hc.not-hermitian', f'calls {calls}: |H - H^dagger| = {herm:.3g}', case)
        return
    if is_nn(calls, n, Lx) and lat.N_sites >= 3:
        try:
            m2 = make_model(lat, explicit)
            with warnings.catch_warnings():
                warnings.simplefilter('ignore')
                for c in calls:
                    apply_call(m2, c)
            H2 = dense_from_bonds_model(m2)
            res.count('model.second-path=H_bond')
            if float(np.abs(H2 - Href).max()) > TOL:
                res.fail('property', f'model.{apis}.H_bond.dense-vs-JW',
                         f'explicit_plus_hc={explicit}, calls {calls}: dense H from H_bond deviates from the reference by '
                         f'{np.abs(H2 - Href).max():.3g}', case)
        except (ValueError, AssertionError):
            pass   # H_bond is not available for every configuration (e.g. multi-coupling terms collapsing to one site)
            # e.g. explicit_plus_hc models do not provide H_bond in every configuration


def shrink_calls(lat_spec, lat, orc, calls, explicit):
    """fewer calls, fewer operators per local term, while the case still fails"""
    def bad(cs):
        r = core.Result()
        check_calls(r, lat_spec, lat, orc, cs, explicit)
        return bool(r.failures)
    cur = [dict(c) for c in calls]
    changed = True
    while changed:
        changed = False
        for k in range(len(cur)):
            cand = cur[:k] + cur[k + 1:]
            if cand and bad(cand):
                cur, changed = cand, True
                break
        if changed:
            continue
        for k, c in enumerate(cur):
            key = 'term' if c['api'] == 'local' else ('ops' if c['api'] == 'multi' else None)
            if key is None or len(c[key]) <= 2:
                continue
            for d in range(len(c[key])):
                c2 = dict(c)
                c2[key] = c[key][:d] + c[key][d + 1:]
                cand = cur[:k] + [c2] + cur[k + 1:]
                try:
                    if bad(cand):
                        cur, changed = cand, True
                        break
                except Exception:
                    pass
            if changed:
                break
    return cur


def _one_lattice(args):
    prop, tier, seed, budget, idx = args
    ctx = core.Ctx(prop, tier, seed, budget)
    res = core.Result()
    rng = ctx.sub_rng(f'model:{idx}')
    lat_spec = gen_lattice(rng, idx)
    lat = build_lattice(*lat_spec)
    orc = cc.ChainOracle(lat.mps_sites())
    n_shrunk = 0
    for calls in gen_calls(rng, lat, ctx.quick, enumerate_pairs=(idx < 3)):
        for explicit in ((False, True) if rng.random() < 0.5 else (False,)):
            tmp = core.Result()
            check_calls(tmp, lat_spec, lat, orc, calls, explicit)
            if tmp.failures and n_shrunk < 3:
                n_shrunk += 1
                small = shrink_calls(lat_spec, lat, orc, calls, explicit)
                tmp2 = core.Result()
                check_calls(tmp2, lat_spec, lat, orc, small, explicit)
                if tmp2.failures:
                    tmp.failures = tmp2.failures
            res.merge(tmp)
    return res


def check_model_errors(res):
    """argument errors of the model API (documented ValueErrors)"""
    lat = build_lattice([dict(cls='fermion', cons=None, filling=[1, 2]), dict(cls='spinHalf', cons=None)], 2)
    case = {'part': 'model-errors'}
    res.note_case(case, False)
    bad = [
        ('unknown onsite operator', lambda m: m.add_onsite(1., 0, 'Nope')),
        ('unknown operator in add_coupling', lambda m: m.add_coupling(1., 0, 'Nope', 0, 'C', [1])),
        ('unknown op_string', lambda m: m.add_coupling(1., 0, 'N', 0, 'N', [1], op_string='Nope')),
        ('purely onsite coupling', lambda m: m.add_coupling(1., 0, 'N', 0, 'N', [0])),
        ('one fermionic operator in add_coupling', lambda m: m.add_coupling(1., 0, 'C', 1, 'Sz', [0])),
        ('odd number of fermionic operators in add_multi_coupling', lambda m: m.add_multi_coupling(1., [('C', [0], 0), ('N', [1], 0), ('Sz', [0], 1)])),
        ('unknown operator in add_multi_coupling', lambda m: m.add_multi_coupling(1., [('Nope', [0], 0), ('N', [1], 0)])),
        ('purely onsite multi coupling', lambda m: m.add_multi_coupling(1., [('N', [0], 0), ('N', [0], 0)])),
        ('fermionic onsite operator', lambda m: m.add_onsite(1., 0, 'Cd')),
        ('fermionic onsite local term', lambda m: m.add_local_term(1., [('Cd', (0, 0))])),
        ('empty local term', lambda m: m.add_local_term(1., [])),
        ('one fermionic operator in exponentially decaying coupling', lambda m: m.add_exponentially_decaying_coupling(1., 0.5, 'C', 'N', subsites=[0, 2])),
    ]
    for what, fn in bad:
        m = make_model(lat, False)
        try:
            with warnings.catch_warnings():
                warnings.simplefilter('ignore')
                fn(m)
            res.fail('property', 'model.invalid-argument-accepted', what + ': no ValueError', case)
        except ValueError:
            pass
        except Exception as e:
            res.fail('property', 'model.invalid-argument-accepted', f'{what}: {type(e).__name__}: {e}', case)
    # zero strength: nothing is added, not even for undefined operators (documented shortcut)
    m = make_model(lat, False)
    m.add_onsite(0., 0, 'Nope')
    m.add_coupling(0., 0, 'Nope', 0, 'Nope', [1])
    m.add_multi_coupling(0., [('Nope', [0], 0), ('Nope', [1], 0)])
    if m.onsite_terms or m.coupling_terms:
        res.fail('property', 'model.zero-strength', 'terms added for strength 0', case)


def run(ctx, n_lattices=None):
    res = core.Result()
    check_model_errors(res)
    n = n_lattices or (7 if ctx.quick else 40)
    jobs = [(ctx.prop, ctx.tier, ctx.seed, ctx.budget_s, idx) for idx in range(n)]
    if ctx.quick:
        for j in jobs:
            res.merge(_one_lattice(j))
    else:
        import multiprocessing as mp
        with mp.get_context('fork').Pool(min(16, mp.cpu_count())) as pool:
            for r in pool.imap_unordered(_one_lattice, jobs):
                res.merge(r)
    return res


def run_case(ctx, case):
    res = core.Result()
    lat_spec = (case['cell'], case['Lx'])
    lat = build_lattice(*lat_spec)
    orc = cc.ChainOracle(lat.mps_sites())
    check_calls(res, lat_spec, lat, orc, case['calls'], case['explicit_plus_hc'])
    return res


def search(ctx):
    return run(ctx, n_lattices=(10 if ctx.quick else 48))
