"""C12, part `site`: every predefined site class x parameters x conservation option.

real tenpy site  <->  Lean model tables (exact / squared)   and   independent oracle = the defining algebra,
hc pairs, charge rule, label meaning and equality with the conserve=None site, evaluated with numpy on the dense
matrices of the real operators."""
import warnings

import numpy as np

from vlib import core
from harness import c12_common as cc

TOL = 1e-12


def comm(a, b):
    return a @ b - b @ a


def acomm(a, b):
    return a @ b + b @ a


def close(a, b, tol=TOL):
    return a.shape == b.shape and bool(np.all(np.abs(a - b) <= tol))


# ------------------------------------------------------------------------------------------------
def impl_record(site):
    """Everything the model predicts, read off the real site."""
    ops = {}
    for name in sorted(site.opnames):
        op = site.get_op(name)
        ops[name] = dict(m=cc.unpermuted(site, name), jw=(name in site.need_JW_string),
                         hc=site.hc_ops.get(name), q=[int(x) for x in op.qtotal])
    c2 = getattr(site, 'charge_to_JW_parity', None)
    return dict(dim=site.dim, ops=ops, perm=[int(x) for x in site.perm],
                mod=[int(x) for x in site.leg.chinfo.mod], qnames=list(site.leg.chinfo.names),
                qflat=[[int(x) for x in row] for row in site.leg.to_qflat()],
                labels={k: int(v) for k, v in site.state_labels.items()},
                c2jw=None if c2 is None else [int(x) for x in c2])


def diff_model(spec, rec, mod):
    """list of human readable differences model vs implementation (empty = agree)"""
    out = []
    if 'error' in mod or '_raw' in mod:
        return ['driver: ' + str(mod)[:200]]
    q = spec.get('q', 1)
    if mod['dim'] != rec['dim']:
        out.append(f"dim {rec['dim']} model {mod['dim']}")
        return out
    if sorted(mod['ops']) != sorted(rec['ops']):
        out.append(f"opnames impl {sorted(rec['ops'])} model {sorted(mod['ops'])}")
    for name in sorted(set(mod['ops']) & set(rec['ops'])):
        mo, io = mod['ops'][name], rec['ops'][name]
        mm, exact = cc.model_matrix(mo['m'], q)
        if not cc.mat_equal(io['m'].astype(complex), mm, exact):
            out.append(f'op {name}: matrix differs\nimpl {io["m"].tolist()}\nmodel {mm.tolist()}')
        if mo['jw'] != io['jw']:
            out.append(f'op {name}: need_JW impl {io["jw"]} model {mo["jw"]}')
        if mo['hc'] != io['hc']:
            out.append(f'op {name}: hc impl {io["hc"]} model {mo["hc"]}')
        if mo['q'] != io['q']:
            out.append(f'op {name}: qtotal impl {io["q"]} model {mo["q"]}')
        if not mo['qok']:
            out.append(f'op {name}: model says entries connect different charge differences')
    if mod['perm'] != rec['perm']:
        out.append(f"perm impl {rec['perm']} model {mod['perm']}")
    else:
        if [mod['charges'][p] for p in mod['perm']] != rec['qflat']:
            out.append(f"leg charges impl {rec['qflat']} model {[mod['charges'][p] for p in mod['perm']]}")
    for k in ('mod', 'qnames', 'labels', 'c2jw'):
        if mod[k] != rec[k]:
            out.append(f'{k}: impl {rec[k]} model {mod[k]}')
    return out


# ------------------------------------------------------------------------------------------------
# oracle

def _labels_check(site, fails, cls, checks):
    """checks: list of (label, opname, expected eigenvalue)"""
    for lab, opname, val in checks:
        if lab not in site.state_labels:
            fails.append((f'site.{cls}.label.missing', f'label {lab!r} missing'))
            continue
        k = site.state_labels[lab]
        m = site.get_op(opname).to_ndarray()
        col = m[:, k]
        e = np.zeros(site.dim, complex)
        e[k] = val
        if not np.all(np.abs(col - e) <= TOL):
            fails.append((f'site.{cls}.label.{opname}', f'state {lab!r} (index {k}): {opname}|state> = {col.tolist()} '
                                                          f'expected eigenvalue {val}'))


def oracle_site(site, spec):
    """The property on the real site, no model. Returns [(signature, detail)]."""
    from tenpy.networks import site as S
    cls = spec['cls']
    fails = []
    D = {n: site.get_op(n).to_ndarray().astype(complex) for n in site.opnames}
    I = np.eye(site.dim)

    def need(rel, ok, detail=''):
        if not ok:
            fails.append((f'site.{cls}.algebra.{rel}', f'{rel} violated {detail}'))

    def has(*names):
        return all(n in D for n in names)

    # --- declared hermitian conjugates
    for a, b in sorted(site.hc_ops.items()):
        if a not in D or b not in D or not close(D[a].conj().T, D[b]):
            fails.append((f'site.{cls}.hc.{a}', f'hc_ops[{a!r}] = {b!r} is not the conjugate transpose'))
    expected_pairs = {'spinHalf': [('Sp', 'Sm')], 'spin': [('Sp', 'Sm')], 'fermion': [('C', 'Cd')],
                      'shFermion': [('Cu', 'Cdu'), ('Cd', 'Cdd'), ('Sp', 'Sm')],
                      'shHole': [('Cu', 'Cdu'), ('Cd', 'Cdd'), ('Sp', 'Sm')], 'boson': [('B', 'Bd')],
                      'clock': [('X', 'Xhc'), ('Z', 'Zhc')]}[cls]
    for a, b in expected_pairs:
        if site.hc_ops.get(a) != b or site.hc_ops.get(b) != a:
            fails.append((f'site.{cls}.hc.{a}', f'pair ({a},{b}) not declared: {site.hc_ops.get(a)!r}, {site.hc_ops.get(b)!r}'))
    for n in D:
        if n not in site.hc_ops:
            fails.append((f'site.{cls}.hc.{n}', f'no hermitian conjugate known for {n}'))

    # --- charges of operators = charge(out) - charge(in) for every non-zero entry
    chinfo = site.leg.chinfo
    qflat = site.leg.to_qflat() * site.leg.qconj
    for n in sorted(D):
        op = site.get_op(n)
        nz = np.argwhere(np.abs(D[n]) > 1e-14)
        for a, b in nz:
            dq = chinfo.make_valid(qflat[a] - qflat[b])
            if not np.array_equal(dq, op.qtotal):
                fails.append((f'site.{cls}.opcharge.{n}', f'entry ({a},{b}) connects charges {qflat[b]} -> {qflat[a]}, '
                                                          f'operator charge {op.qtotal}'))
                break

    # --- JW sign and charge_to_JW_parity
    jw = D['JW']
    need('JW-diagonal-signs', close(jw, np.diag(np.diag(jw))) and np.all(np.abs(np.abs(np.diag(jw)) - 1) <= TOL))
    if getattr(site, 'charge_to_JW_parity', None) is not None:
        signs = site.charge_to_JW_signs(site.leg.to_qflat())
        if not close(np.diag(signs).astype(complex), jw):
            fails.append((f'site.{cls}.charge_to_JW_signs', f'signs from charges {signs.tolist()} but JW = {np.diag(jw).tolist()}'))
    for n in D:
        # every operator flagged need_JW (except the strings themselves) anticommutes with JW; others commute
        if n in ('JW', 'JWu', 'JWd'):
            continue
        if n in site.need_JW_string:
            need(f'JW-anticommutes-{n}', close(jw @ D[n], -D[n] @ jw))
        else:
            need(f'JW-commutes-{n}', close(jw @ D[n], D[n] @ jw))

    # --- same physical operators as the conserve=None site
    none_spec = dict(spec)
    for k in ('cons', 'consN', 'consSz'):
        if k in none_spec:
            none_spec[k] = None
    none_spec['sort'] = False
    ref = cc.make_site(none_spec)
    for n in sorted(D):
        if n in ref.opnames:
            if not close(cc.unpermuted(site, n).astype(complex), ref.get_op(n).to_ndarray().astype(complex), 0.0):
                fails.append((f'site.{cls}.conserve-consistency.{n}', f'{n} differs from the conserve=None operator '
                                                                      f'after undoing perm={list(site.perm)}'))
    if sorted(int(x) for x in site.perm) != list(range(site.dim)):
        fails.append((f'site.{cls}.perm', f'perm {site.perm} is not a permutation'))
    for lab, k in ref.state_labels.items():
        if lab not in site.state_labels or site.perm[site.state_labels[lab]] != k:
            fails.append((f'site.{cls}.label.perm', f'label {lab!r}: index {site.state_labels.get(lab)} does not map to '
                                                    f'original state {k} under perm {list(site.perm)}'))
    q = site.leg.to_qflat()
    if site.used_sort_charge or spec.get('sort', True):
        keys = [tuple(r[::-1]) for r in q.tolist()]
        if keys != sorted(keys) and spec.get('sort', True):
            fails.append((f'site.{cls}.sort_charge', f'charges not sorted: {q.tolist()}'))

    # --- class specific algebra and label meaning
    if cls in ('spinHalf', 'spin'):
        Sv = 0.5 if cls == 'spinHalf' else spec['twoS'] / 2.
        Sz, Sp, Sm = D['Sz'], D['Sp'], D['Sm']
        need('[Sz,Sp]=Sp', close(comm(Sz, Sp), Sp))
        need('[Sz,Sm]=-Sm', close(comm(Sz, Sm), -Sm))
        need('[Sp,Sm]=2Sz', close(comm(Sp, Sm), 2 * Sz))
        need('casimir', close(Sz @ Sz + 0.5 * acomm(Sp, Sm), Sv * (Sv + 1) * I))
        if has('Sx', 'Sy'):
            Sx, Sy = D['Sx'], D['Sy']
            need('[Sx,Sy]=iSz', close(comm(Sx, Sy), 1j * Sz))
            need('[Sy,Sz]=iSx', close(comm(Sy, Sz), 1j * Sx))
            need('[Sz,Sx]=iSy', close(comm(Sz, Sx), 1j * Sy))
            need('Sp=Sx+iSy', close(Sp, Sx + 1j * Sy))
            need('Sm=Sx-iSy', close(Sm, Sx - 1j * Sy))
        if cls == 'spinHalf':
            need('Sigmaz=2Sz', close(D['Sigmaz'], 2 * Sz))
            if has('Sigmax'):
                need('Sigmax=2Sx', close(D['Sigmax'], 2 * D['Sx']))
                need('Sigmay=2Sy', close(D['Sigmay'], 2 * D['Sy']))
            _labels_check(site, fails, cls, [('up', 'Sz', 0.5), ('down', 'Sz', -0.5), ('0.5', 'Sz', 0.5), ('-0.5', 'Sz', -0.5)])
        else:
            checks = [('up', 'Sz', Sv), ('down', 'Sz', -Sv)]
            for n in range(spec['twoS'] + 1):
                checks.append((str(-Sv + n), 'Sz', -Sv + n))
            _labels_check(site, fails, cls, checks)
    elif cls == 'fermion':
        C, Cd, N = D['C'], D['Cd'], D['N']
        fil = spec['filling'][0] / spec['filling'][1]
        need('{C,Cd}=1', close(acomm(C, Cd), I))
        need('C^2=0', close(C @ C, 0 * I) and close(Cd @ Cd, 0 * I))
        need('N=CdC', close(N, Cd @ C))
        need('JW=1-2N', close(jw, I - 2 * N))
        need('dN=N-filling', close(D['dN'], N - fil * I))
        need('dNdN=dN^2', close(D['dNdN'], D['dN'] @ D['dN']))
        _labels_check(site, fails, cls, [('empty', 'N', 0), ('full', 'N', 1)])
    elif cls in ('shFermion', 'shHole'):
        fil = spec['filling'][0] / spec['filling'][1]
        Cu, Cdu, Cd, Cdd = D['Cu'], D['Cdu'], D['Cd'], D['Cdd']
        Nu, Nd = D['Nu'], D['Nd']
        need('Nu=CduCu', close(Nu, Cdu @ Cu))
        need('Nd=CddCd', close(Nd, Cdd @ Cd))
        need('Ntot=Nu+Nd', close(D['Ntot'], Nu + Nd))
        need('dN=Ntot-filling', close(D['dN'], Nu + Nd - fil * I))
        need('JWu=(-1)^Nu', close(D['JWu'], I - 2 * Nu))
        need('JWd=(-1)^Nd', close(D['JWd'], I - 2 * Nd))
        need('JW=JWuJWd', close(jw, D['JWu'] @ D['JWd']))
        need('Sz=(Nu-Nd)/2', close(D['Sz'], 0.5 * (Nu - Nd)))
        need('Sp=CduCd', close(D['Sp'], Cdu @ Cd))
        need('Sm=CddCu', close(D['Sm'], Cdd @ Cu))
        need('[Sz,Sp]=Sp', close(comm(D['Sz'], D['Sp']), D['Sp']))
        need('[Sp,Sm]=2Sz', close(comm(D['Sp'], D['Sm']), 2 * D['Sz']))
        if has('Sx', 'Sy'):
            need('Sx=(Sp+Sm)/2', close(D['Sx'], 0.5 * (D['Sp'] + D['Sm'])))
            need('Sy=-i(Sp-Sm)/2', close(D['Sy'], -0.5j * (D['Sp'] - D['Sm'])))
            need('[Sx,Sy]=iSz', close(comm(D['Sx'], D['Sy']), 1j * D['Sz']))
        need('Cu^2=0', close(Cu @ Cu, 0 * I) and close(Cd @ Cd, 0 * I))
        need('{Cu,Cd}=0', close(acomm(Cu, Cd), 0 * I))
        need('{Cdu,Cdd}=0', close(acomm(Cdu, Cdd), 0 * I))
        if cls == 'shFermion':
            need('{Cu,Cdu}=1', close(acomm(Cu, Cdu), I))
            need('{Cd,Cdd}=1', close(acomm(Cd, Cdd), I))
            need('{Cu,Cdd}=0', close(acomm(Cu, Cdd), 0 * I))
            need('{Cd,Cdu}=0', close(acomm(Cd, Cdu), 0 * I))
            need('NuNd=Nu*Nd', close(D['NuNd'], Nu @ Nd))
            _labels_check(site, fails, cls, [('empty', 'Ntot', 0), ('up', 'Nu', 1), ('up', 'Nd', 0), ('down', 'Nd', 1),
                                             ('down', 'Nu', 0), ('full', 'NuNd', 1)])
        else:
            need('{Cu,Cdu}=1-Nd', close(acomm(Cu, Cdu), I - Nd))
            need('{Cd,Cdd}=1-Nu', close(acomm(Cd, Cdd), I - Nu))
            # the hole site is the restriction of the spinful fermion site to (empty, up, down)
            full = cc.make_site(dict(cls='shFermion', consN=None, consSz=None, filling=spec['filling']))
            for n in sorted(D):
                if n in full.opnames:
                    if not close(cc.unpermuted(site, n).astype(complex), full.get_op(n).to_ndarray()[:3, :3].astype(complex)):
                        fails.append((f'site.{cls}.restriction.{n}', f'{n} is not the restriction of SpinHalfFermionSite.{n}'))
            _labels_check(site, fails, cls, [('empty', 'Ntot', 0), ('up', 'Nu', 1), ('up', 'Nd', 0), ('down', 'Nd', 1),
                                             ('down', 'Nu', 0)])
    elif cls == 'boson':
        fil = spec['filling'][0] / spec['filling'][1]
        B, Bd, N = D['B'], D['Bd'], D['N']
        nmax = spec['nmax']
        # order of the number states in the current basis
        nvals = np.real(np.diag(N))
        expect = np.diag(np.where(np.abs(nvals - nmax) < 0.5, -float(nmax), 1.0))
        need('[B,Bd]=1-off-cutoff', close(comm(B, Bd), expect))
        need('N=BdB', close(N, Bd @ B))
        need('NN=N^2', close(D['NN'], N @ N))
        need('dN=N-filling', close(D['dN'], N - fil * I))
        need('dNdN=dN^2', close(D['dNdN'], D['dN'] @ D['dN']))
        need('P=(-1)^N', close(D['P'], np.diag((-1.) ** np.rint(nvals))))
        need('[N,B]=-B', close(comm(N, B), -B))
        _labels_check(site, fails, cls, [(str(n), 'N', n) for n in range(nmax + 1)] + [('vac', 'N', 0)])
    elif cls == 'clock':
        q = spec['q']
        w = np.exp(2j * np.pi / q)
        X, Z = D['X'], D['Z']
        need('XZ=wZX', close(X @ Z, w * Z @ X))
        need('X^q=1', close(np.linalg.matrix_power(X, q), I))
        need('Z^q=1', close(np.linalg.matrix_power(Z, q), I))
        need('X-unitary', close(X @ D['Xhc'], I))
        need('Z-unitary', close(Z @ D['Zhc'], I))
        if has('Xphc'):
            need('Xphc=X+Xhc', close(D['Xphc'], X + D['Xhc']))
            need('Zphc=Z+Zhc', close(D['Zphc'], Z + D['Zhc']))
        checks = [(str(n), 'Z', w ** n) for n in range(q)] + [('up', 'Z', 1)]
        if q % 2 == 0:
            checks.append(('down', 'Z', -1))
        _labels_check(site, fails, cls, checks)
        # X lowers the clock state: X |n> = |n-1>
        for n in range(q):
            v = X[:, site.state_labels[str(n)]]
            e = np.zeros(q, complex)
            e[site.state_labels[str((n - 1) % q)]] = 1
            if not close(v, e):
                fails.append((f'site.{cls}.label.X', f'X|{n}> is not |{(n - 1) % q}>'))
                break
    return fails


# ------------------------------------------------------------------------------------------------
def run_cases(ctx, specs, use_model=True):
    res = core.Result()
    recs = []
    for spec in specs:
        try:
            site = cc.make_site(spec)
            site.test_sanity()
            recs.append((site, impl_record(site), None))
        except Exception as e:  # construction of a predefined site must not fail
            recs.append((None, None, f'{type(e).__name__}: {e}'))
    models = core.run_driver('C12', [cc.driver_line(s) for s in specs]) if use_model else [None] * len(specs)
    for spec, (site, rec, err), mod in zip(specs, recs, models):
        case = {'part': 'site', 'spec': spec}
        res.note_case(case, nontrivial=True)
        res.count('site.cls=' + spec['cls'])
        res.count('site.cons=' + str(spec.get('cons', (spec.get('consN'), spec.get('consSz')))))
        if err is not None:
            res.fail('property', f'site.{spec["cls"]}.construction', err, case)
            continue
        fails = oracle_site(site, spec)
        for sig, detail in fails[:3]:
            res.fail('property', sig, detail, case)
        if mod is not None:
            res.traces_validated += 1
            d = diff_model(spec, rec, mod)
            if d and not fails:
                res.fail('correspondence', f'site.{spec["cls"]}.model-vs-impl', '; '.join(d)[:1500], case)
    return res


def run(ctx):
    rng = ctx.sub_rng('sites')
    specs = cc.all_site_specs(rng, ctx.quick)
    return run_cases(ctx, specs)


def search(ctx):
    rng = ctx.sub_rng('sites-search')
    specs = cc.all_site_specs(rng, False)
    return run_cases(ctx, specs, use_model=False)
