"""C16: LanczosGroundState / LanczosEvolution — real code vs Lean model (integer cases) and vs a dense oracle."""
import numpy as np
import scipy.linalg

from vlib import core
from harness import c16_lib as L

TOL_MODEL = 1e-9      # relative, model (exact arithmetic) vs float run: alpha, beta, psi
TOL_NORM = 1e-10
TOL_E = 1e-9          # relative to max(1, ||H||)
TOL_VEC = 1e-7


# --------------------------------------------------------------------------------------------
# generation


def gen_opts(rng, d, exact):
    o = {}
    nmax_choices = [1, 2, 3, d, d + 1, d + 3, 20] if d <= 12 else [3, 8, 20, d, d + 2, 60]
    n_max = max(1, rng.choice(nmax_choices))
    if exact:
        n_max = min(n_max, 10)
    if rng.random() < 0.85:
        o['N_max'] = n_max
    else:
        n_max = 20
    if rng.random() < 0.6:
        o['N_min'] = max(2, rng.choice([2, 2, 3, min(n_max, max(2, d)), n_max + 1, max(2, d // 2)]))
    r = rng.random()
    if r < 0.45:
        o['N_cache'] = max(2, rng.choice([2, 2, 3, 4, max(2, n_max - 1), n_max, n_max + 2]))
    if n_max < 2 and 'N_cache' not in o:
        o['N_cache'] = 2      # the default N_cache = N_max = 1 is rejected by the constructor (documented)
    if rng.random() < 0.3:
        o['reortho'] = True
    if exact or rng.random() < 0.3:
        o['cutoff'] = rng.choice([1e-6, 1e-8, 1e-9]) if exact else rng.choice([1e-8, 1e-10, 1e-12])
    if rng.random() < 0.3:
        o['E_shift'] = rng.choice([-8.0, -2.5, -0.5, 0.75, 3.0, 10.0])
    if rng.random() < 0.15:
        o['E_tol'] = rng.choice([1e-3, 1e-8, 1e-13])
    if rng.random() < 0.15:
        o['P_tol'] = rng.choice([1e-6, 1e-10, 1e-16])
    return o


def gen_case(rng, exact, evo=False):
    if exact:
        d = rng.choice([1, 1, 2, 2, 3, 3, 4, 4, 5, 6, 6, 7, 8])
    else:
        d = rng.choice([1, 2, 3, 4, 5, 6, 8, 10, 12, 16, 20, 25, 30, 40, 50, 60])
    st = L.gen_structure(rng, d)
    if exact and len(st['qflat']) > d + 5:
        st['qflat'] = [c for c in st['qflat'] if c == st['q']] + [c for c in st['qflat'] if c != st['q']][:5]
        st['blocking'] = 'shuffled-bunched'
    case = dict(part='evo' if evo else 'lanczos', mode='exact' if exact else 'float', st=st, d=d)
    idx = L.sector_indices(st)
    n_ortho = 0
    if d >= 3 and rng.random() < 0.3:
        n_ortho = rng.choice([1, 1, 2, 3 if d > 4 else 1])
    case['psi0_projected'] = rng.random() < 0.7
    if exact:
        fam = rng.choice(['random', 'random', 'random', 'sparse', 'sparse', 'complete-graph', 'path-graph',
                          'kron-deg', 'diag'])
        Hs = L.gen_int_symmetric(rng, d, fam)
        case['family'] = fam
        case['H'] = L.embed_int(st, idx, Hs, rng)
        case['psi0'] = L.gen_int_vector(rng, d, sparse=rng.random() < 0.4)
        case['ortho'] = [L.gen_int_vector(rng, d) for _ in range(n_ortho)]
        if n_ortho:
            case['psi0_projected'] = False   # projection leaves the integers; done only in float mode
    else:
        case['family'] = rng.choice(['generic', 'generic', 'deg-min', 'deg-min', 'deg-max', 'clustered'])
        case['cplx'] = rng.random() < 0.5
        case['cplx_psi'] = case['cplx'] and rng.random() < 0.7
        case['nseed'] = rng.getrandbits(48)
        case['ortho'] = n_ortho
        case['start'] = rng.choice(['random', 'random', 'random', 'eigvec', 'two-eigvecs', 'three-eigvecs'])
    case['opts'] = gen_opts(rng, d, exact)
    if n_ortho and rng.random() < 0.7:
        # documented use: shift the spectrum below zero, the projected-out vectors sit at eigenvalue 0
        # ('auto' is resolved when the operator is built: -(largest eigenvalue + 1), a multiple of 1/4; a shift far
        # beyond the spectrum makes the rounding-level components along the o's grow by a large factor per step)
        case['opts']['E_shift'] = 'auto'
        case['shift_margin'] = rng.choice([1.0, 1.0, 2.5, 10.0])
    if evo:
        case['opts'].pop('E_tol', None)
        case['delta'] = rng.choice([[0, -0.1], [0, 0.1], [0, 1.0], [0, -0.7], [0.1, 0], [-0.5, 0], [1.0, 0],
                                    [-0.05, -0.1], [0.2, 0.3]])
        case['normalize'] = rng.choice([None, True, False])
    return case


# --------------------------------------------------------------------------------------------
# building the inputs of a case


def build_inputs(case):
    """-> dict(M (n x n dense), v0 (n), O (n x k), idx, Hs, lam?)"""
    st = case['st']
    idx = L.sector_indices(st)
    d = case['d']
    n = len(st['qflat'])
    if case['mode'] == 'exact':
        M = np.array(case['H'], dtype=float).reshape(n, n)
        v0 = L.embed(st, idx, np.array(case['psi0'], dtype=float))
        O = np.zeros((n, len(case['ortho'])))
        for j, o in enumerate(case['ortho']):
            O[idx, j] = o
        return dict(M=M, v0=v0, O=O, idx=idx, cplx=False)
    nrng = np.random.default_rng(case['nseed'])
    cplx = case['cplx']
    Hs, lam = L.gen_hermitian(nrng, d, case['family'], cplx)
    M = L.fill_other_sectors(nrng, st, idx, Hs, cplx)
    w, U = np.linalg.eigh(Hs)
    start = case.get('start', 'random')
    if start == 'eigvec':
        x = U[:, int(nrng.integers(d))]
    elif start == 'two-eigvecs' and d >= 2:
        x = U[:, 0] * 0.6 + U[:, d - 1] * 0.8
    elif start == 'three-eigvecs' and d >= 3:
        x = U[:, 0] + 0.5 * U[:, 1] - 0.7 * U[:, d - 1]
    else:
        x = nrng.normal(size=d) + (1j * nrng.normal(size=d) if case.get('cplx_psi') else 0)
        x = x * nrng.uniform(0.3, 3.0)
    k = case['ortho']
    Os = nrng.normal(size=(d, k)) + (1j * nrng.normal(size=(d, k)) if cplx else 0)
    if k and nrng.random() < 0.5:
        Os[:, 0] = U[:, 0]   # project out the true ground state -> first excited state expected
    dtype = complex if (cplx or np.iscomplexobj(x)) else float
    if k and case['psi0_projected']:
        P, _ = L.ortho_complement_projector(Os)
        x = P @ x
        if np.linalg.norm(x) < 1e-6:
            x = P @ (nrng.normal(size=d))
    O = np.zeros((n, k), dtype=complex if cplx else float)
    O[idx, :] = Os
    return dict(M=M, v0=L.embed(st, idx, x, dtype=dtype), O=O, idx=idx, cplx=cplx)


def resolve_opts(case, Hs):
    opts = dict(case['opts'])
    if opts.get('E_shift') == 'auto':
        lam_max = np.linalg.eigvalsh((Hs + Hs.conj().T) / 2)[-1]
        opts['E_shift'] = -float(np.ceil(4 * (lam_max + case.get('shift_margin', 1.0))) / 4)
    return opts


def krylov_reach(Hg, x0, scale):
    """dimension of the Krylov space of (Hg, x0): number of distinct eigenvalues of Hg that x0 overlaps"""
    w, U = np.linalg.eigh((Hg + Hg.conj().T) / 2)
    wt = np.abs(U.conj().T @ x0)
    groups, cur = 0, None
    hit = False
    for lam, a in zip(w, wt):
        if cur is None or lam - cur > 1e-9 * scale:
            groups += hit
            hit = False
        cur = lam
        hit = hit or a > 1e-8 * np.linalg.norm(x0)
    return groups + hit


def condition_opts(opts, Hg, x0, scale, exact=False):
    """A run that continues after an exact breakdown (Krylov space exhausted) divides by a norm that is pure
    rounding noise (~1e-16 ||H + E_shift|| sqrt(d), above the *absolute* default cutoff 2.2e-14 once the norm
    of the operator is ~10 or more) and is not the exact-arithmetic algorithm any more.  When a breakdown can
    happen within N_max steps and the case does not choose a cutoff itself, one above the noise is chosen."""
    reach = krylov_reach(Hg, x0, scale)
    if not exact and defaults(opts)['N_min'] > max(2, reach):
        opts = dict(opts, N_min=max(2, reach))     # float cases are not forced past the breakdown
    if 'cutoff' in opts:
        return opts
    if reach <= defaults(opts)['N_max']:
        return dict(opts, cutoff=1e-9)
    return opts


def make_operator(case, inp, wrap_reuse=None):
    from tenpy.linalg import sparse
    st = case['st']
    H = L.npc_matrix(st, inp['M'])
    if inp['O'].shape[1]:
        ovs = [L.npc_vector(st, inp['O'][:, j]) for j in range(inp['O'].shape[1])]
        return sparse.OrthogonalNpcLinearOperator(H, ovs), H
    return H, H


def run_real(case, inp, opts, delta=None, normalize=None):
    """One run of the real solver on fresh objects.  Returns dict or {'raise': ...}."""
    from tenpy.linalg import krylov_based as kb
    op, H = make_operator(case, inp)
    psi = L.npc_vector(case['st'], inp['v0'])
    try:
        if delta is None:
            eng = kb.LanczosGroundState(op, psi, dict(opts))
            E, v, N = eng.run()
        else:
            eng = kb.LanczosEvolution(op, psi, dict(opts))
            v, N = eng.run(delta, normalize)
            E = None
    except ValueError as e:
        return {'raise': str(e)[:80]}
    h = eng._h_krylov
    mutated = []
    if np.linalg.norm(psi.to_ndarray() - inp['v0']) > 0:
        mutated.append('psi0')
    if np.linalg.norm(H.to_ndarray() - inp['M']) > 0:
        mutated.append('H')
    if v is psi:
        mutated.append('result-is-the-argument')
    return dict(mutated=mutated, E=None if E is None else float(E), psi=v.to_ndarray(), N=int(N),
                alphas=[float(h[k, k]) for k in range(N)], betas=[float(h[k, k + 1]) for k in range(N)],
                vf=np.array(eng._result_krylov), Erow=np.array(eng.Es[N - 1, :N]),
                rn=float(getattr(eng, '_result_norm', 1.0)), qtotal=[int(x) for x in v.qtotal],
                psi_in_qtotal=[int(x) for x in psi.qtotal])


def defaults(opts):
    o = dict(N_min=2, N_max=20, reortho=False, cutoff=np.finfo(float).eps * 100, E_shift=None)
    o.update(opts)
    o.setdefault('N_cache', o['N_max'])
    return o


def driver_line(case, inp, opts, run, kind='lanczos', normalize=None):
    o = defaults(opts)
    n = inp['M'].shape[0]
    Hj = {'mat': [[int(x) for x in row] for row in inp['M']]}
    if inp['O'].shape[1]:
        Hj = {'ortho': [Hj, [[int(x) for x in inp['O'][:, j]] for j in range(inp['O'].shape[1])],
                        L.frac_str(1e-14)]}
    line = {'k': kind, 'H': Hj, 'psi0': [int(x) for x in inp['v0']],
            'opts': {'N_min': o['N_min'], 'N_max': o['N_max'], 'N_cache': o['N_cache'],
                     'reortho': bool(o['reortho']), 'cutoff': L.frac_str(o['cutoff'])},
            'E_shift': None if o['E_shift'] is None else L.frac_str(o['E_shift']),
            'nsteps': run['N'], 'vf': [L.frac_str(float(x)) for x in np.real(run['vf'])]}
    if kind == 'lanczos':
        line['E'] = L.frac_str(float(run['Erow'][0]))
    else:
        line['rn'] = L.frac_str(run['rn'])
        line['normalize'] = bool(normalize)
    return line


# --------------------------------------------------------------------------------------------
# evaluation of one case: real runs (+ variants), oracle findings, driver lines


def rel(a, b, scale=1.0):
    return abs(a - b) / max(scale, abs(a), abs(b))


def phase_dist(a, b):
    """distance of two normalised vectors up to a phase"""
    ov = np.vdot(a, b)
    return float(np.sqrt(max(0.0, 2 - 2 * abs(ov)))) if abs(ov) > 0 else float(np.linalg.norm(a - b))


def cache_variants(o):
    full = o['N_max']
    return sorted({2, 3, full} - {o['N_cache']})


def eval_gs(case):
    """-> (fails: list of (kind, signature, detail), lines: list of (tag, driver line, run), info dict)"""
    inp = build_inputs(case)
    fails, lines = [], []
    idx = inp['idx']
    d = case['d']
    Hs = inp['M'][np.ix_(idx, idx)]
    opts = resolve_opts(case, Hs)
    o = defaults(opts)
    Os = inp['O'][idx, :]
    x0 = inp['v0'][idx]
    scale = max(1.0, np.linalg.norm(Hs, 2))
    P, B = L.ortho_complement_projector(Os)
    sh = o['E_shift'] or 0.0
    Heff_shifted = P @ (Hs + sh * np.eye(d)) @ P          # the operator the solver is given
    lam_given = np.linalg.eigvalsh((Heff_shifted + Heff_shifted.conj().T) / 2)
    Q = L.complement_basis(B, d)
    lam_c = np.linalg.eigvalsh(Q.conj().T @ Hs @ Q) if Q.shape[1] else np.array([])
    opts = condition_opts(opts, Heff_shifted, x0, max(scale, abs(sh)), case['mode'] == 'exact')
    o = defaults(opts)
    base = run_real(case, inp, opts)
    info = dict(N=base.get('N'), raised='raise' in base)
    if 'raise' in base:
        if np.linalg.norm(x0) > 1e-6:
            fails.append(('property', 'lanczos.run.raises-on-valid-input', base['raise']))
        return fails, lines, info
    runs = {('base',): (opts, base)}
    if o['N_max'] > 2:
        for nc in cache_variants(o):
            o2 = dict(opts, N_cache=nc)
            runs[('N_cache', nc)] = (o2, run_real(case, inp, o2))
    # shift variant: toggle E_shift
    o3 = dict(opts)
    if o['E_shift'] is None:
        o3['E_shift'] = -3.25
    else:
        o3.pop('E_shift')
    if not Os.shape[1]:
        runs[('E_shift', o3.get('E_shift'))] = (o3, run_real(case, inp, o3))

    x0_in_complement = (not Os.shape[1]) or np.linalg.norm(B.conj().T @ x0) < 1e-9 * np.linalg.norm(x0)
    for tag, (oo, r) in runs.items():
        if 'raise' in r:
            fails.append(('property', 'lanczos.variant-raises', f'{tag}: {r["raise"]}'))
            continue
        od = defaults(oo)
        shv = od['E_shift'] or 0.0
        if r.get('mutated'):
            fails.append(('property', 'lanczos.modifies-its-argument.' + '+'.join(r['mutated']), f'{tag}'))
        psi = r['psi'][idx]
        rest = np.delete(r['psi'], idx)
        if np.linalg.norm(rest) > 1e-12:
            fails.append(('property', 'lanczos.result-leaves-charge-sector', f'{tag}: {np.linalg.norm(rest)}'))
        if r['qtotal'] != r['psi_in_qtotal']:
            fails.append(('property', 'lanczos.result-qtotal-changed', f'{tag}: {r["qtotal"]} vs {r["psi_in_qtotal"]}'))
        nrm = np.linalg.norm(psi)
        if abs(nrm - 1) > TOL_NORM:
            fails.append(('property', 'lanczos.result-not-normalised', f'{tag}: |psi|={nrm!r}'))
        # Ritz certificate w.r.t. the operator it was given, P (H + s) P, minus the shift
        Hg = P @ (Hs + shv * np.eye(d)) @ P
        rq = float(np.real(np.vdot(psi, Hg @ psi))) - shv
        # float Lanczos without re-orthogonalisation may lose orthogonality once Ritz values converged:
        # the strict tolerance applies when the run is short or re-orthogonalised against the full basis
        strict = r['N'] <= 12 or (od['reortho'] and od['N_cache'] >= r['N'])
        tol_rq = TOL_E if strict else 1e-6
        if r['N'] >= 1 and rel(rq, r['E'], scale) > tol_rq:
            fails.append(('property', 'lanczos.E-is-not-rayleigh-quotient-of-result',
                          f'{tag}: E={r["E"]!r} <psi|PHP|psi>-shift={rq!r} N={r["N"]} opts={oo}'))
        lam_min_given = np.linalg.eigvalsh((Hg + Hg.conj().T) / 2)[0] - shv
        if r['E'] < lam_min_given - TOL_E * scale:
            fails.append(('property', 'lanczos.E-below-smallest-eigenvalue',
                          f'{tag}: E={r["E"]!r} lambda_min={lam_min_given!r}'))
        # with projected-out vectors: they are eigenvectors of P(H+s)P at 0; the documented way to keep the
        # result in the complement is a shift that makes the wanted eigenvalue negative
        in_complement = x0_in_complement and ((not Os.shape[1]) or lam_c[0] + shv < -0.05)
        if in_complement:
            extra = 0.0
            if Os.shape[1]:
                ov = np.linalg.norm(B.conj().T @ psi)
                # rounding re-introduces the projected-out directions and the recurrence amplifies them with the
                # step number (they sit at eigenvalue 0, far outside the shifted spectrum): bound only short runs,
                # and widen the H-based tolerances by what the measured overlap can contribute
                if ov > 1e-7 and r['N'] <= 12:
                    fails.append(('property', 'lanczos.ortho.result-not-orthogonal', f'{tag}: {ov!r}'))
                extra = 4 * (abs(shv) + scale) * ov
                if r['E'] < lam_c[0] - TOL_E * scale - extra:
                    fails.append(('property', 'lanczos.ortho.E-below-smallest-eigenvalue-of-complement',
                                  f'{tag}: E={r["E"]!r} lam={lam_c[0]!r}'))
            rq2 = float(np.real(np.vdot(psi, Hs @ psi)))
            if abs(rq2 - r['E']) > tol_rq * max(scale, abs(rq2)) + extra:
                fails.append(('property', 'lanczos.E-is-not-<psi|H|psi>',
                              f'{tag}: E={r["E"]!r} <psi|H|psi>={rq2!r} N={r["N"]} opts={oo}'))
            dim_c = Q.shape[1]
            if r['N'] >= dim_c and strict and dim_c <= 12:
                # Krylov space = whole (complement) space, or an invariant subspace containing psi0
                tgt = lam_c[0]
                xc = Q.conj().T @ x0
                wc, Uc = np.linalg.eigh(Q.conj().T @ Hs @ Q)
                # smallest eigenvalue whose eigenspace psi0 overlaps
                wts = np.abs(Uc.conj().T @ xc) / np.linalg.norm(xc)
                cand = [wc[i] for i in range(dim_c) if wts[i] > 1e-6]
                tgt = min(cand) if cand else tgt
                if r['E'] > tgt + 1e-8 * scale:     # (rounding can only bring in lower eigenvectors)
                    fails.append(('property', 'lanczos.full-dimension.E-not-smallest-eigenvalue',
                                  f'{tag}: E={r["E"]!r} expected={tgt!r} N={r["N"]} dim={dim_c}'))
    # N_cache independence (reortho = False: exact; reortho = True: only E, looser)
    for tag, (oo, r) in runs.items():
        if tag[0] != 'N_cache' or 'raise' in r:
            continue
        if r['N'] != base['N']:
            if not o['reortho']:   # with reortho the basis legitimately depends on what is cached
                fails.append(('property', 'lanczos.N_cache-changes-number-of-steps',
                              f'{tag}: N={r["N"]} vs {base["N"]} opts={opts}'))
            continue
        strict = base['N'] <= 12
        tolE = TOL_E if (strict or not o['reortho']) else 1e-6
        # projected-out vectors are eigenvectors of the given operator P (H + s) P at 0; unless the shift puts the
        # wanted eigenvalue below 0 (the documented usage) they are its lowest eigenvectors, rounding noise brings
        # them in and a long run drifts towards them at a rate that depends on what is cached: nothing to compare
        drifts = bool(Os.shape[1]) and not (x0_in_complement and lam_c[0] + (o['E_shift'] or 0.0) < -0.05)
        if drifts and not strict and o['reortho']:
            continue
        if rel(r['E'], base['E'], scale) > tolE:
            fails.append(('property', 'lanczos.N_cache-changes-E', f'{tag}: {r["E"]!r} vs {base["E"]!r} opts={opts}'))
        if not o['reortho']:
            dv = np.linalg.norm(r['psi'] - base['psi'])
            if dv > (TOL_VEC if strict else 1e-5):
                fails.append(('property', 'lanczos.N_cache-changes-result-vector',
                              f'{tag}: |dpsi|={dv!r} N={base["N"]} N_cache={o["N_cache"]} opts={opts}'))
    # E_shift invariance
    for tag, (oo, r) in runs.items():
        if tag[0] != 'E_shift' or 'raise' in r:
            continue
        if r['N'] == base['N'] and base['N'] <= 12:
            if rel(r['E'], base['E'], scale) > 1e-8:
                fails.append(('property', 'lanczos.E_shift-changes-E', f'{tag}: {r["E"]!r} vs {base["E"]!r} opts={opts}'))
            if phase_dist(r['psi'], base['psi']) > 1e-5 and case['family'] not in ('deg-min',):
                fails.append(('property', 'lanczos.E_shift-changes-result-vector',
                              f'{tag}: dist={phase_dist(r["psi"], base["psi"])!r} opts={opts}'))
        elif rel(r['E'], base['E'], scale) > 1e-5 and min(r['N'], base['N']) >= min(d, 20):
            fails.append(('property', 'lanczos.E_shift-changes-E', f'{tag}: {r["E"]!r} vs {base["E"]!r} (N differs)'))
    info['lam_min'] = float(lam_c[0]) if len(lam_c) else None
    info['early_exit'] = base['N'] < min(o['N_max'], max(o['N_min'], 1)) or \
        (base['N'] < o['N_max'] and abs(base['betas'][-1]) < o['cutoff'])
    info['rebuild'] = any(defaults(oo)['N_cache'] < r.get('N', 0) for oo, r in runs.values())
    if case['mode'] == 'exact':
        for tag, (oo, r) in runs.items():
            if 'raise' not in r:
                lines.append((tag, driver_line(case, inp, oo, r), r))
    return fails, lines, info


def compare_model(tag, line, run, out, scale):
    """model (exact arithmetic) vs real run; -> list of (signature, detail)"""
    bad = []
    if 'error' in out or 'raise' in out:
        return [('lanczos.model-error', f'{tag}: {out}')]
    if out['N'] != run['N']:
        return [('lanczos.model-N', f'{tag}: model N={out["N"]} impl N={run["N"]}')]
    N = run['N']
    a_m, b_m = L.floats(out.get('alphas', [])), L.floats(out.get('betas', []))
    a_i, b_i = np.array(run['alphas']), np.array(run['betas'])
    for k in range(N if 'alphas' in out else 0):
        if rel(a_m[k], a_i[k], scale) > TOL_MODEL:
            bad.append(('lanczos.model-alpha', f'{tag}: k={k} model {a_m[k]!r} impl {a_i[k]!r}'))
            break
        if rel(b_m[k], b_i[k], scale) > TOL_MODEL and not (k == N - 1 and max(abs(b_m[k]), abs(b_i[k])) < 1e-7):
            bad.append(('lanczos.model-beta', f'{tag}: k={k} model {b_m[k]!r} impl {b_i[k]!r}'))
            break
    if not bad and 'psi' in out:
        p_m = L.floats(out['psi'])
        if np.iscomplexobj(run['psi']) and np.linalg.norm(run['psi'].imag) > 1e-12:
            bad.append(('lanczos.model-psi', f'{tag}: impl result complex for real data'))
        elif np.linalg.norm(p_m - np.real(run['psi'])) > 1e-8:
            bad.append(('lanczos.model-psi', f'{tag}: |model-impl|={np.linalg.norm(p_m - np.real(run["psi"]))!r}'))
    if not bad and 'E0' in out and rel(L.to_float(out['E0']), run['E'], scale) > 1e-12:
        bad.append(('lanczos.model-E0', f'{tag}: model {L.to_float(out["E0"])!r} impl {run["E"]!r}'))
    return bad


def well_conditioned_for_model(run):
    """betas that are neither ~0 nor comfortable make the float run ill-conditioned; skip the exact diff then"""
    b = np.abs(np.array(run['betas'][:-1]))
    return bool(np.all(b > 1e-3)) if len(b) else True


# --------------------------------------------------------------------------------------------
# evolution


def eval_evo(case):
    inp = build_inputs(case)
    fails, lines = [], []
    idx = inp['idx']
    d = case['d']
    Hs = inp['M'][np.ix_(idx, idx)]
    opts = resolve_opts(case, Hs)
    o = defaults(opts)
    Os = inp['O'][idx, :]
    x0 = inp['v0'][idx]
    P, B = L.ortho_complement_projector(Os)
    sh = o['E_shift'] or 0.0
    Hg = P @ (Hs + sh * np.eye(d)) @ P
    delta = complex(*case['delta'])
    if case['delta'][1] == 0:
        delta = float(case['delta'][0])
    normalize = case['normalize']
    scale = max(1.0, np.linalg.norm(Hs, 2), abs(sh))
    opts = condition_opts(opts, Hg, x0, scale, case['mode'] == 'exact')
    o = defaults(opts)
    r = run_real(case, inp, opts, delta=delta, normalize=normalize)
    info = dict(N=r.get('N'), raised='raise' in r)
    if 'raise' in r:
        if np.linalg.norm(x0) > 1e-6:
            fails.append(('property', 'evo.run.raises-on-valid-input', r['raise']))
        return fails, lines, info
    if r.get('mutated'):
        fails.append(('property', 'evo.modifies-its-argument.' + '+'.join(r['mutated']), ''))
    psi = r['psi'][idx]
    if np.linalg.norm(np.delete(r['psi'], idx)) > 1e-12:
        fails.append(('property', 'evo.result-leaves-charge-sector', ''))
    # exp(delta P(H+s)P) x0, evaluated in the complement basis (+ the untouched component along the o's)
    Q = L.complement_basis(B, d)
    exact = Q @ (scipy.linalg.expm(delta * (Q.conj().T @ (Hs + sh * np.eye(d)) @ Q)) @ (Q.conj().T @ x0)) \
        + B @ (B.conj().T @ x0)
    norm_expected = np.real(delta) == 0.0 if normalize is None else normalize
    n0 = np.linalg.norm(x0)
    if norm_expected:
        if abs(np.linalg.norm(psi) - 1) > TOL_NORM:
            fails.append(('property', 'evo.normalized-result-not-normalised', f'{np.linalg.norm(psi)!r}'))
        target = exact / np.linalg.norm(exact)
    else:
        target = exact
        if np.real(delta) == 0.0 and abs(np.linalg.norm(psi) - n0) > 1e-10 * max(1, n0):
            fails.append(('property', 'evo.anti-hermitian-exponent-changes-norm',
                          f'|psi|={np.linalg.norm(psi)!r} |psi0|={n0!r} delta={delta} N={r["N"]}'))
    # accuracy: guaranteed when the Krylov space is the whole reachable space (N >= dimension, or an exit on an
    # invariant subspace), or when the solver itself reports convergence before N_max
    dim_reach = krylov_reach(Hg, x0, scale)
    full = r['N'] >= dim_reach
    converged = r['N'] < o['N_max'] and r['N'] >= o['N_min'] and defaults(opts).get('P_tol', 1e-14) <= 1e-10 \
        if 'P_tol' in opts else (r['N'] < o['N_max'] and r['N'] >= o['N_min'])
    strict = r['N'] <= 12 or (o['reortho'] and o['N_cache'] >= r['N'])
    # relative error, forgiving an absolute 1e-13 |psi0| (a strongly damped result sits on rounding noise)
    err = max(0.0, np.linalg.norm(psi - target) - 1e-13 * (1.0 if norm_expected else n0)) / max(np.linalg.norm(target), 1e-300)
    if norm_expected and np.linalg.norm(exact) < 1e-6 * n0:
        err = 0.0   # normalising a vector that is mostly rounding noise: nothing to compare
    info['err'] = float(err)
    info['full'] = bool(full)
    if (full and strict and d <= 12) and err > 1e-8:
        fails.append(('property', 'evo.full-dimension.result-differs-from-expm',
                      f'err={err!r} N={r["N"]} d={d} delta={delta} normalize={normalize} opts={opts}'))
    elif converged and not full and err > 1e-6:
        fails.append(('property', 'evo.converged.result-differs-from-expm',
                      f'err={err!r} N={r["N"]} d={d} delta={delta} normalize={normalize} opts={opts}'))
    # N_cache independence
    if o['N_max'] > 2 and not o['reortho']:
        for nc in cache_variants(o):
            o2 = dict(opts, N_cache=nc)
            r2 = run_real(case, inp, o2, delta=delta, normalize=normalize)
            if 'raise' in r2:
                fails.append(('property', 'evo.variant-raises', r2['raise']))
            elif r2['N'] != r['N']:
                fails.append(('property', 'evo.N_cache-changes-number-of-steps', f'{r2["N"]} vs {r["N"]}'))
            elif np.linalg.norm(r2['psi'] - r['psi']) > (TOL_VEC if r['N'] <= 12 else 1e-5) * max(1, np.linalg.norm(r['psi'])):
                fails.append(('property', 'evo.N_cache-changes-result-vector',
                              f'N_cache={nc} vs {o["N_cache"]}: {np.linalg.norm(r2["psi"] - r["psi"])!r} N={r["N"]}'))
            if case['mode'] == 'exact' and 'raise' not in r2 and np.real(delta) == delta and False:
                pass
    if case['mode'] == 'exact' and np.imag(delta) == 0:
        norm_flag = norm_expected
        lines.append((('base',), driver_line(case, inp, opts, r, kind='evo', normalize=norm_flag), r))
    return fails, lines, info
