"""Model classes used only by the C18 harness (found by name through `find_subclass`; import this module
before building / resuming a simulation that names them)."""
import numpy as np

from tenpy.models.xxz_chain import XXZChain2


class C18DrivenXXZ(XXZChain2):
    """XXZ chain in a time-dependent field hz(t) = hz0 * cos(omega * t); reads the model option `time`
    (set by `Model.update_time_parameter`, i.e. by `TimeDependentHAlgorithm.reinit_model`)."""

    def init_terms(self, model_params):
        Jxx = model_params.get('Jxx', 1.0, 'real_or_array')
        Jz = model_params.get('Jz', 1.0, 'real_or_array')
        hz0 = model_params.get('hz0', 0.5, 'real')
        omega = model_params.get('omega', 1.0, 'real')
        time = model_params.get('time', 0.0, 'real')
        hz = hz0 * np.cos(omega * time)
        for u in range(len(self.lat.unit_cell)):
            self.add_onsite(-hz, u, 'Sz')
        for u1, u2, dx in self.lat.pairs['nearest_neighbors']:
            self.add_coupling(Jxx * 0.5, u1, 'Sp', u2, 'Sm', dx, plus_hc=True)
            self.add_coupling(Jz, u1, 'Sz', u2, 'Sz', dx)
