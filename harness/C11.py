"""C11 — MPO algebra equals operator algebra."""
import json
import multiprocessing as mp
import os
import subprocess
import time
import traceback
import warnings

from vlib import core
from harness import c11_lib, c11_check, ops_common as oc

PROP = 'C11'
MODEL_MODULES = ['TenpyModel.Util.J', 'TenpyModel.Ops.Sym', 'TenpyModel.Ops.Terms', 'TenpyModel.Ops.Graph',
                 'TenpyModel.Ops.MPO', 'TenpyModel.C11.ExtEnv', 'TenpyModel.C11.ExtStruct', 'TenpyModel.C11.ExtDecide',
                 'TenpyModel.C11.ExtTerms', 'TenpyModel.C11.ExtFlag']
PROPS_MODULES = ['TenpyModel.C11.Props',
                 'TenpyModel.C11.Props2',
                 'TenpyModel.C11.PropsExtEnv', 'TenpyModel.C11.PropsExtStruct', 'TenpyModel.C11.PropsExtDecide',
                 'TenpyModel.C11.PropsExtTerms', 'TenpyModel.C11.PropsExtFlag', 'TenpyModel.C11.PropsExtGQ']
LEAN_MODULES = PROPS_MODULES
LEVEL = 'proof'
BUDGET = {'quick': 200, 'thorough': 1500}
RULE = ('finite and infinite MPOs (a) from random W tensors over matrix units (d = 2, 3; bond dimensions 1-5; with IdL/IdR '
        'markers at standard or permuted positions, on every bond or (finite) only on a prefix / suffix of the bonds with 1-4 '
        'states per bond, or without inner markers; partner with its own bond dimensions and marker lists; max_range '
        'unknown; small Gaussian-integer entries) and (b) from random term lists on spin-1/2, spin-1, boson and fermion sites (with/without charges; '
        'operators in arbitrary site order; dyadic complex strengths; Hermitian closure in half of the cases; finite: insert_all_id False in half of the operands); partner '
        'MPOs: independent, equal, or equal plus one long-range term.  Exactly compared with the Lean model: denotation '
        '(= dense operator), tensors and markers of A+B, dagger, plus_identity, make_U_I, prefactor, overlap.  Oracle '
        '(dense numpy): sum, adjoint, is_hermitian/is_equal decisions, overlap/distance = Frobenius, alpha+beta*A, '
        'to_TermList round trip, expectation value and variance on a random state, apply by SVD/zip_up/variational with '
        'the reported truncation error as bound, U_I/U_II error ratios at t, t/2, t/4 (test level).  Non-trivial = bond '
        'dimension > 2 somewhere; distinct by content hash.  Extension stream (harness/c11_ext.py, kind ext): the same two '
        'generators (plus charged sites, sums A+B with markers -1, dropped outer markers) with random max_range / '
        'explicit_plus_hc attributes and a random subset of operations: MPOEnvironment.full_contraction at every cut / '
        'expectation_value / variance on non-canonical integer MPS (bra = ket or not), sort_legcharges, group_sites(n), '
        'enlarge_mps_unit_cell, extract_segment, overlap / distance / is_equal / is_hermitian on windows of infinite MPOs '
        '(different unit cells, all flag combinations), to_TermList in the matrix-unit basis (random start, max_range, '
        'ignore) - each compared exactly with the Lean models C11/Ext*.lean (also which inputs are rejected) and with a '
        'dense oracle.')
TRUSTED = ['Lean 4.33 kernel; axioms of every C11_* theorem ⊆ {propext, Classical.choice, Quot.sound}',
           'hand-written model lean/TenpyModel/Ops/MPO.lean tied to tenpy/networks/mpo.py by this run (tensors compared exactly)',
           'dense oracle: own contraction of the W tensors + numpy',
           'compression methods and U_II: only bounded / measured, not modelled',
           'hand-written models lean/TenpyModel/C11/Ext{Env,Struct,Decide,Terms}.lean tied to mpo.py / mps.py (environments) '
           'by the ext stream of this run']
ASSUMPTIONS = ['entries are small Gaussian integers / dyadic rationals: float arithmetic of the implementation is exact',
               'matrix units as local operator basis: formal sum = dense operator']

N_PROCS = min(12, os.cpu_count() or 1)
ANCHOR_COVERAGE_NOTE = ('coverage round 2026-09-26 (coverage 7.x, quick tier seed 0, real side run in-process, line+branch): C11 alone before -> after: networks/mpo.py 52% -> 81%, algorithms/mps_common.py 34% -> 34% (VariationalApplyMPO only; sweeps are C13/C16), networks/mps.py 24% -> 29% (C07-C09 own the MPS class); C10+C11 combined: mpo.py 55 -> 81, model.py 81 -> 88, terms.py 71 -> 86, exact_diag.py 74 -> 92')


def nontrivial(case):
    if case['kind'] == 'W':
        return max(case['chi']) > 2
    return any(len(t) >= 2 for t, _ in case['tlA'])


def case_hist(case):
    h = ['kind=' + case['kind'], 'finite=%s' % case['finite'], 'L=%d' % case['L']]
    if case['kind'] == 'W':
        h += ['d=%d' % case['d'], 'markers=%s' % case['markers'], 'chi_max=%d' % max(case['chi'])]
        h.append('partial_markers=%s' % bool(case.get('partial')))
        h.append('partner_own_structure=%s' % ('chiB' in case))
        two = [b for b in range(case['L'] + 1) if case['chi'][b] == 2
               and (case['idL'][b] is None or case['idR'][b] is None)]
        h.append('bond_with_2_states_and_missing_marker=%s' % bool(two))
        h.append('partner=%s' % ('WB' in case))
        std = all(l == 0 for l in case['idL'] if l is not None)
        h.append('markers_standard_position=%s' % std)
        for k in ('plus_identity', 'UI', 'prefactor'):
            if k in case:
                h.append('op=' + k)
    else:
        h += ['site=%s(%s)' % (case['site']['cls'], ','.join(str(v) for v in case['site']['kw'].values())),
              'hermitian_closure=%s' % case.get('herm'), 'partner=%s' % ('tlB' in case),
              'insert_all_id=%s' % case.get('insert_all_id', [True, True])]
        if case.get('B_is_A_plus_one'):
            h.append('partner=A+one-long-range-term')
        h.append('n_terms=%d' % min(len(case['tlA']), 8))
    return h


def shrink(case, sig):
    """drop terms / partner while the same property signature persists (oracle only)"""
    if case.get('kind') == 'ext':
        from harness import c11_ext
        return c11_ext.shrink(case, sig)
    cur = case

    def fails_same(c):
        try:
            fails, _ = c11_check.check_case(c, None, use_model=False)
        except Exception:  # noqa: BLE001
            return False
        return any(f[1] == sig for f in fails)
    if cur['kind'] == 'terms':
        changed = True
        while changed:
            changed = False
            for key in ('tlA', 'tlB'):
                if key not in cur:
                    continue
                step = 2 if cur.get('herm') and key == 'tlA' else 1
                for i in range(0, len(cur[key]), step):
                    if len(cur[key]) <= step:
                        break
                    cand = dict(cur)
                    cand[key] = cur[key][:i] + cur[key][i + step:]
                    if cand.get('B_is_A_plus_one'):
                        continue
                    if fails_same(cand):
                        cur, changed = cand, True
                        break
                if changed:
                    break
    return cur

KNOWN_SIGS = {k['signature'] for k in core.load_known_findings() if k.get('property') == PROP}


def _mem_limit(on):
    """soft address-space limit of this worker: a runaway allocation raises MemoryError here instead of
    taking the machine down"""
    try:
        import resource
        soft, hard = resource.getrlimit(resource.RLIMIT_AS)
        resource.setrlimit(resource.RLIMIT_AS, ((6 << 30) if on else hard, hard))
    except Exception:  # noqa: BLE001
        pass


def work_chunk(args):
    """child process: real side, one driver call for the chunk, comparison"""
    cases, use_model = args
    warnings.simplefilter('ignore')
    _mem_limit(True)
    out = []
    reals, reqs, idx = [], [], []
    ext_recs = {}
    ext_idx = [n for n, c in enumerate(cases) if c.get('kind') == 'ext']
    if ext_idx:
        # extension round (harness/c11_ext.py): own driver call for the chunk
        from harness import c11_ext
        _mem_limit(False)
        for n, rec in zip(ext_idx, c11_ext.work([cases[n] for n in ext_idx], use_model)):
            ext_recs[n] = rec
        _mem_limit(True)
    for n, case in enumerate(cases):
        if n in ext_recs:
            out.append(ext_recs[n])
            continue
        rec = {'case': case, 'fails': [], 'facts': {}, 'skipped': None}
        out.append(rec)
        if case.get('kind') == 'api':
            from harness import c11_api
            rec['fails'], rec['facts'] = c11_api.run_case(case)
            continue
        try:
            real = c11_check.real_side(case)
        except Exception as e:  # noqa: BLE001
            try:
                empty = False
            except Exception:  # noqa: BLE001
                empty = False
            if empty:
                rec['skipped'] = 'empty-model'
            else:
                rec['fails'].append(('property', f'build.error.{type(e).__name__}', traceback.format_exc()[-1200:]))
            continue
        if use_model:
            try:
                reqs.append(c11_check.lean_request(case, real))
            except Exception:  # noqa: BLE001
                rec['fails'].append(('correspondence', 'harness.request-exception', traceback.format_exc()[-1200:]))
                continue
        reals.append(real)
        idx.append(n)
    louts = [None] * len(reals)
    if use_model and reqs:
        _mem_limit(False)   # the Lean runtime reserves a large address space
        try:
            louts = core.run_driver('C11', reqs, timeout=DRIVER_TIMEOUT)
        except core.DriverError as e:
            louts = [{'error': 'driver: ' + str(e)[:400]}] * len(reals)
        except subprocess.TimeoutExpired:
            # infrastructure (e.g. `lake env` blocked by a build lock): the cases of this chunk are skipped and counted
            for n in idx:
                out[n]['skipped'] = 'infra:driver-timeout'
            reals, idx, louts = [], [], []
        _mem_limit(True)
    for n, real, lo in zip(idx, reals, louts):
        rec = out[n]
        try:
            fails, facts = c11_check.check_case(rec['case'], lo, real, use_model=use_model)
        except Exception:  # noqa: BLE001
            fails, facts = [('correspondence', 'harness.exception', traceback.format_exc()[-1500:])], {}
        rec['fails'], rec['facts'] = fails, facts
        seen = set()
        for k, f in enumerate(list(fails)):
            if f[0] == 'property' and f[1] not in seen and len(seen) < 2 and f[1] not in KNOWN_SIGS:
                seen.add(f[1])
                try:
                    small = shrink(rec['case'], f[1])
                    rec.setdefault('shrunk', {})[f[1]] = small
                except Exception:  # noqa: BLE001
                    pass
    return out


DRIVER_TIMEOUT = 300          # seconds for one driver call of a chunk (a blocked `lake env` must not stall the run)


def work_chunk_safe(args):
    """work_chunk that never raises and returns only plain data (strings, lists, dicts): an exception inside a worker
    becomes an infrastructure record for the cases of the chunk"""
    cases, _ = args
    try:
        out = work_chunk(args)
        json.dumps([(r.get('skipped'), r['fails']) for r in out], default=str)   # picklable / plain
        return out
    except BaseException as e:  # noqa: BLE001
        msg = f'{type(e).__name__}: {str(e)[:300]}'
        return [{'case': c, 'fails': [], 'facts': {}, 'skipped': 'infra:worker-exception', 'infra': msg} for c in cases]


def _infra(chunk, why):
    return [{'case': c, 'fails': [], 'facts': {}, 'skipped': 'infra:' + why} for c in chunk]


def run_cases(ctx, cases, use_model=True, res=None):
    res = res or core.Result()
    if not cases:
        return res
    nproc = max(1, min(N_PROCS, len(cases) // 4 or 1))
    chunks = [cases[i::nproc] for i in range(nproc)]
    if nproc == 1:
        outs = [work_chunk_safe((chunks[0], use_model))]
    else:
        # apply_async + get(timeout): a worker that died (OOM kill) or hangs (blocked subprocess) costs its chunk, which is
        # counted as an infrastructure error, and the pool is terminated — the parent never waits without a deadline
        per_task = max(240.0, 12.0 * max(len(c) for c in chunks)) + (DRIVER_TIMEOUT if use_model else 0)
        pool = mp.get_context('fork').Pool(nproc)
        outs = []
        try:
            t0 = time.time()
            asyncs = [pool.apply_async(work_chunk_safe, ((c, use_model),)) for c in chunks]
            for a, chunk in zip(asyncs, chunks):
                try:
                    outs.append(a.get(timeout=max(1.0, t0 + per_task - time.time())))
                except mp.TimeoutError:
                    outs.append(_infra(chunk, 'worker-timeout-or-died'))
                except Exception as e:  # noqa: BLE001
                    outs.append(_infra(chunk, 'worker-error.' + type(e).__name__))
        finally:
            pool.terminate()
            pool.join()
    for chunk in outs:
        for rec in chunk:
            case = rec['case']
            if rec['skipped']:
                res.count('skipped=' + rec['skipped'])
                if str(rec['skipped']).startswith('infra:'):
                    res.extra['infra_errors'] = res.extra.get('infra_errors', 0) + 1
                    if rec.get('infra'):
                        res.extra.setdefault('infra_messages', [])
                        if len(res.extra['infra_messages']) < 5 and rec['infra'] not in res.extra['infra_messages']:
                            res.extra['infra_messages'].append(rec['infra'])
                continue
            api = case.get('kind') == 'api'
            ext = case.get('kind') == 'ext'
            if ext:
                from harness import c11_ext
                res.note_case(case, c11_ext.nontrivial(case))
                hist = c11_ext.case_hist(case)
            else:
                res.note_case(case, True if api else nontrivial(case))
                hist = ['api_scenario=' + case.get('name', '?')] if api else case_hist(case)
            for h in hist:
                res.count(h)
            for k, v in rec['facts'].items():
                if v is True:
                    res.count('checked=' + k)
            if use_model and not api:
                res.traces_validated += 1
            for kind, sig, detail in rec['fails']:
                c = rec.get('shrunk', {}).get(sig, case)
                payload = dict(c)
                if c is not case:
                    payload = dict(c, original=case)
                res.fail(kind, sig, detail, payload)
    return res


def corpus_cases():
    d = core.CORPUS_DIR / 'C11'
    cases = []
    if d.exists():
        for f in sorted(d.glob('*.json')):
            try:
                c = json.loads(f.read_text())
                cases.append(c.get('case', c))
            except Exception:  # noqa: BLE001
                pass
    return cases


def gen_cases(ctx, tag, n):
    rng = ctx.sub_rng(tag)
    core.use_repo()
    with warnings.catch_warnings():
        warnings.simplefilter('ignore')
        return [c11_lib.gen_case(rng, ctx.quick) for _ in range(n)]


def run(ctx):
    res = core.Result()
    run_cases(ctx, corpus_cases(), True, res)
    n_total = 400 if ctx.quick else 10000
    batch = 200 if ctx.quick else 800
    done, k = 0, 0
    while done < n_total and ctx.elapsed() < ctx.budget_s * 0.8:
        n = min(batch, n_total - done)
        run_cases(ctx, gen_cases(ctx, f'gen{k}', n), True, res)
        done += n
        k += 1
    res.extra['generated_cases'] = done
    # API scenarios (constructors / accessors / options outside the generated cases; dense oracles only)
    from harness import c11_api
    n_api = 80 if ctx.quick else 1200
    run_cases(ctx, c11_api.gen_cases(ctx.sub_rng('api'), n_api), True, res)
    res.extra['api_scenarios'] = n_api
    # extension round: environments / expectation value / variance, re-arrangements, decision glue, to_TermList
    # against the Lean models C11/Ext*.lean + dense oracles (own PRNG stream, own share of the budget)
    from harness import c11_ext
    core.use_repo()
    n_ext = 240 if ctx.quick else 4000
    ext_rng = ctx.sub_rng('ext')
    done_ext = 0
    while done_ext < n_ext and ctx.elapsed() < ctx.budget_s * 0.95:
        nb = min(240 if ctx.quick else 800, n_ext - done_ext)
        run_cases(ctx, c11_ext.gen_cases(ext_rng, nb, ctx.quick), True, res)
        done_ext += nb
    res.extra['ext_cases'] = done_ext
    res.extra['anchor_coverage_note'] = ANCHOR_COVERAGE_NOTE
    return res


def search(ctx, reasons):
    res = core.Result()
    run_cases(ctx, corpus_cases(), False, res)
    done, k = 0, 0
    t0 = time.time()
    while done < (400 if ctx.quick else 6000) and time.time() - t0 < (60 if ctx.quick else 600):
        run_cases(ctx, gen_cases(ctx, f'search{k}', 200), False, res)
        from harness import c11_ext
        run_cases(ctx, c11_ext.gen_cases(ctx.sub_rng(f'extsearch{k}'), 100, ctx.quick), False, res)
        done += 200
        k += 1
    return res


def replay(ctx, payload):
    if 'case' not in payload and payload.get('correspondence'):
        # replay file of a model-vs-implementation disagreement: the cases are listed under 'correspondence'
        cases = [c['case'] for c in payload['correspondence'] if isinstance(c, dict) and 'case' in c]
    else:
        cases = [payload.get('case', payload)]
    cases = [{k: v for k, v in case.items() if k != 'original'} for case in cases]
    return run_cases(ctx, cases, True)
