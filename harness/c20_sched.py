"""Deterministic cooperative scheduler for the real `tenpy.tools.thread.Worker` + `cache.ThreadedStorage`.

`tenpy.tools.thread.queue` and `tenpy.tools.thread.threading` (module attributes, no source edit) are replaced by
the fake modules below.  Every access to shared state (queue, event, thread object, `_loaded`, disk operation,
entry of a storage method) is a *sync point*: the calling thread parks, the controller picks which parked thread
performs its pending access next.  Exactly one managed thread runs at any time, so a run is a function of the
sequence of choices (the schedule), which is recorded and can be replayed, and which the Lean transition system
`TenpyModel.C20.Threaded` consumes as well.

Labels are lists of ints, identical to `Threaded.label` in the Lean model:
 [tid, code, args...]  tid 0 = main, 1 = worker;  codes: see Threaded.lean.
"""
import collections
import threading as _rt


class Abort(BaseException):
    """raised inside managed threads to unwind them when a run is abandoned"""


class Hang(Exception):
    """a managed thread did not come back to the controller within the watchdog time (infrastructure)"""


class Empty(Exception):
    pass


class Full(Exception):
    pass


class _T:
    def __init__(self, tid):
        self.tid = tid
        self.sem = _rt.Semaphore(0)
        self.pending = None      # (enabled_fn, idle_fn)
        self.finished = False
        self.exc = None
        self.real = None
        self.started = _rt.Semaphore(0)   # released at the first park (or the end) of the thread: for spawn()
        self.first = True


class Sched:
    def __init__(self, chooser, max_steps=4000, watchdog=20.0):
        self.chooser = chooser
        self.max_steps = max_steps
        self.watchdog = watchdog
        self.threads = []               # _T, index = tid
        self.by_ident = {}
        self.parked = _rt.Semaphore(0)  # released by a thread when it parks or finishes
        self.trace = []                 # labels in execution order
        self.enabled_log = []           # (main enabled, worker enabled) before each step
        self.schedule = []              # chosen tids
        self.abort = False
        self.outcome = None             # 'done' | 'deadlock' | 'budget'
        self.active = True
        self.queues = []

    # -- called from managed threads -----------------------------------------------------------
    def me(self):
        return self.by_ident.get(_rt.get_ident())

    def sync(self, label, perform=None, enabled=None, idle=None):
        """park; when scheduled, run `perform()` atomically, log `label(result)`; returns the result"""
        t = self.me()
        if t is None or not self.active:      # not a managed thread (e.g. after the run): act directly
            return perform() if perform else None
        if self.abort:
            raise Abort()
        t.pending = (enabled, idle)
        self._signal(t)
        t.sem.acquire()
        t.pending = None
        if self.abort:
            raise Abort()
        try:
            r = perform() if perform else None
        except Abort:
            raise
        except BaseException as e:
            self.trace.append([t.tid] + label(e))
            raise
        self.trace.append([t.tid] + label(r))
        return r

    def spawn(self, target):
        """start a managed thread and wait until it parks at its first sync point (or finishes)"""
        t = _T(len(self.threads))
        self.threads.append(t)

        def body():
            self.by_ident[_rt.get_ident()] = t
            try:
                target()
            except Abort:
                pass
            except BaseException as e:  # noqa
                t.exc = e
            finally:
                t.finished = True
                self._signal(t)

        t.real = _rt.Thread(target=body, daemon=True)
        t.real.start()
        if not t.started.acquire(timeout=self.watchdog):
            raise Hang('new thread did not reach a sync point within %.0f s' % self.watchdog)
        return t

    def _signal(self, t):
        """thread t parked or finished: wake whoever waits for that (spawner the first time, else controller)"""
        if t.first:
            t.first = False
            t.started.release()
        else:
            self.parked.release()

    def _wait_parked(self):
        if not self.parked.acquire(timeout=self.watchdog):
            raise Hang('managed thread did not reach a sync point within %.0f s' % self.watchdog)

    # -- controller ----------------------------------------------------------------------------
    def run(self, main_target):
        self.spawn(main_target)
        try:
            while True:
                live = [t for t in self.threads if not t.finished]
                if not live:
                    self.outcome = 'done'
                    break
                if any(t.pending is None for t in live):
                    raise Hang('internal: live thread without pending access: %r; trace tail %r' % (
                        [(t.tid, t.finished, t.pending is None) for t in self.threads], self.trace[-5:]))
                en = [t for t in live if t.pending[0] is None or t.pending[0]()]
                if not en:
                    self.outcome = 'deadlock'
                    break
                if len(self.schedule) >= self.max_steps:
                    self.outcome = 'budget'
                    break
                idle = [t.tid for t in en if t.pending[1] is not None and t.pending[1]()]
                tid = self.chooser([t.tid for t in en], idle, len(self.schedule))
                self.enabled_log.append((0 in [t.tid for t in en], 1 in [t.tid for t in en]))
                self.schedule.append(tid)
                t = self.threads[tid]
                t.sem.release()
                self._wait_parked()
        finally:
            self.abort = self.outcome != 'done'
            if self.abort:
                for t in self.threads:
                    if not t.finished:
                        t.sem.release()
                for t in self.threads:
                    t.real.join(timeout=self.watchdog)
            self.active = False
        return self.outcome


# ---------------------------------------------------------------------------------------------
# fake `queue` and `threading` modules


def make_modules(sched, describe_task):
    """describe_task(item) -> [kind code, encoded key] for the label of a `get`"""
    S = sched

    class Queue:
        def __init__(self, maxsize=0):
            self.maxsize = maxsize
            self.items = collections.deque()
            self.unfinished = 0
            S.queues.append(self)

        def _full(self):
            return self.maxsize > 0 and len(self.items) >= self.maxsize

        def put(self, item, block=True, timeout=None):
            def perform():
                if self._full():
                    return False
                self.items.append(item)
                self.unfinished += 1
                return True
            # a put with timeout on a full queue: "times out" when scheduled while still full
            enabled = None if timeout is not None or not block else (lambda: not self._full())
            ok = S.sync(lambda r: [7, int(r)], perform, enabled=enabled, idle=self._full)
            if not ok:
                raise Full()

        def get(self, block=True, timeout=None):
            def perform():
                if self.items:
                    return self.items.popleft()
                return Empty
            enabled = None if timeout is not None or not block else (lambda: len(self.items) > 0)
            r = S.sync(lambda r: [11, 0] if r is Empty else [11, 1] + describe_task(r), perform,
                       enabled=enabled, idle=lambda: not self.items)
            if r is Empty:
                raise Empty()
            return r

        def task_done(self):
            def perform():
                if self.unfinished <= 0:
                    raise ValueError('task_done() called too many times')
                self.unfinished -= 1
            S.sync(lambda r: [13], perform)

        def join(self):
            S.sync(lambda r: [8], None, enabled=lambda: self.unfinished == 0)

        def empty(self):
            return S.sync(lambda r: [14, int(r)], lambda: not self.items)

        def qsize(self):
            return len(self.items)

    class Event:
        def __init__(self):
            self.flag = False

        def is_set(self):
            t = S.me()
            # the worker's exit check with nothing queued is part of its idle poll loop
            return S.sync(lambda r: [5, int(r)], lambda: self.flag,
                          idle=lambda: t is not None and t.tid == 1 and not self.flag
                          and all(not q.items for q in S.queues))

        def set(self):
            def perform():
                self.flag = True
            S.sync(lambda r: [9], perform)

    class Thread:
        def __init__(self, target=None, name=None, daemon=None, args=(), kwargs=None):
            self.target, self.name, self.daemon = target, name, daemon
            self.t = None

        def start(self):
            # not a sync point: the new thread runs up to its first shared access and parks
            self.t = S.spawn(self.target)

        def is_alive(self):
            return S.sync(lambda r: [6, int(r)], lambda: self.t is not None and not self.t.finished)

        def join(self, timeout=None):
            S.sync(lambda r: [10], None, enabled=lambda: self.t is None or self.t.finished)

    class QueueModule:
        pass

    QueueModule.Queue = Queue
    QueueModule.Empty = Empty
    QueueModule.Full = Full

    class ThreadingModule:
        pass

    ThreadingModule.Event = Event
    ThreadingModule.Thread = Thread
    return QueueModule, ThreadingModule


class YieldDict(dict):
    """`ThreadedStorage._loaded` with a sync point at every access"""

    def __init__(self, sched, enc, unval):
        super().__init__()
        self._s, self._enc, self._unval = sched, enc, unval

    def __contains__(self, k):
        return self._s.sync(lambda r: [1, self._enc(k), int(r)], lambda: dict.__contains__(self, k))

    def __getitem__(self, k):
        return self._s.sync(lambda r: [2, self._enc(k), 0 if isinstance(r, BaseException) else self._unval(r)],
                            lambda: dict.__getitem__(self, k))

    def __setitem__(self, k, v):
        self._s.sync(lambda r: [4, self._enc(k), self._unval(v)], lambda: dict.__setitem__(self, k, v))

    def __delitem__(self, k):
        self._s.sync(lambda r: [3, self._enc(k)], lambda: dict.__delitem__(self, k))

    # accesses the current code does not make: still scheduling points (a label the model does not have)
    def pop(self, k, *default):
        return self._s.sync(lambda r: [15, self._enc(k)], lambda: dict.pop(self, k, *default))

    def get(self, k, default=None):
        return self._s.sync(lambda r: [16, self._enc(k)], lambda: dict.get(self, k, default))

    def setdefault(self, k, default=None):
        return self._s.sync(lambda r: [17, self._enc(k)], lambda: dict.setdefault(self, k, default))


# ---------------------------------------------------------------------------------------------
# choosers


class RandomChooser:
    """Uniform over enabled threads with some stickiness; a thread that would only poll (get on an empty queue,
    put on a full one) is chosen rarely while the other thread can do real work."""

    def __init__(self, rng, stick=0.5, p_idle=0.12):
        self.rng, self.stick, self.p_idle = rng, stick, p_idle
        self.last = None

    def __call__(self, enabled, idle, step):
        cand = list(enabled)
        busy = [t for t in cand if t not in idle]
        if busy and len(busy) < len(cand) and self.rng.random() >= self.p_idle:
            cand = busy
        if self.last in cand and self.rng.random() < self.stick:
            return self.last
        self.last = self.rng.choice(cand)
        return self.last


class BiasedChooser:
    """When both threads can do real work the worker is chosen with probability `p_worker` (small = the worker lags
    behind: loads are still pending when the caller goes on; large = the worker is always ahead)."""

    def __init__(self, rng, p_worker, p_idle=0.05):
        self.rng, self.p_worker, self.p_idle = rng, p_worker, p_idle

    def __call__(self, enabled, idle, step):
        cand = list(enabled)
        busy = [t for t in cand if t not in idle]
        if busy and len(busy) < len(cand) and self.rng.random() >= self.p_idle:
            cand = busy
        if len(cand) == 1:
            return cand[0]
        return 1 if self.rng.random() < self.p_worker else 0


class ReplayChooser:
    def __init__(self, schedule, then=None):
        self.schedule = schedule
        self.then = then       # chooser used beyond the recorded schedule

    def __call__(self, enabled, idle, step):
        if step < len(self.schedule) and self.schedule[step] in enabled:
            return self.schedule[step]
        if self.then is not None:
            return self.then(enabled, idle, step)
        # beyond the recorded schedule (or it does not fit): run the first enabled thread
        return enabled[0]


class PrefixChooser:
    """Systematic exploration: follow `prefix` (a list of indices into the list of *candidate* threads at each
    branching decision), afterwards take candidate 0.  Candidates = enabled non-polling threads, the thread that
    ran last first (so candidate 0 = no preemption).  Records the number of candidates at each branching
    decision so that the caller can enumerate all prefixes depth-first; `max_preempt` bounds the number of
    decisions where a still-enabled busy thread is switched away from."""

    def __init__(self, prefix, max_preempt):
        self.prefix = prefix
        self.max_preempt = max_preempt
        self.branches = []   # number of alternatives at each branching decision
        self.last = None
        self.preempts = 0

    def __call__(self, enabled, idle, step):
        busy = [t for t in enabled if t not in idle] or list(enabled)
        if self.last in busy:
            busy.remove(self.last)
            cand = [self.last] + busy
            can_switch = self.preempts < self.max_preempt
            if not can_switch:
                cand = cand[:1]
        else:
            cand = busy
        if len(cand) > 1:
            i = len(self.branches)
            c = self.prefix[i] if i < len(self.prefix) else 0
            self.branches.append(len(cand))
            if self.last in enabled and self.last not in idle and cand[c] != self.last:
                self.preempts += 1
            pick = cand[c]
        else:
            pick = cand[0]
        self.last = pick
        return pick


def next_prefix(prefix, branches):
    """depth-first successor of the choice vector `prefix` given the alternatives seen; None when exhausted"""
    cur = list(prefix) + [0] * (len(branches) - len(prefix))
    i = len(cur) - 1
    while i >= 0:
        if cur[i] + 1 < branches[i]:
            return cur[:i] + [cur[i] + 1]
        i -= 1
    return None
