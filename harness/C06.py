"""C06 — leg fusion is a lossless, consistently ordered bijection."""
import itertools
import json

from vlib import core, npcgen, twoconf
from harness import c06_gen

PROP = 'C06'
MODEL_MODULES = ['TenpyModel.Util.J', 'TenpyModel.Core.Codec', 'TenpyModel.C06.ModelExt']
PROPS_MODULES = ['TenpyModel.C06.Props']
LEVEL = 'proof'
BUDGET = {'quick': 170, 'thorough': 1500}
RULE = ('legs: 0-3 charges with mod in 1..5, 0-5 blocks of size 0-3, blocked / sorted-with-duplicates / arbitrary '
        'order, both directions, flags as set by LegCharge() or from_qind; pipes of 1-4 such legs (incoming legs may be '
        'pipes themselves), both outgoing directions, sort/bunch on and off, plain and dipolar ChargeInfo; kind conv: every '
        'constructor/conversion of LegCharge and ChargeInfo (from_trivial/qflat/qdict/add_charge/drop_charge/'
        'change_charge by index and by name, to_qdict, apply_charge_mapping with (Dipolar)ChargeInfo.shift_charges, '
        'charge_sectors, get_qindex_of_charges, extend(int), ==/test_equal/test_contractible in every outcome, the '
        'constructor sanity check on invalid data, perm_qind_from_perm_flat); kind arr: programs of 1-5 '
        'combine_legs / split_legs / sort_legcharge / as_completely_blocked / make_pipe calls on random tensors of rank '
        '2-7 (float, complex, int; all blocks, some blocks, one block, no block) in every argument form (one group or '
        'several, labels or indices, new_axes default / list / negative / int, qconj None / int / list, pipes None / '
        'given / given conjugated / unsorted / unbunched, split by None / labels / subset, cutoff, nested pipes split '
        'level by level, spectator legs, documented argument errors); thorough additionally enumerates ALL small legs '
        'exhaustively. Each case is run on the real code under both kernel configurations (fresh compiled build, '
        'TENPY_NO_CYTHON=1) and (kinds leg, pipe, conv) on the Lean model; every structure (slices, charges, flags, '
        'q_map, q_map_slices, _perm, _strides, flat map) is compared exactly; kind arr is checked by a dense '
        'transposition/reshape oracle built from map_incoming_flat. Non-trivial: at least one leg with >=2 blocks and '
        '>=1 charge; distinct by content hash.')
TRUSTED = ['Lean 4.33 kernel; axioms of every C06_* theorem ⊆ {propext, Classical.choice, Quot.sound}',
           'hand-written model lean/TenpyModel/Core/{Charge,Leg,Pipe}.lean + C06/ModelExt.lean tied to '
           'tenpy/linalg/charges.py and _npc_helper.pyx by this correspondence run (exact structural diff, both kernel '
           'configurations)',
           'numpy lexsort is stable (modelled by a stable insertion sort); serialiser vlib/npcio.py',
           'kind arr (Array.combine_legs/split_legs/sort_legcharge/as_completely_blocked/make_pipe): model-free oracle '
           'only (documented axis/label contract + index map of the pipes, themselves compared with the Lean model)']
ASSUMPTIONS = ['numpy integer arithmetic on int64 does not overflow for the generated sizes']

COVERAGE_NOTE = ('2026-09-26 coverage round: quick tier (seed 0), harness.c06_worker under coverage --branch with '
                 'TENPY_NO_CYTHON=1; the 68 anchored functions of charges.py + np_conserved.py (list in notes/C06.md): '
                 'lines 461/687 = 67.1% -> 686/687 = 99.9%, branches 143/260 = 55.0% -> 258/260 = 99.2% (26 anchored '
                 'functions were never called before, 0 now; the 2 missing branches are unreachable); charges.py whole file '
                 'lines 56.1% -> 81.3%, branches 36.6% -> 78.9%. Compiled twins: not measurable, run on the same cases '
                 'in the cy configuration and compared output by output.')


def gen_leg_case(rng):
    mods = npcgen.gen_mods(rng)
    leg = npcgen.gen_leg(rng, mods)
    extra = npcgen.gen_leg(rng, mods, max_blocks=2, qconj=rng.choice([leg['qconj'], leg['qconj'], -leg['qconj']]))
    n = npcgen.leg_len(leg)
    mask = [rng.random() < 0.6 for _ in range(n)]
    gq = sorted({rng.randint(-n - 2, n + 2) for _ in range(6)} | {n, -n, n - 1, 0, -n - 1})
    return dict(k='leg', leg=leg, extra=extra, mask=mask, gq=gq)


def exhaustive_pipe_cases():
    """All pipes of 2 small legs: <=2 blocks, sizes <=2, charges in {0,1,2} (Z3) or {-1,0,1} (U1)."""
    cases = []
    for mod, window in [(1, [-1, 0, 1]), (3, [0, 1, 2]), (2, [0, 1])]:
        small = []
        for nb in [1, 2]:
            for sizes in itertools.product([1, 2], repeat=nb):
                for chs in itertools.product(window, repeat=nb):
                    sl = [0]
                    for s in sizes:
                        sl.append(sl[-1] + s)
                    small.append(dict(mods=[mod], slices=sl, charges=[[c] for c in chs], ctor='qind'))
        for a in small:
            for b in small[::3]:
                for qa, qb, qc in [(1, 1, 1), (1, -1, 1), (-1, 1, -1)]:
                    for sort, bunch in [(True, True), (False, False), (True, False), (False, True)]:
                        cases.append(dict(k='pipe', legs=[dict(a, qconj=qa), dict(b, qconj=qb)], qconj=qc, sort=sort,
                                          bunch=bunch, idx=[[0, 0]], seed=0))
    return cases


CORPUS = [
    # get_qindex at the end of the leg; outer_conj of an outgoing pipe
    dict(k='leg', leg=dict(mods=[1], slices=[0, 2, 5], charges=[[0], [1]], qconj=1, ctor='qind'),
         extra=dict(mods=[1], slices=[0, 1], charges=[[2]], qconj=-1, ctor='qind'), mask=[True, False, True, True, False],
         gq=[-6, -5, -1, 0, 4, 5, 6]),
    dict(k='pipe', legs=[dict(mods=[1], slices=[0, 1, 3], charges=[[1], [0]], qconj=1, ctor='init'),
                         dict(mods=[1], slices=[0, 2, 3], charges=[[0], [1]], qconj=-1, ctor='qind')],
         qconj=-1, sort=True, bunch=True, idx=[[0, 0], [2, 2], [1, -1], [3, 0]], seed=1),
] + c06_gen.CORPUS


def cases_for(ctx, tag, n_leg, n_pipe, n_conv=0, n_arr=0):
    rng = ctx.sub_rng(tag)
    cases = ([gen_leg_case(rng) for _ in range(n_leg)]
             + [c06_gen.gen_pipe_case(rng, i) for i in range(n_pipe)])
    rng2 = ctx.sub_rng(tag + ':conv')
    cases += [c06_gen.gen_conv_case(rng2) for _ in range(n_conv)]
    rng3 = ctx.sub_rng(tag + ':arr')
    cases += [c06_gen.gen_arr_case(rng3, i) for i in range(n_arr)]
    return cases


def quick_cases(ctx):
    return list(CORPUS) + cases_for(ctx, 'main', 2500, 2500, 2000, 2500)


def evaluate(ctx, cases, use_model=True, configs=('cy', 'py')):
    res = core.Result()
    runs = twoconf.run('harness.c06_worker', cases, configs=configs, nproc=8 if ctx.quick else 14)
    ref_cfg = configs[0]
    ref = runs[ref_cfg]['results']
    lean_in = [r['in'] for r in ref if r and 'in' in r]
    models = iter(core.run_driver('C06', lean_in)) if use_model and lean_in else iter([])
    for i, case in enumerate(cases):
        r = ref[i]
        res.note_case(case, c06_gen.case_nontrivial(case))
        res.count('kind=' + case['k'])
        for key in c06_gen.histogram_keys(case):
            res.count(key)
        if 'crash' in r:
            res.fail('correspondence', 'c06.worker-crash', r['crash'], case)
            continue
        if 'error' in r['out']:
            res.count('error=' + r['out']['error'])
        if case['k'] == 'arr':  # ranks actually reached (= ndim of the block copies in the kernels)
            rank = len(case['legs'])
            nb = r['obs']['stored_blocks']
            res.count('arr.stored_blocks=' + ('0' if nb == 0 else '1' if nb == 1 else '2-4' if nb < 5 else '>=5'))
            for st in r['obs']['steps']:
                if st['op'] == 'split':
                    res.count('split.source_rank=%d' % rank)
                if 'labels' in st:
                    rank = len(st['labels'])
                    if st['op'] == 'combine':
                        res.count('combine.result_rank=%d' % rank)
                        if any(lab and '((' in lab for lab in st['labels']):
                            res.count('combine.nested')
        tainted = set()
        for sig, detail, taint in r['oracle']:
            res.fail('property', sig, f'[{ref_cfg}] {detail}', case)
            tainted.add(taint)
        # the two kernel configurations against each other
        for cfg in configs[1:]:
            o = runs[cfg]['results'][i]
            for sig, detail, taint in o.get('oracle', []):
                if [sig, detail, taint] not in r['oracle']:
                    res.fail('property', sig, f'[{cfg}] {detail}', case)
                    tainted.add(taint)
            if o.get('out') != r['out'] or o.get('in') != r.get('in') or o.get('obs') != r.get('obs'):
                k = first_diff(dict(out=r.get('out'), obs=r.get('obs')), dict(out=o.get('out'), obs=o.get('obs')))
                res.fail('correspondence', 'c06.kernels-differ', f'{ref_cfg} vs {cfg} at {k}', case)
        if use_model and 'in' in r:
            m = next(models)
            res.traces_validated += 1
            # a violation reported by the oracle taints only the output it concerns (None = the whole case)
            if None not in tainted:
                d = diff_model(case['k'], r['out'], m, tainted)
                if d:
                    res.fail('correspondence', 'c06.model-vs-impl.' + d[0], d[1], case)
    return res


def first_diff(a, b, path=''):
    if type(a) != type(b):
        return f'{path}: {a!r} vs {b!r}'[:300]
    if isinstance(a, dict):
        for k in sorted(set(a) | set(b)):
            if a.get(k) != b.get(k):
                return first_diff(a.get(k), b.get(k), path + '.' + k)
    if isinstance(a, list) and len(a) == len(b):
        for i, (x, y) in enumerate(zip(a, b)):
            if x != y:
                return first_diff(x, y, f'{path}[{i}]')
    return f'{path}: {a!r} vs {b!r}'[:300]


def diff_model(kind, out, m, tainted=()):
    if 'error' in m:
        if 'error' in out:
            return None
        return ('model-error', str(m['error']))
    if 'error' in out:
        return ('impl-error', f'impl raised {out["error"]}, model returned a value')
    for k in out:
        if k not in tainted and out[k] != m.get(k):
            return (k, first_diff(out[k], m.get(k), k))
    return None


def run(ctx):
    res = core.Result()
    if ctx.quick:
        cases = quick_cases(ctx)
    else:
        cases = list(CORPUS) + exhaustive_pipe_cases() + cases_for(ctx, 'main', 10000, 10000, 8000, 8000)
        res.extra['exhaustive_small_pipes'] = len(exhaustive_pipe_cases())
    res.merge(evaluate(ctx, cases))
    res.extra['anchor_coverage_note'] = COVERAGE_NOTE
    return res


def search(ctx, reasons):
    cases = list(CORPUS) + cases_for(ctx, 'search', 1500, 1500, 1500, 1500)
    return evaluate(ctx, cases, use_model=False)


def replay(ctx, payload):
    return evaluate(ctx, [payload['case']])
