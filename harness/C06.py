"""C06 — leg fusion is a lossless, consistently ordered bijection."""
import itertools
import json

from vlib import core, npcgen, twoconf

PROP = 'C06'
MODEL_MODULES = ['TenpyModel.Util.J', 'TenpyModel.Core.Codec']
PROPS_MODULES = ['TenpyModel.C06.Props']
LEVEL = 'proof'
BUDGET = {'quick': 170, 'thorough': 1500}
RULE = ('legs: 0-3 charges with mod in 1..5, 0-5 blocks of size 0-3, blocked / sorted-with-duplicates / arbitrary '
        'order, both directions, flags as set by LegCharge() or from_qind; pipes of 1-4 such legs, both outgoing '
        'directions, sort/bunch on and off; thorough additionally enumerates ALL small legs exhaustively. Each case '
        'is run on the real code under both kernel configurations (fresh compiled build, TENPY_NO_CYTHON=1) and on '
        'the Lean model; every structure (slices, charges, flags, q_map, q_map_slices, _perm, _strides, flat map) is '
        'compared exactly. Non-trivial: at least one leg with >=2 blocks and >=1 charge; distinct by content hash.')
TRUSTED = ['Lean 4.33 kernel; axioms of every C06_* theorem ⊆ {propext, Classical.choice, Quot.sound}',
           'hand-written model lean/TenpyModel/Core/{Charge,Leg,Pipe}.lean tied to tenpy/linalg/charges.py and '
           '_npc_helper.pyx by this correspondence run (exact structural diff, both kernel configurations)',
           'numpy lexsort is stable (modelled by a stable insertion sort); serialiser vlib/npcio.py']
ASSUMPTIONS = ['numpy integer arithmetic on int64 does not overflow for the generated sizes']


def gen_leg_case(rng):
    mods = npcgen.gen_mods(rng)
    leg = npcgen.gen_leg(rng, mods)
    extra = npcgen.gen_leg(rng, mods, max_blocks=2, qconj=rng.choice([leg['qconj'], leg['qconj'], -leg['qconj']]))
    n = npcgen.leg_len(leg)
    mask = [rng.random() < 0.6 for _ in range(n)]
    gq = sorted({rng.randint(-n - 2, n + 2) for _ in range(6)} | {n, -n, n - 1, 0, -n - 1})
    return dict(k='leg', leg=leg, extra=extra, mask=mask, gq=gq)


def gen_pipe_case(rng, seed):
    mods = npcgen.gen_mods(rng)
    nl = rng.choices([1, 2, 3, 4], weights=[2, 5, 3, 1])[0]
    legs = [npcgen.gen_leg(rng, mods, max_blocks=4 if nl < 3 else 3, max_size=3 if nl < 4 else 2,
                           allow_empty=rng.random() < 0.15) for _ in range(nl)]
    shape = [npcgen.leg_len(l) for l in legs]
    idx = []
    for _ in range(6):
        idx.append([rng.randint(-s - 1, s) if rng.random() < 0.15 else rng.randrange(s) if s else 0 for s in shape])
    return dict(k='pipe', legs=legs, qconj=rng.choice([1, -1]), sort=rng.random() < 0.7, bunch=rng.random() < 0.7,
                idx=idx, seed=seed)


def exhaustive_pipe_cases():
    """All pipes of 2 small legs: <=2 blocks, sizes <=2, charges in {0,1,2} (Z3) or {-1,0,1} (U1)."""
    cases = []
    for mod, window in [(1, [-1, 0, 1]), (3, [0, 1, 2]), (2, [0, 1])]:
        small = []
        for nb in [1, 2]:
            for sizes in itertools.product([1, 2], repeat=nb):
                for chs in itertools.product(window, repeat=nb):
                    sl = [0]
                    for s in sizes:
                        sl.append(sl[-1] + s)
                    small.append(dict(mods=[mod], slices=sl, charges=[[c] for c in chs], ctor='qind'))
        for a in small:
            for b in small[::3]:
                for qa, qb, qc in [(1, 1, 1), (1, -1, 1), (-1, 1, -1)]:
                    for sort, bunch in [(True, True), (False, False), (True, False), (False, True)]:
                        cases.append(dict(k='pipe', legs=[dict(a, qconj=qa), dict(b, qconj=qb)], qconj=qc, sort=sort,
                                          bunch=bunch, idx=[[0, 0]], seed=0))
    return cases


CORPUS = [
    # get_qindex at the end of the leg; outer_conj of an outgoing pipe
    dict(k='leg', leg=dict(mods=[1], slices=[0, 2, 5], charges=[[0], [1]], qconj=1, ctor='qind'),
         extra=dict(mods=[1], slices=[0, 1], charges=[[2]], qconj=-1, ctor='qind'), mask=[True, False, True, True, False],
         gq=[-6, -5, -1, 0, 4, 5, 6]),
    dict(k='pipe', legs=[dict(mods=[1], slices=[0, 1, 3], charges=[[1], [0]], qconj=1, ctor='init'),
                         dict(mods=[1], slices=[0, 2, 3], charges=[[0], [1]], qconj=-1, ctor='qind')],
         qconj=-1, sort=True, bunch=True, idx=[[0, 0], [2, 2], [1, -1], [3, 0]], seed=1),
]


def cases_for(ctx, tag, n_leg, n_pipe):
    rng = ctx.sub_rng(tag)
    return ([gen_leg_case(rng) for _ in range(n_leg)]
            + [gen_pipe_case(rng, i) for i in range(n_pipe)])


def evaluate(ctx, cases, use_model=True, configs=('cy', 'py')):
    res = core.Result()
    runs = twoconf.run('harness.c06_worker', cases, configs=configs, nproc=8 if ctx.quick else 14)
    ref_cfg = configs[0]
    ref = runs[ref_cfg]['results']
    lean_in = [r['in'] for r in ref if r and 'in' in r]
    models = iter(core.run_driver('C06', lean_in)) if use_model and lean_in else iter([])
    for i, case in enumerate(cases):
        r = ref[i]
        nontriv = any(npcgen.leg_nontrivial(l) for l in ([case['leg']] if case['k'] == 'leg' else case['legs']))
        res.note_case(case, nontriv)
        res.count('kind=' + case['k'])
        res.count('ncharges=%d' % len((case.get('leg') or case['legs'][0])['mods']))
        if case['k'] == 'pipe':
            res.count('nlegs=%d' % len(case['legs']))
            res.count('sort=%s,bunch=%s' % (case['sort'], case['bunch']))
        if 'crash' in r:
            res.fail('correspondence', 'c06.worker-crash', r['crash'], case)
            continue
        if 'error' in r['out']:
            res.count('error=' + r['out']['error'])
        for sig, detail in r['oracle']:
            res.fail('property', sig, f'[{ref_cfg}] {detail}', case)
        # the two kernel configurations against each other
        for cfg in configs[1:]:
            o = runs[cfg]['results'][i]
            for sig, detail in o.get('oracle', []):
                if (sig, detail) not in [tuple(x) for x in r['oracle']]:
                    res.fail('property', sig, f'[{cfg}] {detail}', case)
            if o.get('out') != r['out'] or o.get('in') != r['in']:
                k = first_diff(r.get('out'), o.get('out'))
                res.fail('correspondence', 'c06.kernels-differ', f'{ref_cfg} vs {cfg} at {k}', case)
        if use_model:
            m = next(models)
            res.traces_validated += 1
            d = diff_model(case['k'], r['out'], m)
            if d and not r['oracle']:
                res.fail('correspondence', 'c06.model-vs-impl.' + d[0], d[1], case)
    return res


def first_diff(a, b, path=''):
    if type(a) != type(b):
        return f'{path}: {a!r} vs {b!r}'[:300]
    if isinstance(a, dict):
        for k in sorted(set(a) | set(b)):
            if a.get(k) != b.get(k):
                return first_diff(a.get(k), b.get(k), path + '.' + k)
    if isinstance(a, list) and len(a) == len(b):
        for i, (x, y) in enumerate(zip(a, b)):
            if x != y:
                return first_diff(x, y, f'{path}[{i}]')
    return f'{path}: {a!r} vs {b!r}'[:300]


def diff_model(kind, out, m):
    if 'error' in m:
        if 'error' in out:
            return None
        return ('model-error', str(m['error']))
    if 'error' in out:
        return ('impl-error', f'impl raised {out["error"]}, model returned a value')
    for k in out:
        if out[k] != m.get(k):
            return (k, first_diff(out[k], m.get(k), k))
    return None


def run(ctx):
    res = core.Result()
    if ctx.quick:
        cases = list(CORPUS) + cases_for(ctx, 'main', 2500, 2500)
    else:
        cases = list(CORPUS) + exhaustive_pipe_cases() + cases_for(ctx, 'main', 10000, 10000)
        res.extra['exhaustive_small_pipes'] = len(exhaustive_pipe_cases())
    res.merge(evaluate(ctx, cases))
    return res


def search(ctx, reasons):
    cases = list(CORPUS) + cases_for(ctx, 'search', 1500, 1500)
    return evaluate(ctx, cases, use_model=False)


def replay(ctx, payload):
    return evaluate(ctx, [payload['case']])
