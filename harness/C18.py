"""C18 — results on disk survive a crash; a resumed run equals an uninterrupted one."""
import json
import multiprocessing
import os

from vlib import core
from harness import c18_crash, c18_ext, c18_options, c18_resume

PROP = 'C18'
MODEL_MODULES = ['TenpyModel.Util.J', 'TenpyModel.C18.FS', 'TenpyModel.C18.Loop', 'TenpyModel.C18.ExtMeas',
                 'TenpyModel.C18.ExtNames', 'TenpyModel.C18.ExtCkpt']
PROPS_MODULES = ['TenpyModel.C18.PropsCrash', 'TenpyModel.C18.PropsResume', 'TenpyModel.C18.Props2',
                 'TenpyModel.C18.PropsExtMeas', 'TenpyModel.C18.PropsExtNames', 'TenpyModel.C18.PropsExtCkpt']
LEAN_MODULES = PROPS_MODULES
LEVEL = 'proof'
BUDGET = {'quick': 240, 'thorough': 1800}
RULE = ('crash: real Simulation.save_results (pickle and HDF5, safe_write on) of a 4-site TEBD simulation saving at '
        'every checkpoint runs in a forked child with Path.exists/unlink/rename/open, hdf5_io.open, h5py.File and '
        'h5py node creation wrapped by a fault injector; the child is killed (os._exit) before file-system step k for '
        'every k of the whole process (start-up stub + all saves; quick/HDF5: every non-write step + a sample of the '
        '~300 node writes per save) and inside write steps (pickle: byte prefixes incl. first/last byte; HDF5: '
        'flush-then-die, truncate-to-prefix); the parent lists the directory, loads every file, classifies it '
        '(complete with content c by fingerprint of the reference snapshots | partial | stub), checks the oracle '
        '"a loadable complete file of the last completed or the current save exists" and diffs FS trace + final state '
        'with the Lean model; then, from one directory per distinct crashed state, the run is resumed from the newest '
        'loadable file and killed at every step of start-up + first save (second crash). A case is non-trivial when '
        'at least one save had completed before the crash. '
        'resume: GroundStateSearch (TwoSite/SingleSite DMRG, deterministic and convergence-controlled class) and '
        'RealTimeEvolution (TEBD, TwoSite/SingleSite TDVP, ExpMPO) with random L in 4..6, couplings, dt, N_steps, '
        'order, chi_max (small, so truncation errors are non-zero), 2-4 checkpoints, pickle or HDF5; every run also has '
        'three 8-site TwoSiteDMRG jobs whose options evolve during the run (chi_list with a late None, chi_list with '
        'integers, N_sweeps_check=2 with/without chi_list; mixer off, min_sweeps=max_sweeps, fixed Lanczos tolerances; '
        'compared at 1e-9 incl. bond-dimension series, final chi, sweep count) and a decaying/self-disabling mixer in '
        'the convergence-controlled class; the file of every '
        'checkpoint is copied aside and the run resumed from each (plus one interruption through a real SIGINT); '
        'results dictionaries are diffed against the plain run and the measurement bookkeeping (indices, loop-counter '
        'tags, which step errors are in each eps_error) against the Lean loop machine; resume variants: measure_initial '
        'off, measurements at checkpoints on/off, final_time not a multiple of the step, group_sites, time-dependent H '
        'engines, QR-TEBD, custom measurement lists (priorities, psi_method/simulation_method wraps, late/missing keys, '
        'returned values, gzip pickle, random_seed), no measurements entry in the checkpoint, disk cache, save_psi off with '
        'save_resume_data on, post-processing. options: 18 contract scenarios (file naming and existing files, skip/overwrite, '
        'endings, directory, save_every_x_seconds, entry points and their argument errors, abort signals, RAM estimate, '
        'listener priorities, failing measurements / post-processing, sequential simulations incl. resume of the '
        'sequence) and overwrite_output over a prefilled directory under the fault injector. ext: '
        'Simulation._merge_measurement_results on random sequences of measurement dictionaries (1-8 measurements over '
        '1-5 keys; stable / late / dropping / random key sets; malformed: empty first or middle dictionaries) called on '
        'a bare Simulation object, store after every merge diffed with the Lean model and with the direct oracle '
        '"series[k][j] == row_j.get(k)", plus the real prepare_results_for_save -> from_saved_checkpoint round trip at a '
        'random split point; Simulation.fix_output_filenames on prefilled temporary directories (candidates '
        'root, root_1.. taken / with gaps / all 100 / 99 of 100, stale backups, log and backup log, endings '
        '.pkl/.h5/none/.out.pkl, all combinations of skip_if_output_exists, overwrite_output, loaded_from_checkpoint, '
        'safe_write; malformed: no output name, skip+overwrite, resumed without output file), outcome + whole '
        'directory diffed with the Lean model and checked by a model-free oracle; three end-to-end runs resumed from '
        'their own output file; Simulation.save_at_checkpoint / handle_abort_signal on a bare Simulation object with '
        'the real save_results under a scripted clock (3-8 checkpoints, save_every_x_seconds None / 0 / 1-80 units, '
        'gaps around the interval, save durations around a tenth of it, SIGINT before a random checkpoint; malformed: '
        'clock not advancing or going backwards, second SIGINT, another signal), state after every event '
        '(checkpoints saved - observed by loading the file -, _last_save, interval, flag, exception) diffed with the '
        'Lean model and checked by a model-free oracle. Non-trivial: a truncation '
        'error > 1e-14 had accumulated before the checkpoint (time evolution) / any DMRG checkpoint.')
TRUSTED = ['Lean 4.33 kernel; axioms of every C18_* theorem ⊆ {propext, Classical.choice, Quot.sound}',
           'hand-written models TenpyModel/C18/{FS,Loop}.lean, tied to tenpy/simulations/simulation.py, '
           'tenpy/algorithms/{algorithm,mps_common,dmrg}.py by this correspondence run (same crash points / same '
           'checkpoints; FS traces, final directory states, measurement bookkeeping diffed)',
           'POSIX semantics assumed: rename and unlink atomic, rename replaces an existing target, write not atomic; '
           'durability (fsync) and HDF5 internals are not modelled — a killed HDF5 writer is observed, not modelled '
           '(its file is classified by loading it)',
           'fault injector harness/c18_inject.py (wraps pathlib.Path methods, hdf5_io.open, h5py.File, '
           'h5py.Group.create_*); file classification by loading + fingerprint (keys, measurement lengths, times)',
           'psi is abstracted to the number of iterations applied, truncation errors to naturals (set of steps accounted)']
ASSUMPTIONS = ['a process crash = no further file-system step of that process is executed; bytes already written '
               'stay (os._exit after fsync for pickle prefixes)',
               'deterministic engines: same input state and options give the same output (compared at 1e-9)',
               'the user resumes from the newest file that loads (output file first, then backup)']

SEARCH_SEEDS = 3
ANCHOR_COVERAGE_NOTE = ('coverage round 2026-09-26 (quick-tier streams run in-process under coverage --branch, seed 0): '
                        'simulation.py 56% -> 94% (647 stmts, 248 -> 22 missed), algorithm.py 44% -> 84%, '
                        'GroundStateSearch and RealTimeEvolution classes 100% of their lines (the files as a whole 9% / 18%: '
                        'excitation / spectral-function simulation classes are not exercised), mps_common.py 55% (resume parts '
                        'get_resume_data/reset_stats covered except orthogonal_to), hdf5_io.py 60% -> 62% (save/load dispatch '
                        'incl. pklz, hdf5 and unknown endings covered; the rest belongs to C17); see notes/C18.md')


def _pool():
    # import the tree under test once, before forking (workers and crash children inherit it)
    import warnings
    with warnings.catch_warnings():
        warnings.simplefilter('ignore')
        import h5py  # noqa: F401
        import tenpy  # noqa: F401
        import tenpy.simulations.simulation  # noqa: F401
        import tenpy.simulations.ground_state_search  # noqa: F401
        import tenpy.simulations.time_evolution  # noqa: F401
        import tenpy.tools.misc
        tenpy.tools.misc.skip_logging_setup = True
    return multiprocessing.get_context('fork').Pool(min(16, os.cpu_count() or 4))


def _corpus():
    d = core.CORPUS_DIR / PROP
    out = []
    if d.is_dir():
        for f in sorted(d.glob('*.json')):
            try:
                out.append(json.loads(f.read_text()))
            except Exception:
                pass
    return out


def _run_corpus(ctx, res, pool, use_model=True):
    resume_jobs = []
    for c in _corpus():
        case = c.get('case', c)
        if case.get('part') in ('crash', 'second-crash'):
            c18_crash.replay_case(ctx, res, case, use_model=use_model)
        elif case.get('part') == 'resume':
            resume_jobs.append(_resume_job(case))
        elif case.get('part') == 'ext':
            c18_ext.replay_case(ctx, res, case, use_model=use_model)
        elif case.get('part') == 'options':
            for r in pool.map(c18_options.run_scenario, [(case['scenario'], case['seed'])]):
                res.note_case(case, nontrivial=True)
                for suffix, detail in r['problems']:
                    res.fail('property', 'options.%s.%s' % (r['name'][2:], suffix), detail, case)
    if resume_jobs:
        results = pool.map(c18_resume.run_job, resume_jobs, chunksize=1)
        c18_resume.evaluate(ctx, res, results, use_model=use_model)


def _resume_job(case):
    params = c18_resume.fix_int_keys(case['params'])
    alg = params['algorithm_params']
    if case['kind'] == 'te':
        unit = alg['dt'] * alg['N_steps']
        n = int(round((params['final_time'] - alg.get('start_time', 0.0)) / unit))
    else:
        nsc = int(alg.get('N_sweeps_check', 1))
        unit, n = float(nsc), alg['max_sweeps'] // nsc
    sig = case.get('checkpoint') if case.get('via') == 'SIGINT' else None
    return dict(kind=case['kind'], cls=case['cls'], engine=case['engine'], fmt=case['fmt'], n=n, unit=unit,
                params=params, sigint=sig, schedule=case.get('schedule'))


def run(ctx):
    res = core.Result()
    pool = _pool()
    try:
        _run_corpus(ctx, res, pool)
        c18_crash.run(ctx, res, use_model=True, pool=pool)
        c18_resume.run(ctx, res, pool, use_model=True)
        c18_options.run(ctx, res, pool)
        c18_ext.run(ctx, res, pool, use_model=True)
        res.extra['anchor_coverage_note'] = ANCHOR_COVERAGE_NOTE
    finally:
        pool.close()
        pool.join()
    return res


def search(ctx, reasons):
    """Oracle only (no model): the same streams with other seeds."""
    res = core.Result()
    pool = _pool()
    try:
        _run_corpus(ctx, res, pool, use_model=False)
        for i in range(SEARCH_SEEDS if ctx.quick else 3 * SEARCH_SEEDS):
            sub = core.Ctx(PROP, ctx.tier, ctx.seed * 1000 + 17 + i, ctx.budget_s)
            c18_crash.run(sub, res, use_model=False, pool=pool)
            c18_resume.run(sub, res, pool, use_model=False)
            c18_options.run(sub, res, pool)
            c18_ext.run(sub, res, pool, use_model=False)
            if any(f.kind == 'property' for f in res.failures) and i >= 1:
                break
    finally:
        pool.close()
        pool.join()
    res.failures = [f for f in res.failures if f.kind == 'property']
    return res


def replay(ctx, payload):
    res = core.Result()
    case = payload.get('case', {})
    if case.get('part') in ('crash', 'second-crash'):
        c18_crash.replay_case(ctx, res, case)
    elif case.get('part') == 'ext':
        c18_ext.replay_case(ctx, res, case)
    elif case.get('part') == 'options':
        pool = _pool()
        try:
            for r in pool.map(c18_options.run_scenario, [(case['scenario'], case['seed'])]):
                res.note_case(case, nontrivial=True)
                for suffix, detail in r['problems']:
                    res.fail('property', 'options.%s.%s' % (r['name'][2:], suffix), detail, case)
        finally:
            pool.close()
            pool.join()
    elif case.get('part') == 'prefilled':
        import random
        import shutil
        import tempfile
        pool = _pool()
        base = tempfile.mkdtemp(prefix='verif-c18-')
        try:
            c18_crash.check_prefilled(ctx, res, pool, base, case['fmt'], random.Random(str(case)), use_model=True)
        finally:
            pool.close()
            pool.join()
            shutil.rmtree(base, ignore_errors=True)
    elif case.get('part') == 'resume':
        pool = _pool()
        try:
            results = pool.map(c18_resume.run_job, [_resume_job(case)], chunksize=1)
        finally:
            pool.close()
            pool.join()
        c18_resume.evaluate(ctx, res, results)
    return res
