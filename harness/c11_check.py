"""C11: one case on the real MPO class, the Lean model and the dense oracle."""
import json
import traceback
import warnings
from fractions import Fraction

import numpy as np

from harness import ops_common as oc
from harness import c11_lib as cl
from harness import c10_model as cm

TOL = 1e-10
# is_equal / is_hermitian are relative decisions (dist < eps * norm): they say nothing about an operator that is zero up
# to rounding (e.g. Sy Sx Sy = 0 for spin 1, stored as 1e-17); all generated coefficients and site matrices are O(1)
NONZERO = 1e-6


def real_side(case):
    finite = case['finite']
    if case['kind'] == 'W':
        A = cl.W_to_mpo(case, case['WA'])
        B = cl.W_to_mpo(case, case['WB'], 'B') if 'WB' in case else None
        dims = [case['d']] * case['L']
    else:
        A = cl.terms_to_mpo(case, case['tlA'])
        B = cl.terms_to_mpo(case, case['tlB'], 'B') if 'tlB' in case else None
        dims = [s.dim for s in A.sites]
    window = 1
    if not finite:
        window = 3 if float(np.prod(dims)) ** 3 <= 100 else 2
    return dict(A=A, B=B, dims=dims, window=window)


def markers_everywhere(H):
    return all(x is not None for x in H.IdL) and all(x is not None for x in H.IdR)


def plus_identity_input(H):
    """IdL and IdR on every bond, except a single state on the first (IdL) / last (IdR) bond of a finite MPO"""
    L = H.L
    for b in range(L + 1):
        if H.IdL[b] is not None and H.IdR[b] is not None:
            continue
        if b == 0 and H.chi[0] == 1 and H.IdL[0] is not None:
            continue
        if b == L and H.chi[L] == 1 and H.IdR[L] is not None:
            continue
        return False
    return True


def can_add(A, B):
    """`A + B` is defined for MPOs in sum form: infinite MPOs need IdL and IdR on every bond, finite ones only IdL on the
    first and IdR on the last bond (inner markers may be missing on any bond, e.g. `insert_all_id=False`)"""
    if B is None:
        return False
    if A.finite:
        return all(H.IdL[0] is not None and H.IdR[-1] is not None for H in (A, B))
    return markers_everywhere(A) and markers_everywhere(B)


def lean_request(case, real):
    A, B = real['A'], real['B']
    req = {'k': 'mpo', 'd': real['dims'], 'finite': case['finite'], 'window': real['window'], 'A': cl.mpo_json(A)}
    if B is not None and (case['finite'] or can_add(A, B)):
        req['B'] = cl.mpo_json(B)
    if 'plus_identity' in case and markers_everywhere(A):
        # (the model of plus_identity covers operands with IdL and IdR on every bond; single-state boundary bonds are
        # compared with the dense oracle only)
        p = case['plus_identity']
        tb = Fraction(p['tb'])
        N = p['N']
        req['plus_identity'] = {'alpha': p['alpha'], 'beta': oc.fr_str(tb ** N), 'tb': p['tb'],
                                'ta': oc.fr_str(Fraction(p['alpha']) / N), 'sites': p['sites']}
    if 'UI' in case and markers_everywhere(A):
        req['UI'] = case['UI']
    if 'prefactor' in case and markers_everywhere(A):
        req['prefactor'] = case['prefactor']
    return req


def mpo_json_close(a, b, tol=1e-12):
    """same structure, coefficients equal to relative tol (site matrices with irrational entries)"""
    if a['chi'] != b['chi'] or a['idL'] != b['idL'] or a['idR'] != b['idR'] or len(a['W']) != len(b['W']):
        return False
    for wa, wb in zip(a['W'], b['W']):
        da = {tuple(e[:4]): oc.parse_gq(e[4]) for e in wa}
        db = {tuple(e[:4]): oc.parse_gq(e[4]) for e in wb}
        for k in set(da) | set(db):
            x, y = da.get(k, 0.0), db.get(k, 0.0)
            if abs(x - y) > tol * max(1.0, abs(x), abs(y)):
                return False
    return True


def cmp_mpo(fails, name, H, lean_j, exact=True):
    """tensors and markers of an implementation MPO vs the model"""
    got = cl.norm_mpo_json(cl.mpo_json(H))
    want = cl.norm_mpo_json(lean_j)
    if not exact and mpo_json_close(got, want):
        return
    if got != want:
        for k in ('chi', 'idL', 'idR'):
            if got[k] != want[k]:
                fails.append(('correspondence', f'model.{name}.{k}', f'impl {got[k]} model {want[k]}'))
                return
        fails.append(('correspondence', f'model.{name}.W', f'impl {json.dumps(got["W"])[:500]} model {json.dumps(want["W"])[:500]}'))


def close(a, b, scale=1.0):
    return abs(a - b) <= TOL * max(1.0, scale)


def check_case(case, lean_out, real=None, use_model=True):
    fails, facts = [], {}
    try:
        if real is None:
            real = real_side(case)
    except Exception as e:  # noqa: BLE001
        fails.append(('property', f'build.error.{type(e).__name__}', traceback.format_exc()[-1500:]))
        return fails, facts
    A, B, dims, window = real['A'], real['B'], real['dims'], real['window']
    finite = case['finite']
    n_sites = A.L * (1 if finite else window)
    dimsW = dims * (1 if finite else window)

    def dense(H):
        return cl.mpo_dense(H, H.L * (1 if finite else window))

    def prop(sig, detail):
        fails.append(('property', sig, detail))

    def attempt(sig, fn):
        try:
            with warnings.catch_warnings():
                warnings.simplefilter('ignore')
                return fn()
        except Exception as e:  # noqa: BLE001
            prop(f'{sig}.error.{type(e).__name__}', traceback.format_exc()[-1200:])
            return None

    dA = dense(A)
    dB = dense(B) if B is not None else None
    scale = max(1.0, float(np.max(np.abs(dA))) if dA.size else 1.0)
    tol = TOL * scale
    facts['D'] = dA.shape[0]
    if finite:
        e = attempt('exact_diag', lambda: cl.ed_dense(A))
        if e is not None and oc.maxdiff(e, dA) > tol:
            prop('exact_diag.from_H_mpo.mismatch', f'ExactDiag.from_H_mpo differs from the window contraction by {oc.maxdiff(e, dA):.2e}')

    # ---- sum ---------------------------------------------------------------------------------
    S = None
    if can_add(A, B):
        S = attempt('add', lambda: A + B)
        if S is not None:
            d = oc.maxdiff(dense(S), dA + dB)
            facts['add'] = True
            if not (markers_everywhere(A) and markers_everywhere(B)):
                facts['add_partial_markers'] = True
            if d > tol:
                prop('add.dense-mismatch', f'(A+B) differs from dense A + dense B by {d:.2e}')
        S2 = attempt('add', lambda: B + A)
        if S2 is not None:
            d = oc.maxdiff(dense(S2), dA + dB)
            if d > tol:
                prop('add.dense-mismatch', f'(B+A) differs from dense A + dense B by {d:.2e}')
        if S is not None and case['kind'] == 'terms' and finite:
            # the sum against the MPO built directly from the merged term list, by the library's own decision procedure
            def direct():
                merged = dict(case, tlA=list(case['tlA']) + list(case['tlB']))
                return bool(S.is_equal(cl.terms_to_mpo(merged, merged['tlA'])))
            eqd = attempt('is_equal', direct)
            if eqd is False and float(np.max(np.abs(dA + dB))) > NONZERO:
                prop('add.not-equal-to-mpo-of-merged-terms', '(A+B).is_equal(MPO of the merged term list) is False')
    # ---- dagger, hermiticity -------------------------------------------------------------------
    Ad = attempt('dagger', lambda: A.dagger())
    if Ad is not None:
        d = oc.maxdiff(dense(Ad), dA.conj().T)
        if d > tol:
            prop('dagger.dense-mismatch', f'A.dagger() differs from the adjoint matrix by {d:.2e}')
    herm_exact = oc.herm_defect(dA) <= tol
    facts['hermitian'] = herm_exact
    ih = attempt('is_hermitian', lambda: bool(A.is_hermitian()))
    if ih is not None:
        dh, hd = dA, oc.herm_defect(dA)
        if not finite:
            # decided on a window of L + 2*max_range sites (3L if the range is unknown)
            r = A.max_range
            n = A.L + 2 * int(r) if (r is not None and r < np.inf) else 3 * A.L
            dsite = float(np.prod(dims)) ** (1.0 / len(dims))
            dh = cl.mpo_dense(A, n) if dsite ** n <= 1300 else None
            hd = oc.herm_defect(dh) if dh is not None else None
        if dh is not None and np.max(np.abs(dh)) > NONZERO:
            exp_h = hd <= tol
            if ih != exp_h and (exp_h or hd > 1e-3):
                prop('is_hermitian.wrong', f'is_hermitian() = {ih}, hermiticity defect of the dense operator {hd:.2e}')
    # ---- equality, overlap, distance -----------------------------------------------------------
    if B is not None:
        diff = oc.maxdiff(dA, dB)
        eq_exact = diff <= tol
        facts['pair_equal' if eq_exact else 'pair_unequal'] = True
        ie = attempt('is_equal', lambda: bool(A.is_equal(B)))
        if ie is not None and finite and (np.max(np.abs(dA)) > NONZERO or np.max(np.abs(dB)) > NONZERO):
            if ie != eq_exact and (eq_exact or diff > 1e-3):
                sig = 'is_equal.false-positive' if ie else 'is_equal.false-negative'
                prop(sig, f'is_equal = {ie}, dense operators differ by {diff:.2e}')
        if ie is not None and not finite:
            # the decision is about the terms inside a window of L + 2*max_range sites; a symmetric decision needs
            # the larger max_range of the two operators
            def known(r):
                return r is not None and r < np.inf
            rA, rB = A.max_range, B.max_range
            n_need = A.L + 2 * int(max(rA, rB)) if known(rA) and known(rB) else 3 * A.L
            n_used = A.L + 2 * int(rA) if known(rA) else 3 * A.L
            dsite = float(np.prod(dims)) ** (1.0 / len(dims))
            if dsite ** max(n_need, n_used) <= 1300:
                def wdiff(n):
                    a, b = cl.mpo_dense(A, n), cl.mpo_dense(B, n)
                    return oc.maxdiff(a, b), max(float(np.max(np.abs(a))), float(np.max(np.abs(b))))
                d_need, m_need = wdiff(n_need)
                facts['is_equal_infinite'] = True
                if m_need > NONZERO:
                    exp_eq = d_need <= tol
                    if ie != exp_eq and (exp_eq or d_need > 1e-3):
                        d_used, _ = wdiff(n_used)
                        if ie and n_used != n_need and d_used <= tol:
                            prop('is_equal.infinite.window-ignores-other-max_range',
                                 f'A.is_equal(B) = True although B has a term of range {rB} > A.max_range = {rA}: only '
                                 f'{n_used} sites are compared, the operators differ on {n_need} sites by {d_need:.2e}')
                        else:
                            prop('is_equal.false-positive' if ie else 'is_equal.false-negative',
                                 f'is_equal = {ie}, windows of {n_need} sites differ by {d_need:.2e}')
        if finite:
            ov = attempt('overlap', lambda: A.overlap(B))
            want = np.vdot(dA.reshape(-1), dB.reshape(-1))
            if ov is not None and not close(complex(ov), want, abs(want)):
                prop('overlap.not-frobenius', f'overlap {ov} vs tr(A^† B) {want}')
            dist = attempt('distance', lambda: A.distance(B))
            wantd = float(np.sum(np.abs(dA - dB) ** 2))
            if dist is not None and not close(float(dist), wantd, wantd + float(np.sum(np.abs(dA) ** 2))):
                prop('distance.not-frobenius', f'distance {dist} vs |A-B|_F^2 {wantd}')
        else:
            # infinite: the default window of overlap/distance
            # infinite: default window of overlap (max_range of both MPOs decides the number of sites)
            try:
                with warnings.catch_warnings():
                    warnings.simplefilter('ignore')
                    ov = A.overlap(B, understood_infinite=True)
            except TypeError as e:
                unknown = B.max_range is None or B.max_range == np.inf
                prop('overlap.infinite-default-window.other_max_range' if unknown else 'overlap_infinite.error.TypeError',
                     f'overlap(other) with other.max_range={B.max_range}: {e!r}')
            except Exception as e:  # noqa: BLE001
                prop(f'overlap_infinite.error.{type(e).__name__}', repr(e))
    # ---- plus_identity -------------------------------------------------------------------------
    P = None
    P_wrong = False
    if 'plus_identity' in case and plus_identity_input(A) and finite:
        p = case['plus_identity']
        tb, N = Fraction(p['tb']), p['N']
        alpha, beta = float(Fraction(p['alpha'])), float(tb ** N)
        P = attempt('plus_identity', lambda: A.plus_identity(alpha, beta, sites=list(p['sites'])))
        if P is not None:
            want = alpha * np.eye(dA.shape[0]) + beta * dA
            d = oc.maxdiff(dense(P), want)
            facts['plus_identity'] = True
            if A.chi[0] == 1:
                facts['plus_identity_first_bond_single_state'] = True
            if d > TOL * max(1.0, float(np.max(np.abs(want)))):
                P_wrong = True
                sig = 'plus_identity.first_bond_single_state' if A.chi[0] == 1 else 'plus_identity.dense-mismatch'
                prop(sig, f'alpha + beta*A differs by {d:.2e} (alpha={alpha}, beta={beta}, sites={p["sites"]}, chi={list(A.chi)})')
        if P is not None and not P_wrong:
            wantP = alpha * np.eye(dA.shape[0]) + beta * dA
            if 'second' in p:
                q = p['second']
                a2, b2 = float(Fraction(q['alpha'])), float(Fraction(q['tb']) ** q['N'])
                P2 = attempt('plus_identity', lambda: P.plus_identity(a2, b2, sites=list(q['sites'])))
                if P2 is not None:
                    want2 = a2 * np.eye(dA.shape[0]) + b2 * wantP
                    d = oc.maxdiff(dense(P2), want2)
                    facts['plus_identity_twice'] = True
                    if d > TOL * max(1.0, float(np.max(np.abs(want2)))):
                        prop('plus_identity.applied_to_plus_identity_result',
                             f'alpha2 + beta2*(alpha + beta*A) differs by {d:.2e} (first: alpha={alpha}, beta={beta}, '
                             f'sites={p["sites"]}; second: alpha={a2}, beta={b2}, sites={q["sites"]})')
            if B is not None and can_add(P, B):
                SP = attempt('add', lambda: P + B)
                if SP is not None:
                    wantS = wantP + dB
                    d = oc.maxdiff(dense(SP), wantS)
                    facts['add_plus_identity_result'] = True
                    if d > TOL * max(1.0, float(np.max(np.abs(wantS)))):
                        prop('add.operand_from_plus_identity',
                             f'(alpha + beta*A) + B differs from the dense sum by {d:.2e} (alpha={alpha}, beta={beta}, '
                             f'sites={p["sites"]})')
    # ---- U_I ------------------------------------------------------------------------------------
    U = None
    if 'UI' in case and markers_everywhere(A):
        dt = oc.parse_gq(case['UI']['dt'])
        U = attempt('make_U_I', lambda: A.make_U_I(dt))
        facts['UI'] = True
    # ---- prefactor ------------------------------------------------------------------------------
    pref = None
    if 'prefactor' in case and markers_everywhere(A) and case['kind'] == 'W':
        def prefs():
            return [complex(A.prefactor(q['i'], [f'E{a}{b}' for a, b in q['ops']])) for q in case['prefactor']]
        pref = attempt('prefactor', prefs)

    if case['kind'] == 'terms':
        terms_checks(case, real, dA, fails, facts, attempt, prop)

    if not use_model or lean_out is None:
        return fails, facts
    # =============== model vs implementation =====================================================
    if 'error' in lean_out:
        fails.append(('correspondence', 'model.driver-error', str(lean_out['error'])[:500]))
        return fails, facts
    # site matrices with irrational entries (bosons, spin-1): rounding makes exact flags meaningless
    exact = case['kind'] == 'W' or case['site']['cls'] in ('SpinHalfSite', 'FermionSite')
    d = oc.maxdiff(cl.lean_dense(lean_out['denoteA'], dimsW), dA)
    if d > tol:
        fails.append(('correspondence', 'model.denote', f'denotation of the model differs from the dense operator by {d:.2e}'))
    if Ad is not None:
        cmp_mpo(fails, 'dagger', Ad, lean_out['dagger'], exact)
    if not lean_out.get('dagger_ok'):
        fails.append(('correspondence', 'model.dagger_ok', 'model: denote(dagger A) != dagger(denote A)'))
    if exact and lean_out.get('hermitian') != herm_exact:
        fails.append(('correspondence', 'model.hermitian', f'model {lean_out.get("hermitian")} dense {herm_exact}'))
    if S is not None and 'add' in lean_out:
        cmp_mpo(fails, 'add', S, lean_out['add'], exact)
        if not lean_out.get('add_ok'):
            fails.append(('correspondence', 'model.add_ok', 'model: denote(A+B) != denote A + denote B'))
    if B is not None and 'equal' in lean_out:
        if exact and lean_out['equal'] != (oc.maxdiff(dA, dB) <= tol):
            fails.append(('correspondence', 'model.equal', f'model {lean_out["equal"]}'))
        if 'overlap' in lean_out:
            want = np.vdot(dA.reshape(-1), dB.reshape(-1))
            if not close(oc.parse_gq(lean_out['overlap']), want, abs(want)) or not lean_out.get('overlap_ok'):
                fails.append(('correspondence', 'model.overlap', f'model {lean_out["overlap"]} ok={lean_out.get("overlap_ok")} dense {want}'))
    if P is not None and not P_wrong and 'plus_identity' in lean_out:
        cmp_mpo(fails, 'plus_identity', P, lean_out['plus_identity'], exact)
        if not lean_out.get('plus_identity_ok'):
            fails.append(('correspondence', 'model.plus_identity_ok', 'model: denote(plus_identity) != alpha + beta * denote A'))
    if U is not None and 'UI' in lean_out:
        cmp_mpo(fails, 'UI', U, lean_out['UI'], exact)
        if not (lean_out.get('UI_order0_ok') and lean_out.get('UI_order1_ok')):
            fails.append(('correspondence', 'model.UI_first_order',
                          f'model: dt^0 ok={lean_out.get("UI_order0_ok")} dt^1 ok={lean_out.get("UI_order1_ok")}'))
    if pref is not None and 'prefactor' in lean_out:
        for q, a, b in zip(case['prefactor'], pref, lean_out['prefactor']):
            if not close(a, oc.parse_gq(b), abs(a)):
                fails.append(('correspondence', 'model.prefactor', f'{q}: impl {a} model {b}'))
                break
    return fails, facts


# ---------------------------------------------------------------------------------------------
# checks that need named operators / states (MPOs from term lists)


def term_oracle(case, tl, n_cells):
    """dense operator of a term list: product of the many-body (Jordan-Wigner) operators in the given order;
    infinite: all translates inside n_cells unit cells"""
    site = oc.make_site(case['site'])
    L = case['L']
    mb = oc.ManyBody([site] * (L * n_cells))
    H = mb.zero()
    for term, s in tl:
        shifts = [0] if case['finite'] else range(-n_cells - 3, n_cells + 3)
        for sh in shifts:
            t2 = [(o, i + sh * L) for o, i in term]
            if all(0 <= i < L * n_cells for _, i in t2):
                H = H + oc.parse_gq(s) * mb.product(t2)
    return oc.dense(H)


def random_state(sites, seed):
    """random finite MPS (no charges used: built from a dense random vector in the internal basis)"""
    import tenpy.linalg.np_conserved as npc
    from tenpy.networks.mps import MPS
    rs = np.random.RandomState(seed)
    dims = [s.dim for s in sites]
    L = len(sites)
    chinfo = sites[0].leg.chinfo
    if chinfo.qnumber == 0:
        v = rs.randint(-3, 4, size=dims) + 1j * rs.randint(-3, 4, size=dims)
        if not np.any(v):
            v[(0,) * L] = 1
        psi_npc = npc.Array.from_ndarray(v.astype(complex), [s.leg for s in sites], labels=['p%d' % i for i in range(L)])
    else:
        # a random vector inside one charge sector
        legs = [s.leg for s in sites]
        q0 = chinfo.make_valid(np.sum([l.to_qflat()[rs.randint(l.ind_len)] for l in legs], axis=0))
        v = np.zeros(dims, dtype=complex)
        for idx in np.ndindex(*dims):
            q = chinfo.make_valid(np.sum([l.to_qflat()[i] for l, i in zip(legs, idx)], axis=0))
            if np.all(q == q0):
                v[idx] = rs.randint(-3, 4) + 1j * rs.randint(-3, 4)
        if not np.any(v):
            return None, None
        psi_npc = npc.Array.from_ndarray(v, legs, qtotal=q0, labels=['p%d' % i for i in range(L)])
    vec = v.reshape(-1) / np.linalg.norm(v)
    psi = MPS.from_full(sites, psi_npc, form='B', normalize=True, unit_cell_width=L)
    return psi, vec


def full_vector(psi):
    from tenpy.algorithms.exact_diag import get_full_wavefunction
    return get_full_wavefunction(psi, undo_sort_charge=False)


def expectation_checks(case, real, dA, fails, facts, attempt, prop):
    """full complex expectation values of the MPO and of the same MPO flagged explicit_plus_hc (= H_half + H_half^†):
    finite: random dense state; infinite: random iMPS, expectation_value / _power / _TM against the term-by-term
    reference  e = [tr(rho_n H_n) - tr(rho_{n-L} H_{n-L})] / L  (H_k: all terms inside k sites, many-body oracle)"""
    A = real['A']
    finite = case['finite']
    L = A.L
    variants = [('plain', A, False)] if not finite else []
    if case.get('epc'):
        Ah = A.copy()
        Ah.explicit_plus_hc = True
        variants.append(('explicit_plus_hc', Ah, True))
    if not variants:
        return
    if finite:
        psi, vec = random_state(A.sites, case['seed'])
        if psi is None:
            return
        for name, H, hc in variants:
            Hd = dA + dA.conj().T if hc else dA
            want = np.vdot(vec, Hd @ vec)
            facts['expectation.' + name + '.finite'] = True
            ev = attempt(f'expectation_value[{name}]', lambda: complex(H.expectation_value(psi)))
            if ev is not None and not close(ev, want, abs(want) + float(np.max(np.abs(Hd)))):
                prop(f'expectation_value.{name}.finite_mismatch', f'<psi|H|psi> = {ev!r} vs dense {complex(want)!r}')
            # the flag in the decision procedures: overlap with the plain MPO of the same terms, dense form
            if hc:
                ov = attempt('overlap[explicit_plus_hc]', lambda: complex(H.overlap(A)))
                wov = np.vdot(Hd.reshape(-1), dA.reshape(-1))
                if ov is not None and not close(ov, wov, abs(wov)):
                    prop('overlap.explicit_plus_hc.not-frobenius', f'overlap(H_half + h.c., H_half) = {ov!r} vs {complex(wov)!r}')
                full = attempt('from_term_list', lambda: cl.terms_to_mpo(
                    case, list(case['tlA']) + cl.hc_termlist(case, case['tlA'])))
                if full is not None and float(np.max(np.abs(Hd))) > NONZERO:
                    eq = attempt('is_equal[explicit_plus_hc]', lambda: bool(H.is_equal(full)))
                    if eq is False:
                        prop('is_equal.explicit_plus_hc.false-negative',
                             'MPO flagged explicit_plus_hc is_equal(MPO of the terms and their conjugates) = False')
        return
    # ---- infinite
    ext = 1
    for term, _ in case['tlA']:
        idx = [i for _, i in term]
        ext = max(ext, max(idx) - min(idx) + 1)
    n_cells = -(-(ext - 1) // L) + 1
    dsite = A.sites[0].dim
    if dsite ** (n_cells * L) > 1100:
        return
    H_n = term_oracle(case, case['tlA'], n_cells)
    H_s = term_oracle(case, case['tlA'], n_cells - 1) if n_cells >= 2 else None
    psi = cm.random_imps(A.sites, case['seed'], chi=3 if dsite == 2 else 2, width=L)
    rho_n = cm.rho_window_dense(psi, n_cells * L)
    rho_s = cm.rho_window_dense(psi, (n_cells - 1) * L) if H_s is not None else None
    facts['iMPS_complex'] = bool(np.iscomplexobj(rho_n) and np.max(np.abs(rho_n.imag)) > 1e-12)
    for name, H, hc in variants:
        Hn = H_n + H_n.conj().T if hc else H_n
        want = np.trace(rho_n @ Hn)
        if H_s is not None:
            Hs = H_s + H_s.conj().T if hc else H_s
            want = want - np.trace(rho_s @ Hs)
        want = complex(want) / L
        scale = abs(want) + float(np.max(np.abs(Hn))) if Hn.size else 1.0
        vals = {}
        for meth, fn in (('expectation_value', lambda: H.expectation_value(psi)),
                         ('expectation_value_power', lambda: H.expectation_value_power(psi)),
                         ('expectation_value_TM', lambda: H.expectation_value_TM(psi))):
            v = attempt(f'{meth}[{name}]', lambda: complex(fn()))
            facts[f'expectation.{name}.{meth}'] = True
            if v is None:
                continue
            vals[meth] = v
            if abs(v - want) > 1e-8 * max(1.0, scale):
                prop(f'{meth}.{name}.infinite_mismatch',
                     f'density per site on a random iMPS: {v!r} vs term-by-term reference {want!r} '
                     f'(<H_half> complex: {abs(complex(np.trace(rho_n @ H_n)).imag) > 1e-9})')
        if 'expectation_value_power' in vals and 'expectation_value_TM' in vals and \
                abs(vals['expectation_value_power'] - vals['expectation_value_TM']) > 1e-8 * max(1.0, scale):
            prop(f'expectation_value.{name}.power-vs-TM', f'power {vals["expectation_value_power"]!r} TM {vals["expectation_value_TM"]!r}')


def terms_checks(case, real, dA, fails, facts, attempt, prop):
    A = real['A']
    finite = case['finite']
    window = real['window']
    site = A.sites[0]
    scale = max(1.0, float(np.max(np.abs(dA))) if dA.size else 1.0)
    tol = TOL * scale
    # the MPO denotes the term list
    want = term_oracle(case, case['tlA'], 1 if finite else window)
    d = oc.maxdiff(want, dA)
    if d > tol:
        prop('from_term_list.dense-mismatch', f'MPO built from the term list differs from the many-body oracle by {d:.2e}')
        return
    # to_TermList round trip (bosonic sites with a known orthogonal operator basis)
    key = (case['site']['cls'], case['site']['kw'].get('conserve'))
    if key in cl.OP_BASIS and finite:
        def roundtrip():
            from tenpy.networks.mpo import MPOGraph
            tl = A.to_TermList(cl.OP_BASIS[key], cutoff=1e-13)
            if len(tl.terms) == 0:
                return np.zeros_like(dA)
            g = MPOGraph.from_term_list(tl, A.sites, A.bc, unit_cell_width=A.L)
            return cl.mpo_dense(g.build_MPO())
        rt = attempt('to_TermList', roundtrip)
        facts['roundtrip'] = True

        def start_orders():
            def canon(tl):
                return sorted(((tuple((o, int(i)) for o, i in t), (round(float(np.real(s_)), 10), round(float(np.imag(s_)), 10)))
                               for t, s_ in zip(tl.terms, tl.strength)), key=repr)
            a = canon(A.to_TermList(cl.OP_BASIS[key], cutoff=1e-13))
            b = canon(A.to_TermList(cl.OP_BASIS[key], start=list(range(A.L))[::-1], cutoff=1e-13))
            return a, b
        so = attempt('to_TermList', start_orders)
        if so is not None and so[0] != so[1]:
            prop('to_TermList.depends-on-order-of-start', f'start=range(L) gives {len(so[0])} terms, start=reversed(range(L)) gives {len(so[1])}')
        if rt is not None:
            # to_TermList drops pure identity strings (a constant); compare up to a multiple of the identity
            diff = rt - dA
            c = np.trace(diff) / diff.shape[0]
            if oc.maxdiff(diff, c * np.eye(diff.shape[0])) > 1e-9 * scale:
                prop('to_TermList.roundtrip-mismatch', f'from_term_list(to_TermList(H)) differs from H by {oc.maxdiff(rt, dA):.2e}')
    if case.get('epc') or not finite:
        try:
            with warnings.catch_warnings():
                warnings.simplefilter('ignore')
                expectation_checks(case, real, dA, fails, facts, attempt, prop)
        except Exception:  # noqa: BLE001
            fails.append(('correspondence', 'harness.expectation_checks.exception', traceback.format_exc()[-1500:]))
    if not finite:
        return
    # the propagators need IdL and IdR on every bond (documented): use the twin with all markers for them
    A_U = A if markers_everywhere(A) else cl.terms_to_mpo(dict(case, insert_all_id=[True, True]), case['tlA'])
    # expectation value and variance on a random state
    psi, vec = random_state(A.sites, case['seed'])
    if psi is None:
        return
    facts['state'] = True
    Hv = dA @ vec
    ev = attempt('expectation_value', lambda: complex(A.expectation_value(psi)))
    want_ev = np.vdot(vec, Hv)
    if ev is not None and not close(ev, want_ev, abs(want_ev)):
        prop('expectation_value.mismatch', f'<psi|H|psi> = {ev} vs dense {want_ev}')
    var = attempt('variance', lambda: complex(A.variance(psi)))
    want_var = np.vdot(vec, dA @ Hv) - want_ev ** 2
    if var is not None and not close(var, want_var, abs(want_var) + abs(want_ev) ** 2):
        prop('variance.mismatch', f'variance {var} vs dense {want_var}')
    # application by every method: exact without truncation; with truncation (of a near-identity operator, the
    # regime the zip-up method is documented for) the reported error bounds the actual one
    nrm = np.linalg.norm(Hv)
    methods = ['SVD', 'zip_up', 'variational']
    last_chi = [None]
    state_dims = [st.dim for st in A.sites]

    def schmidt_ranks(v):
        out = []
        for b in range(1, len(state_dims)):
            m = np.asarray(v).reshape(int(np.prod(state_dims[:b])), -1)
            sv = np.linalg.svd(m, compute_uv=False)
            out.append(int(np.sum(sv > 1e-10 * max(sv[0], 1e-300))))
        return out

    def run_apply(op, state, method, chi_max):
        p2 = state.copy()
        opts = {'compression_method': method, 'trunc_params': {'chi_max': chi_max, 'svd_min': 1e-14},
                'max_sweeps': 8, 'min_sweeps': 2, 'm_temp': 2, 'max_trunc_err': None}
        err = op.apply(p2, opts)
        last_chi[0] = [int(c) for c in p2.chi]
        return err, p2.norm * full_vector(p2)
    if nrm > 1e-8:
        for method in methods:
            if method == 'variational' and A.L < 3:
                continue   # the two-site sweep needs L > 2 (assert in get_sweep_schedule)
            r = attempt(f'apply.{method}', lambda: run_apply(A, psi, method, 256))
            if r is None:
                continue
            err, res = r
            facts[f'apply.{method}'] = True
            delta2 = float(np.sum(np.abs(res - Hv) ** 2)) / nrm ** 2
            if delta2 > 1e-10:
                eps = float(abs(getattr(err, 'eps', 0.0)))
                ranks = schmidt_ranks(Hv)
                lost = last_chi[0] is not None and any(c < r for c, r in zip(last_chi[0], ranks))
                is_projection = abs(np.vdot(res, Hv - res)) <= 1e-9 * nrm ** 2
                if method == 'variational' and eps <= 1e-20 and lost and is_projection:
                    # the sweep only ever projects H|psi> on the bases of the current guess (initially |psi>): a Schmidt
                    # component of H|psi> whose projection on them is exactly zero is dropped as a zero singular value
                    # and never comes back; the reported truncation error stays 0
                    prop('apply.variational.component-orthogonal-to-guess-lost',
                         f'no truncation requested, reported error {eps:.1e}, but the result has bond dimensions '
                         f'{last_chi[0]} < Schmidt ranks {ranks} of H|psi> and |H psi - result|^2/|H psi|^2 = {delta2:.2e} '
                         '(the result is an orthogonal projection of H|psi>)')
                else:
                    prop(f'apply.{method}.exact-mismatch', f'no truncation, |H psi - result|^2/|H psi|^2 = {delta2:.2e}')
    if A.L >= 3 and max(psi.chi) > 2 and nrm > 1e-8:
        hn = max(1.0, float(np.linalg.norm(dA, 2)))
        Unear = attempt('make_U_II', lambda: A_U.make_U_II(0.05 / hn))
        if Unear is not None:
            dU = cl.mpo_dense(Unear)
            Uv = dU @ vec
            n2 = float(np.linalg.norm(Uv))
            for method in methods:
                r = attempt(f'apply.{method}', lambda: run_apply(Unear, psi, method, 2))
                if r is None:
                    continue
                err, res = r
                facts[f'apply.{method}.truncated'] = True
                delta2 = float(np.sum(np.abs(res - Uv) ** 2)) / n2 ** 2
                eps = float(abs(getattr(err, 'eps', 0.0)))
                if method != 'variational':
                    # SVD / zip-up report the accumulated discarded weight
                    if delta2 > 4.0 * eps + 1e-10:
                        prop(f'apply.{method}.error-above-reported',
                             f'chi_max=2: |U psi - result|^2/|U psi|^2 = {delta2:.3e}, reported eps = {eps:.3e}')
                else:
                    # the variational method reports the truncation of one two-site update inside the already truncated
                    # bases (documented: "maximal truncation error of a two-site wave function"), which says nothing about
                    # the total error.  Its promise is "optimally close": the best chi_max=2 state has an error between
                    # max_b w_b and sum_b w_b (w_b = discarded Schmidt weight of U|psi> on bond b, sequential truncation)
                    w = []
                    for b in range(1, len(state_dims)):
                        sv = np.linalg.svd(Uv.reshape(int(np.prod(state_dims[:b])), -1), compute_uv=False)
                        w.append(float(np.sum(sv[2:] ** 2)) / n2 ** 2)
                    if delta2 > 2.0 * sum(w) + 1e-10:
                        prop('apply.variational.far-from-optimal',
                             f'chi_max=2: |U psi - result|^2/|U psi|^2 = {delta2:.3e}, but a state with error <= '
                             f'{sum(w):.3e} exists (discarded Schmidt weights per bond {w})')
                    if delta2 < max(w) * (1 - 1e-8) - 1e-10:
                        prop('apply.variational.better-than-possible',
                             f'chi_max=2: error {delta2:.3e} below the bound {max(w):.3e} of any chi=2 state: result has chi {last_chi[0]}')
    # propagators: error ratio at t, t/2, t/4 (test level)
    if case.get('herm') and oc.herm_defect(dA) <= tol and A.L >= 2:
        import scipy.linalg
        res = {}
        for kind in ('I', 'II'):
            errs = []
            hn = max(1.0, float(np.linalg.norm(dA, 2)))
            for t in (0.1 / hn, 0.05 / hn, 0.025 / hn):
                def mk():
                    U = A_U.make_U_I(-1j * t) if kind == 'I' else A_U.make_U_II(-1j * t)
                    return cl.mpo_dense(U)
                Ud = attempt(f'make_U_{kind}', mk)
                if Ud is None:
                    errs = None
                    break
                errs.append(float(np.linalg.norm(Ud - scipy.linalg.expm(-1j * t * dA))))
            res[kind] = errs
        facts['propagators'] = True
        for kind, lo in (('I', 3.0), ('II', 3.0)):
            errs = res.get(kind)
            if not errs or errs[0] < 1e-9:
                continue
            r1, r2 = errs[0] / max(errs[1], 1e-300), errs[1] / max(errs[2], 1e-300)
            if min(r1, r2) < lo:
                prop(f'make_U_{kind}.order', f'errors at t, t/2, t/4: {errs} (ratios {r1:.2f}, {r2:.2f}; expected >= {lo})')
