"""C09 — MPS transformations implement the documented map on states.

Real code: apply_local_op / apply_product_op / apply_local_term, swap_sites / permute_sites, add, compress_svd /
compress, enlarge_chi, group_sites / group_split, spatial_inversion, roll_mps_unit_cell, enlarge_mps_unit_cell on
generated states and random sequences of them.
Oracle (no model): the dense state before/after (numpy operators with explicit Jordan-Wigner strings, dense site
permutation with fermionic signs, linear combination, reversal), `norm`, `norm_test`, reported truncation errors.
Model: the Lean driver redoes the exact transformations on the implementation's tensors (spatialInversion, roll,
enlarge, applyLocalOp with JW signs, applyProductOp, groupedSites, addChain, permuteRun) and everything is diffed.
"""
import copy
import itertools
import random
import sys
import warnings

import numpy as np

from vlib import core
from harness import mps_common as mc
from harness import mps_extra as mx
from harness import c09_ext as cx
from harness.C08 import Dense, plain_ops, jw_ops

sys.path.insert(0, str(core.ROOT / 'tools'))

PROP = 'C09'
MODEL_MODULES = ['TenpyModel.Util.J', 'TenpyModel.MPS.Eval', 'TenpyModel.C09.ExtPermute', 'TenpyModel.C09.ExtTerm']
PROPS_MODULES = ['TenpyModel.C09.Props', 'TenpyModel.C09.Props2', 'TenpyModel.C09.PropsExt']
LEVEL = 'proof'
BUDGET = {'quick': 200, 'thorough': 1500}
RULE = ('states from from_full / random block-sparse tensors + canonical_form / singlets on L=2..7 over all site kinds '
        '(fermionic, bosonic, spinful, mixed chains, every conserve option, non-uniform bond dimensions, norms != 1, '
        'random stored forms); random sequences of 1-4 transformations drawn from apply_local_op (one- and two-site, '
        'fermionic with JW, unitary flag, renormalize), apply_product_op, apply_local_term, swap_sites, permute_sites, '
        'add (different bond dimensions, complex prefactors), compress_svd / compress, enlarge_chi, group_sites + '
        'group_split, spatial_inversion (twice), convert_form; infinite unit cells of 1-3 sites in random forms: '
        'roll_mps_unit_cell (any shift), enlarge_mps_unit_cell, spatial_inversion compared on windows. '
        'Non-trivial: some bond dimension > 1 and at least one transformation applied; distinct by content hash. '
        'Extension part (harness/c09_ext.py, own PRNG stream "ext", driver C09ext): permute_sites with the swap_sites '
        'calls recorded (random / near-sorted permutations, too short / too long / repeated entries) vs the modelled loop '
        'and the dense fermionic permutation; _term_to_ops_list and apply_local_term(canonicalize=False) with the name '
        'lists handed to multiply_operators, the JW-string call and the set_B calls recorded (1-4 entries, composite '
        'names, i_offset, negative / out-of-range indices, empty term, autoJW on/off, JW_from_right None/True/False, '
        'infinite unit cells) vs the model and the dense operator product with explicit JW strings.')
TRUSTED = ['Lean 4.33 kernel; axioms of every C09_* theorem ⊆ {propext, Classical.choice, Quot.sound}',
           'model lean/TenpyModel/MPS/{Chain,Basic,Transform}.lean tied to tenpy/networks/mps.py by this run',
           'dense oracle: numpy (kron operators from the sites\' operator tables, explicit JW strings, axis permutations '
           'with fermionic signs from Site.JW_exponent)',
           'serialiser harness/mps_common.py, drivers lean/drivers/C07.lean, lean/drivers/C09ext.lean',
           'extension part: recorders wrapped around swap_sites / set_B / apply_JW_string_left_of_virt_leg / '
           'Site.multiply_operators (they call the originals)']
ASSUMPTIONS = ['SVD-based steps (swap_sites with truncation, compress, group_split with truncation) are only checked '
               'against the reported truncation error: |psi - psi\'|^2 <= n_bonds * eps_reported * (1 + eps) + 1e-10',
               'canonical_form after non-unitary operators is covered by its post-conditions (state, norm, norm_test)']

TOL = 1e-9
INF_KINDS = [('SpinHalf', None), ('SpinHalf', 'parity'), ('Spin1', None), ('Spin1', 'parity'), ('Fermion', None),
             ('Fermion', 'parity'), ('Boson2', None), ('SHFermion', (None, None))]
MIXED_FERMIONS = [(['Fermion', None], ['SHFermion', [None, None]]), (['Fermion', 'N'], ['SHFermion', ['N', None]]),
                  (['Fermion', 'parity'], ['SHFermion', ['parity', None]]), (['Fermion', 'N'], ['SHFermion', ['N', 'Sz']]),
                  (['Fermion', 'parity'], ['SHFermion', ['parity', 'Sz']]),
                  (['Fermion', 'parity'], ['SHFermion', ['parity', 'parity']])]
STEPS = ['local_op', 'local_op', 'local_op2', 'product_op', 'local_term', 'swap', 'permute', 'add', 'compress',
         'enlarge_chi', 'group', 'inversion', 'convert']


def regenerate(ctx):
    import gen_C07
    return gen_C07.regenerate(ctx.repo, core.LEAN_DIR)


def gen_cases(rng, n, quick):
    cases = []
    Lmax = 5 if quick else 7
    while len(cases) < n:
        if rng.random() < 0.2:
            L = rng.randint(1, 3)
            k = rng.choice(INF_KINDS)
            lo = rng.choice([1, 2])
            case = dict(kind='inf', seed=rng.getrandbits(31), complex=rng.random() < 0.3,
                        sites={'kinds': [[k[0], list(k[1]) if isinstance(k[1], tuple) else k[1]]] * L},
                        chi=[rng.randint(lo, lo + 1) for _ in range(L)],
                        forms=[rng.choice(['A', 'B', 'C', 'G']) for _ in range(L)],
                        shift=rng.randint(-4, 4), factor=rng.randint(2, 3))
            if max(case['chi']) == 1:
                case['chi'][0] = 2
            cases.append(case)
            continue
        if rng.random() < 0.2:
            # mixed fermionic chain: neighbouring fermionic sites of DIFFERENT type (different JW_exponent vectors),
            # exercised by swap_sites / permute_sites against the dense fermionic permutation
            a, b = rng.choice(MIXED_FERMIONS)
            Lm = rng.randint(2, 4)
            kinds = [a if (i + k0) % 2 == 0 else b for k0 in [rng.randint(0, 1)] for i in range(Lm)]
            if rng.random() < 0.3 and Lm >= 3:
                kinds[rng.randrange(Lm)] = rng.choice([a, b])
            base = dict(kind='full', seed=rng.getrandbits(31), complex=rng.random() < 0.3, sites={'kinds': kinds},
                        form=rng.choice([None, 'A', 'B', 'C']), normalize=rng.random() < 0.5, density=1.0)
            other = dict(kind='full', seed=rng.getrandbits(31), complex=base['complex'], sites=base['sites'],
                         form='B', normalize=True, density=1.0)
            steps = [rng.choice(['swap', 'permute', 'swap', 'permute', 'local_op', 'inversion'])
                     for _ in range(rng.randint(1, 3))]
            if not any(x in ('swap', 'permute') for x in steps):
                steps[0] = rng.choice(['swap', 'permute'])
            cases.append(dict(kind='finite', seed=rng.getrandbits(31), base=base, other=other, sites=base['sites'],
                              steps=steps))
            continue
        kind = rng.choice(['full', 'full', 'randB', 'randB', 'singlets'])
        base = mc.gen_case(rng, [kind], Lmax=Lmax, dmax=128 if quick else 512)
        if kind == 'randB':
            base['canon'] = rng.choice([True, False])
        if kind == 'full':
            base['form'] = rng.choice([None, 'A', 'B', 'C'])
        if int(np.prod([mc.site_dim(k) for k, _ in base['sites']['kinds']])) > (128 if quick else 512):
            continue   # dense operators are D x D
        other = dict(kind='full', seed=rng.getrandbits(31), complex=base['complex'], sites=base['sites'],
                     form=rng.choice([None, 'B']), normalize=rng.random() < 0.5, density=1.0)
        steps = [rng.choice(STEPS) for _ in range(rng.randint(1, 4))]
        cases.append(dict(kind='finite', seed=rng.getrandbits(31), base=base, other=other, sites=base['sites'],
                          steps=steps))
    return cases


# ----------------------------------------------------------------------------------------------------------------
# dense helpers


def parities(site):
    return (np.asarray(site.JW_exponent).round().astype(int)) % 2


def dense_permute(vec, sites, perm):
    """site i moves to position perm[i]; fermionic sign = product over inverted pairs of (-1)^{n_i n_j}."""
    L = len(sites)
    dims = [s.dim for s in sites]
    t = vec.reshape(dims).astype(complex)
    par = [parities(s) for s in sites]
    for i in range(L):
        for j in range(i + 1, L):
            if perm[i] > perm[j]:
                sh_i = [1] * L
                sh_i[i] = dims[i]
                sh_j = [1] * L
                sh_j[j] = dims[j]
                sign = 1.0 - 2.0 * (par[i].reshape(sh_i) * par[j].reshape(sh_j))
                t = t * sign
    inv = np.argsort(perm)          # new axis k holds old axis inv[k]
    t = np.transpose(t, inv)
    new_sites = [sites[i] for i in inv]
    return t.reshape(-1), new_sites


def eval_case(case):
    if case['kind'] == 'ext':
        return cx.eval_ext(case)
    if case['kind'] == 'extra':
        return mx.eval_c09(case)
    if case['kind'] == 'inf':
        return eval_inf(case)
    return eval_finite(case)


def eval_finite(case):
    from tenpy.networks.mps import MPS
    import tenpy.linalg.np_conserved as npc
    rnd = random.Random(case['seed'])
    oracle, lines, expects = [], [], []
    st = mc.build_state(case['base'])
    psi = st['psi']
    L = psi.L
    hist = ['kind=' + case['base']['kind'], 'L=%d' % L, 'complex=%s' % case['base'].get('complex'),
            'sites=' + '+'.join(sorted({'%s/%s' % (k, str(c)) for k, c in case['sites']['kinds']}))[:60]]
    vec = mc.np_state(psi).reshape(-1).astype(complex)
    if not mc.close(vec, st['ref'].reshape(-1), 1e-8 * max(1.0, float(np.max(np.abs(vec))))):
        return dict(skip='base state does not denote its input (C07 territory)')
    sites = list(psi.sites)
    applied = 0
    truncated = False

    def check(tag, tol=TOL, want=None):
        """stored tensors of psi must denote `vec` (the tracked dense state)."""
        w = vec if want is None else want
        got = mc.np_state(psi).reshape(-1)
        scale = max(1.0, float(np.max(np.abs(w))))
        if got.shape != w.shape or not np.all(np.abs(got - w) <= tol * scale):
            oracle.append((tag, 'dense state after the step differs: max err %.3g (norm %r)' % (
                mc.maxerr(got, w), psi.norm)))
            return False
        return True

    def sign_ambiguous():
        # apply_JW_string_left_of_virt_leg documents: "we may lose an overall, global minus sign in the case that
        # some B tensors have non-trivial qtotal" -- the same holds for a charged left-most virtual leg
        # (e.g. after spatial_inversion): then only the state up to a global sign is specified
        if psi.chinfo.qnumber == 0:
            return False
        return any(np.any(B.qtotal != 0) for B in psi._B) or bool(np.any(psi._B[0].get_leg('vL').charges != 0))

    for step in case['steps']:
        if oracle:
            break
        D = Dense(sites)
        L = psi.L
        hist.append('step=' + step)
        try:
            if step == 'local_op':
                i = rnd.randrange(L)
                pool = plain_ops(sites[i])
                can_jw = psi.chinfo.qnumber > 0 and all(getattr(s, 'charge_to_JW_parity', None) is not None for s in sites)
                if can_jw and jw_ops(sites[i]) and rnd.random() < 0.5:
                    pool = jw_ops(sites[i])
                name = rnd.choice(pool)
                new = D.op(i, name) @ vec
                if np.linalg.norm(new) < 1e-3 * np.linalg.norm(vec):
                    continue
                unitary = rnd.choice([None, None, False])
                renorm = rnd.random() < 0.3
                before = mc.dump_mps(psi)
                n0 = psi.norm
                m = sites[i].get_op(name).to_ndarray()
                is_unitary = np.linalg.norm(m @ m.conj().T - np.eye(len(m))) < 1e-13
                amb = sites[i].op_needs_JW(name) and sign_ambiguous()
                psi.apply_local_op(i, name, unitary=unitary, renormalize=renorm)
                vec = new if not renorm else new / np.linalg.norm(new) * np.linalg.norm(vec)
                if amb and np.linalg.norm(mc.np_state(psi).reshape(-1) + vec) < np.linalg.norm(mc.np_state(psi).reshape(-1) - vec):
                    vec = -vec
                if renorm and abs(psi.norm - n0) > 1e-12 * max(1, n0):
                    oracle.append(('C09.apply_local_op.renormalize-norm', '%r -> %r' % (n0, psi.norm)))
                check('C09.apply_local_op' + ('.JW' if sites[i].op_needs_JW(name) else ''))
                if is_unitary and unitary is None and not renorm:
                    # no canonical_form was called: the model reproduces the tensors exactly
                    signs = None
                    if sites[i].op_needs_JW(name):
                        leg = psi._B[i].get_leg('vL')
                        signs = mc.enc_flat(sites[i].charge_to_JW_signs(leg.to_qflat()))
                    lines.append({'op': 'applyLocal', 'num': 'f', 'mps': before, 'i': i, 'opm': mc.enc_flat(m), 'signs': signs})
                    expects.append(('mps', mc.stored_tensors(psi), 'C09.model.apply_local_op'))
            elif step == 'local_op2':
                if L < 2:
                    continue
                i = rnd.randrange(L - 1)
                n1, n2 = rnd.choice(plain_ops(sites[i])), rnd.choice(plain_ops(sites[i + 1]))
                op2 = npc.outer(sites[i].get_op(n1).replace_labels(['p', 'p*'], ['p0', 'p0*']),
                                sites[i + 1].get_op(n2).replace_labels(['p', 'p*'], ['p1', 'p1*']))
                new = D.op(i, n1) @ (D.op(i + 1, n2) @ vec)
                if np.linalg.norm(new) < 1e-3 * np.linalg.norm(vec):
                    continue
                psi.apply_local_op(i, op2)
                vec = new
                check('C09.apply_local_op.two-site')
            elif step == 'product_op':
                names = [rnd.choice(plain_ops(s)) for s in sites]
                new = vec
                for i, nme in enumerate(names):
                    new = D.op(i, nme) @ new
                if np.linalg.norm(new) < 1e-3 * np.linalg.norm(vec):
                    continue
                renorm = rnd.random() < 0.3
                n0 = psi.norm
                psi.apply_product_op(names, renormalize=renorm)
                vec = new if not renorm else new / np.linalg.norm(new) * np.linalg.norm(vec)
                check('C09.apply_product_op')
            elif step == 'local_term':
                can_jw = psi.chinfo.qnumber > 0 and all(getattr(s, 'charge_to_JW_parity', None) is not None for s in sites)
                term = []
                for _ in range(rnd.randint(1, 3)):
                    i = rnd.randrange(L)
                    pool = plain_ops(sites[i]) + (jw_ops(sites[i]) * 2 if can_jw else [])
                    term.append((rnd.choice(pool), i))
                new = D.term(term) @ vec
                if np.linalg.norm(new) < 1e-3 * np.linalg.norm(vec):
                    continue
                amb = sign_ambiguous() and any(sites[i].op_needs_JW(nme) for nme, i in term)
                psi.apply_local_term(term)
                vec = new
                if amb and np.linalg.norm(mc.np_state(psi).reshape(-1) + vec) < np.linalg.norm(mc.np_state(psi).reshape(-1) - vec):
                    vec = -vec
                njw = sum(sites[i].op_needs_JW(nme) for nme, i in term)
                check('C09.apply_local_term' + ('.JW' if njw else ''))
            elif step == 'swap':
                if L < 2:
                    continue
                i = rnd.randrange(L - 1)
                perm = list(range(L))
                perm[i], perm[i + 1] = i + 1, i
                new, new_sites = dense_permute(vec, sites, perm)
                if rnd.random() < 0.6:
                    err = psi.swap_sites(i)
                    vec, sites = new, new_sites
                    check('C09.swap_sites' + ('.fermionic' if (parities(sites[i]).any() and parities(sites[i + 1]).any()) else ''), tol=1e-8)
                else:
                    chi_max = max(1, max(psi.chi) - 1)
                    nrm = np.linalg.norm(vec)
                    n0 = psi.norm
                    truncated = True
                    err = psi.swap_sites(i, trunc_par={'chi_max': chi_max})
                    got = mc.np_state(psi).reshape(-1)
                    d2 = np.linalg.norm(got / np.linalg.norm(got) - new / nrm) ** 2
                    if d2 > err.eps * (1 + err.eps) + 1e-10:
                        oracle.append(('C09.swap_sites.truncation-error', '|dpsi|^2 = %.3g > reported eps %.3g' % (d2, err.eps)))
                    vec, sites = got, new_sites
                if [repr(a) for a in psi.sites] != [repr(a) for a in sites]:
                    oracle.append(('C09.swap_sites.sites-not-swapped', ''))
            elif step == 'permute':
                perm = list(range(L))
                rnd.shuffle(perm)
                new, new_sites = dense_permute(vec, sites, perm)
                psi.permute_sites(perm)
                vec, sites = new, new_sites
                ferm = sum(parities(s).any() for s in sites) >= 2
                check('C09.permute_sites' + ('.fermionic' if ferm else ''), tol=1e-8)
                if ferm and not oracle:
                    # model: sign of a fermionic basis configuration under the same permutation
                    cfg = [int(rnd.randrange(s.dim)) for s in psi.sites]
                    # (positions after the permutation: item at old site i has key perm[i])
                    old_sites = [None] * L
                    for i in range(L):
                        old_sites[i] = sites[perm[i]]
                    items = [[perm[i], bool(parities(old_sites[i])[rnd.randrange(old_sites[i].dim)])] for i in range(L)]
                    lines.append({'op': 'permsign', 'items': items})
                    sgn = 1
                    for a in range(L):
                        for b in range(a + 1, L):
                            if items[a][0] > items[b][0] and items[a][1] and items[b][1]:
                                sgn = -sgn
                    expects.append(('permsign', (sgn, sorted(x[0] for x in items)), 'C09.model.permute-sign'))
            elif step == 'add':
                so = mc.build_state(case['other'])
                phi = so['psi']
                if [repr(a) for a in phi.sites] != [repr(a) for a in sites]:
                    continue
                try:
                    same = bool(np.all(phi.get_total_charge(True) == psi.get_total_charge(True)))
                except Exception:
                    same = True
                if not same:
                    continue
                ovec = mc.np_state(phi).reshape(-1)
                al = rnd.choice([1.0, -0.5, 2.0, 0.75])
                be = rnd.choice([1.0, -1.5, 0.5]) * (1j if (psi.dtype.kind == 'c' and rnd.random() < 0.4) else 1.0)
                new = al * vec + be * ovec
                if np.linalg.norm(new) < 1e-6:
                    continue
                la = {'op': 'add', 'num': 'f', 'a': mc.dump_mps(psi), 'b': mc.dump_mps(phi),
                      'alpha': mc.enc_scalar(al), 'beta': mc.enc_scalar(be)}
                try:
                    res = psi.add(phi, al, be)
                except ValueError as e:
                    nonzero = any(np.any(B.qtotal != 0) for B in psi._B + phi._B)
                    if 'wrong qtotal' in str(e) and nonzero:
                        oracle.append(('C09.add[operand tensors carry different non-zero qtotal]',
                                       'raises %r although both states have the same total charge' % str(e)))
                        break
                    raise
                psi = res
                vec = new
                if check('C09.add'):
                    lines.append(la)
                    expects.append(('state', new, 'C09.model.add'))
            elif step == 'compress':
                if L < 2:
                    continue
                chi_max = max(1, max(psi.chi) - rnd.randint(0, 1))
                nrm = np.linalg.norm(vec)
                truncated = True
                if rnd.random() < 0.5:
                    err = psi.compress_svd({'chi_max': chi_max})
                else:
                    err = psi.compress({'compression_method': 'SVD', 'trunc_params': {'chi_max': chi_max}})
                got = mc.np_state(psi).reshape(-1)
                d2 = np.linalg.norm(got / np.linalg.norm(got) - vec / nrm) ** 2
                nb = max(1, L - 1)
                if d2 > nb * err.eps * (1 + err.eps) + 1e-10:
                    oracle.append(('C09.compress_svd.truncation-error', '|dpsi|^2 = %.3g > %d * reported eps %.3g' % (d2, nb, err.eps)))
                if max(psi.chi) > chi_max:
                    oracle.append(('C09.compress_svd.chi_max', '%r > %d' % (psi.chi, chi_max)))
                # the norm is tracked: |psi'| = |psi| * sqrt(prod(1 - eps_i)) <= |psi|
                if np.linalg.norm(got) > nrm * (1 + 1e-9):
                    oracle.append(('C09.compress_svd.norm-grew', '%r > %r' % (np.linalg.norm(got), nrm)))
                vec = got
            elif step == 'enlarge_chi':
                chi0 = list(psi.chi)
                full = [1] + chi0 + [1]
                extra = [0] * (L + 1)
                for b in range(L - 1, 0, -1):
                    room = sites[b].dim * (full[b + 1] + extra[b + 1]) - full[b]
                    extra[b] = rnd.randint(0, max(0, min(2, room)))
                nprng = np.random.default_rng(rnd.getrandbits(31))
                flipped = psi.chinfo.qnumber > 0 and psi._B[0].get_leg('vL').qconj == -1
                try:
                    psi.enlarge_chi(extra, random_fct=lambda size: nprng.normal(size=size))
                except ValueError as e:
                    if flipped and any(extra):
                        oracle.append(('C09.enlarge_chi[virtual legs with reversed qconj after spatial_inversion]',
                                       'raises %r for extra=%r' % (str(e).splitlines()[0], extra)))
                        break
                    if 'QR for Gram-Schmidt' in str(e) and psi.chinfo.qnumber > 0:
                        oracle.append(('C09.enlarge_chi[overcomplete charge block]', 'raises %r for extra=%r chi=%r' % (str(e), extra, chi0)))
                        break
                    raise
                got = mc.np_state(psi)
                if np.any(np.isnan(got)) and psi.chinfo.qnumber > 0:
                    oracle.append(('C09.enlarge_chi[overcomplete charge block]', 'tensors contain NaN for extra=%r chi=%r' % (extra, chi0)))
                    break
                check('C09.enlarge_chi')
                if list(psi.chi) != [c + e for c, e in zip(chi0, extra[1:-1])]:
                    oracle.append(('C09.enlarge_chi.dimensions', '%r + %r -> %r' % (chi0, extra[1:-1], psi.chi)))
                applied += 1
                if any(extra):
                    # exactly zero singular values now: any later step that converts to 'A'/'C' form would
                    # divide by them (the caller's business) -- the sequence ends here
                    break
                continue
            elif step == 'group':
                if L < 2:
                    continue
                n = rnd.choice([2, 2, 3]) if L >= 3 else 2
                before = mc.dump_mps(psi)
                vec0 = vec
                psi.group_sites(n)
                # dense state in the grouped basis: every grouped index is the pipe position of (p0, p1, ..)
                dims = [s.dim for s in sites]
                t = vec0.reshape(dims)
                pos = 0
                newshape = []
                tt = t
                for gi, gs in enumerate(psi.sites):
                    k = gs.n_sites
                    pipe = psi._B[gi].get_leg('p')
                    dd = dims[pos:pos + k]
                    Dg = int(np.prod(dd))
                    perm_g = np.zeros(Dg, dtype=int)
                    for flat, idx in enumerate(itertools.product(*[range(x) for x in dd])):
                        tgt = pipe.map_incoming_flat(list(idx)) if hasattr(pipe, 'map_incoming_flat') else flat
                        perm_g[tgt] = flat
                    sh = list(tt.shape)
                    tt = tt.reshape(sh[:gi] + [Dg] + sh[gi + k:])
                    tt = np.take(tt, perm_g, axis=gi)
                    pos += k
                got = mc.np_state(psi).reshape(-1)
                if not mc.close(got, tt.reshape(-1), TOL * max(1.0, float(np.max(np.abs(vec0))))):
                    single = any(gs.n_sites == 1 for gs in psi.sites)
                    oracle.append(('C09.group_sites' + ('[a group of a single site]' if single else ''),
                                   'grouped state differs: %.3g (n=%d, L=%d)' % (mc.maxerr(got, tt.reshape(-1)), n, L)))
                    break
                else:
                    ns = [gs.n_sites for gs in psi.sites]
                    lines.append({'op': 'group', 'num': 'f', 'mps': before, 'ns': ns})
                    wantB = []
                    for gi, B in enumerate(mc.stored_tensors(psi)[0]):
                        wantB.append(B)
                    expects.append(('groups', (wantB, psi, dims, ns), 'C09.model.group_sites'))
                # split again (large chi_max: exact up to SVD numerics)
                err = psi.group_split({'chi_max': 10000})
                check('C09.group_split', tol=1e-8)
                if [repr(a) for a in psi.sites] != [repr(a) for a in sites]:
                    oracle.append(('C09.group_split.sites', ''))
            elif step == 'inversion':
                before = mc.dump_mps(psi)
                B0 = mc.stored_tensors(psi)
                dims = [s.dim for s in sites]
                psi.spatial_inversion()
                new = np.transpose(vec.reshape(dims), list(range(L))[::-1]).reshape(-1)
                vec, sites = new, sites[::-1]
                if check('C09.spatial_inversion'):
                    lines.append({'op': 'inversion', 'num': 'f', 'mps': before})
                    expects.append(('mps', mc.stored_tensors(psi), 'C09.model.spatial_inversion'))
                    p2 = psi.copy()
                    p2.spatial_inversion()
                    B2 = mc.stored_tensors(p2)
                    same = all(np.array_equal(a, b) for a, b in zip(B2[0], B0[0])) and \
                        all(np.array_equal(a, b) for a, b in zip(B2[1], B0[1])) and B2[2] == B0[2] and B2[3] == B0[3]
                    if not same:
                        oracle.append(('C09.spatial_inversion.not-involutive', 'inversion applied twice changes the stored data'))
            elif step == 'convert':
                psi.convert_form(rnd.choice(['A', 'B', 'C', 'G']))
                check('C09.convert_form')
            applied += 1
        except Exception as e:
            import traceback
            tb = traceback.extract_tb(e.__traceback__)
            where = [f for f in tb if 'tenpy' in f.filename]
            oracle.append(('C09.%s.raises:%s' % (step, type(e).__name__),
                           repr(e)[:200] + (' @ %s:%d' % (where[-1].name, where[-1].lineno) if where else '')))
    # canonical claims at the end
    if not oracle and applied and not truncated and all(f is not None for f in psi.form):
        last = case['steps'][-1] if case['steps'] else ''
        if last in ('add', 'permute', 'local_term', 'product_op', 'group', 'inversion', 'convert', 'enlarge_chi'):
            nt = psi.norm_test()
            if np.max(nt) > 1e-7:
                oracle.append(('C09.%s.norm_test' % last, 'max %.3g' % np.max(nt)))

    def compare(outs):
        bad = []
        for (what, want, sig), out in zip(expects, outs):
            if 'error' in out:
                bad.append((sig, 'driver error ' + str(out['error'])[:200]))
            elif what == 'mps':
                Bs, Ss, forms, norm = mc.mps_from_dump(out['mps'])
                wB, wS, wf, wn = want
                for i, (a, b) in enumerate(zip(Bs, wB)):
                    if not mc.close(a, b, 1e-12 * max(1.0, float(np.max(np.abs(b))))):
                        bad.append((sig, 'site %d tensor differs: %.3g' % (i, mc.maxerr(a, b))))
                        break
                if [mc.form_half(f) for f in wf] != forms:
                    bad.append((sig, 'forms %r vs model %r' % (wf, forms)))
                for i, (a, b) in enumerate(zip(Ss, wS)):
                    if b is not None and not mc.close(a.real, b, 1e-12):
                        bad.append((sig, 'bond %d singular values differ' % i))
                        break
            elif what == 'state':
                got = mc.dec_list(out['state'])
                if not mc.close(got, want, TOL * max(1.0, float(np.max(np.abs(want))))):
                    bad.append((sig, 'model dense state vs alpha*a+beta*b: %.3g' % mc.maxerr(got, want)))
            elif what == 'permsign':
                if (out['sign'], out['order']) != want or out['inv'] != want[0]:
                    bad.append((sig, 'model %r expected %r' % ((out['sign'], out['inv'], out['order']), want)))
            elif what == 'groups':
                wantB, psi_g, dims, ns = want
                pos = 0
                for gi, (g, B) in enumerate(zip(out['groups'], wantB)):
                    T = mc.dec_list(g).reshape(g['dL'], g['d'], g['dR'])
                    # model uses C order of (p0, p1, ..); implementation the pipe order
                    pipe = psi_g._B[gi].get_leg('p') if False else None
                    k = ns[gi]
                    dd = dims[pos:pos + k]
                    pos += k
                    if T.shape != B.shape:
                        bad.append((sig, 'group %d shape %r vs %r' % (gi, T.shape, B.shape)))
                        break
                    # compare up to the permutation of the grouped physical index (set of slices)
                    a = sorted(np.round(np.linalg.norm(T, axis=(0, 2)), 9))
                    b = sorted(np.round(np.linalg.norm(B, axis=(0, 2)), 9))
                    if not mc.close(np.array(a), np.array(b), 1e-8):
                        bad.append((sig, 'group %d: grouped tensors differ beyond a relabelling of p' % gi))
                        break
        return bad

    nontrivial = applied > 0 and bool(psi.chi) and max(psi.chi) > 1
    return dict(oracle=oracle, lines=lines, compare=compare, nontrivial=nontrivial, hist=hist)


def window(psi, i, n):
    return psi.get_theta(i, n).itranspose(['vL'] + ['p%d' % k for k in range(n)] + ['vR']).to_ndarray()


def eval_inf(case):
    """infinite MPS in random forms: roll / enlarge / inversion compared on windows."""
    oracle, lines, expects = [], [], []
    rnd = random.Random(case['seed'])
    b = mc.build_infinite(case)
    psi, dense = b['psi'], b['dense']
    w = mc.transfer_spectrum(dense)[0]
    if (len(w) > 1 and abs(w[1]) > 0.9 * abs(w[0])) or abs(w[0]) < 1e-8:
        return dict(skip='inf: degenerate/zero (generator)')
    psi.canonical_form()
    L = psi.L
    forms = case['forms']
    psi.convert_form(forms if L > 1 else forms[0])
    allB = all(f == 'B' for f in forms)
    hist = ['kind=inf', 'L=%d' % L, 'forms=' + ''.join(forms), 'shift=%d' % case['shift']]
    n = min(2 * L + 1, 5)
    base = [mc.np_theta(psi, i, n) for i in range(0, 2 * L)]   # independent numpy bookkeeping
    dump = mc.dump_mps(psi)
    # --- roll
    s = case['shift']
    p1 = psi.copy()
    p1.roll_mps_unit_cell(s)
    ok = True
    for i in range(0, L):
        got = window(p1, i + s, n)
        if not mc.close(got, base[i], 1e-9):
            oracle.append(('C09.roll_mps_unit_cell' + ('' if allB else '[stored form other than B]'),
                           'shift %d: window at %d differs from the original window at %d: %.3g (forms %s)' % (
                               s, i + s, i, mc.maxerr(got, base[i]), forms)))
            ok = False
            break
    lines.append({'op': 'roll', 'num': 'f', 'mps': dump, 'shift': s})
    expects.append(('mps', mc.stored_tensors(p1), 'C09.model.roll', ok))
    # --- enlarge
    p2 = psi.copy()
    p2.enlarge_mps_unit_cell(case['factor'])
    ok2 = True
    if p2.L != case['factor'] * L:
        oracle.append(('C09.enlarge_mps_unit_cell.L', '%d' % p2.L))
    for i in range(0, 2 * L):
        got = window(p2, i, n)
        if not mc.close(got, base[i], 1e-9):
            oracle.append(('C09.enlarge_mps_unit_cell', 'window at %d differs: %.3g' % (i, mc.maxerr(got, base[i]))))
            ok2 = False
            break
    lines.append({'op': 'enlarge', 'num': 'f', 'mps': dump, 'factor': case['factor']})
    expects.append(('mps', mc.stored_tensors(p2), 'C09.model.enlarge_unit_cell', ok2))
    # --- spatial inversion of the unit cell: window of the mirrored chain = mirrored window
    p3 = psi.copy()
    ok3 = True
    uniform = len(set(psi.chi)) == 1
    try:
        p3.spatial_inversion()
        # sites j of the mirrored chain = site L-1-j; window [i, i+n) of it mirrors the window ending at L-1-i
        for i in range(0, L):
            got = window(p3, i, n)
            j0 = (L - 1 - i) - (n - 1)
            want = mc.np_theta(psi, j0 % L + (0 if j0 >= 0 else 0), n) if j0 >= 0 else mc.np_theta(psi, j0 % L, n)
            want = np.transpose(want, list(range(n + 2))[::-1])
            if not mc.close(got, want, 1e-9):
                oracle.append(('C09.spatial_inversion[infinite bc]',
                               'window at %d of the mirrored iMPS is not the mirrored window: %.3g (chi %r)' % (
                                   i, mc.maxerr(got, want), psi.chi)))
                ok3 = False
                break
    except ValueError as e:
        oracle.append(('C09.spatial_inversion[infinite bc]', 'raises %r (chi %r)' % (str(e).splitlines()[0], psi.chi)))
        ok3 = False
    if ok3:
        lines.append({'op': 'inversion', 'num': 'f', 'mps': dump})
        expects.append(('mps', mc.stored_tensors(p3), 'C09.model.spatial_inversion-infinite', True))

    def compare(outs):
        bad = []
        for (what, want, sig, ok_), out in zip(expects, outs):
            if not ok_:
                continue   # the implementation already failed the oracle on this step: nothing to tie the model to
            if 'error' in out:
                bad.append((sig, 'driver error ' + str(out['error'])[:200]))
                continue
            Bs, Ss, forms_, norm = mc.mps_from_dump(out['mps'])
            wB, wS, wf, wn = want
            if len(Bs) != len(wB):
                bad.append((sig, 'L differs'))
                continue
            for i, (a, b_) in enumerate(zip(Bs, wB)):
                if not mc.close(a, b_, 1e-12):
                    bad.append((sig, 'site %d tensor differs: %.3g' % (i, mc.maxerr(a, b_))))
                    break
            if [mc.form_half(f) for f in wf] != forms_:
                bad.append((sig, 'forms %r vs model %r' % (wf, forms_)))
            for i, (a, b_) in enumerate(zip(Ss, wS)):
                if not mc.close(a.real, b_, 1e-12):
                    bad.append((sig, 'bond %d singular values differ' % i))
                    break
        return bad

    return dict(oracle=oracle, lines=lines, compare=compare, nontrivial=True, hist=hist)


ANCHOR_COVERAGE_NOTE = ("coverage round 2026-09-26 (measured outside the check, quick tier seed 0, coverage --branch on tenpy/networks/mps.py): this property's quick tier 36.9% -> 51.4% (lines 40.0% -> 54.3%, branches 29.4% -> 44.2%); C07+C08+C09 together 57.5% -> 83.5% (lines 61.2% -> 85.5%, branches 48.5% -> 78.6%). 14 extra mechanisms with dense oracles in harness/mps_extra.py (C09_SUBS); see notes/C09.md 'Coverage round'.")


def run(ctx):
    res = core.Result()
    res.extra['anchor_coverage_note'] = ANCHOR_COVERAGE_NOTE
    rng = ctx.sub_rng('cases')
    n = 200 if ctx.quick else 5000
    cases = [c for c in corpus_cases() if c.get('kind') != 'ext'] + gen_cases(rng, n, ctx.quick)
    xr = ctx.sub_rng('extra')
    cases += mx.gen_extras(xr, mx.C09_SUBS, 75 if ctx.quick else 1125)
    results, derrs = mc.run_cases(ctx, PROP, 'harness.C09', 'eval_case', cases,
                                  budget_s=ctx.budget_s * 0.65 if not ctx.quick else None)
    # extension part: newly modelled code (own PRNG stream, own driver)
    er = ctx.sub_rng('ext')
    ecases = [c for c in corpus_cases() if c.get('kind') == 'ext'] + cx.gen_cases(er, 150 if ctx.quick else 3000, ctx.quick)
    eres, ederrs = mc.run_cases(ctx, PROP, 'harness.c09_ext', 'eval_ext', ecases, driver='C09ext',
                                budget_s=ctx.budget_s * 0.2 if not ctx.quick else None)
    res.extra['ext_cases'] = len(eres)
    return mc.fold_results(res, results + eres, derrs + ederrs, PROP)


def corpus_cases():
    import json
    d = core.CORPUS_DIR / PROP
    return [json.loads(f.read_text()) for f in sorted(d.glob('*.json'))] if d.exists() else []


def eval_oracle_only(case):
    ev = eval_case(case)
    ev.pop('lines', None)
    ev.pop('compare', None)
    return ev


def search(ctx, reasons):
    res = core.Result()
    rng = ctx.sub_rng('search')
    cases = [c for c in corpus_cases() if c.get('kind') != 'ext'] + gen_cases(rng, 300 if ctx.quick else 4000, ctx.quick)
    results, _ = mc.run_cases(ctx, PROP, 'harness.C09', 'eval_oracle_only', cases)
    eres, _ = mc.run_cases(ctx, PROP, 'harness.c09_ext', 'eval_ext_oracle_only',
                           cx.gen_cases(ctx.sub_rng('search-ext'), 200 if ctx.quick else 3000, ctx.quick))
    for r in results + eres:
        if r['skip']:
            continue
        res.note_case(r['case'], r['nontrivial'])
        for sig, detail in r['oracle']:
            res.fail('property', sig, detail, r['case'])
    return res


def replay(ctx, payload):
    res = core.Result()
    case = payload.get('case') or {}
    if not case:
        return run(ctx)
    results, derrs = mc.run_cases(ctx, PROP, 'harness.C09', 'eval_case', [case], procs=1,
                                  driver='C09ext' if case.get('kind') == 'ext' else 'C07')
    return mc.fold_results(res, results, derrs, PROP)
