"""Worker of the C04 extension part: runs the REAL paired helpers / the real `tools.optimization` functions on a list of
cases in this interpreter (one kernel configuration per interpreter, see vlib/twoconf.py).

usage: python -m harness.c04_ext_worker cases.json out.json
out:   {"meta": {"have_cython": bool}, "results": [ {...} per case ]}
"""
import gc
import inspect
import json
import os
import sys
import types
import warnings

import numpy as np


def err_class(e):
    for cls, name in [(IndexError, 'IndexError'), (KeyError, 'KeyError'), (ValueError, 'ValueError'),
                      (AssertionError, 'Assertion'), (TypeError, 'TypeError')]:
        if isinstance(e, cls):
            return name
    return 'Other:' + type(e).__name__


def isolated(fn):
    """run fn() in a forked child (a heap-corrupting call must not take the worker down)"""
    r, w = os.pipe()
    pid = os.fork()
    if pid == 0:
        try:
            os.close(r)
            out = fn()
            # provoke the allocator: a corrupted heap usually aborts here rather than later
            junk = [np.empty(k % 7, np.intp) for k in range(200)]
            del junk
            gc.collect()
            os.write(w, json.dumps(out).encode())
            os.close(w)
        finally:
            os._exit(0)
    os.close(w)
    data = b''
    while True:
        chunk = os.read(r, 65536)
        if not chunk:
            break
        data += chunk
    os.close(r)
    _, status = os.waitpid(pid, 0)
    if os.WIFSIGNALED(status):
        return {'crash': os.WTERMSIG(status)}
    if not data:
        return {'crash': -1}
    return json.loads(data.decode())


def layout(a, how):
    """the same values in another memory layout"""
    if how == 'F':
        return np.asfortranarray(a)
    if how == 'strided' and a.ndim == 2:
        big = np.zeros((a.shape[0], 2 * a.shape[1] + 1), a.dtype)
        big[:, ::2][:, :a.shape[1]] = a
        return big[:, ::2][:, :a.shape[1]]
    return np.ascontiguousarray(a)


def charges_arg(arg, qnumber):
    k = arg['k']
    if k == 'none':
        return None
    if k == 'd0':
        return arg['x']
    if k == 'd1':
        return list(arg['row']) if arg.get('as', 'list') == 'list' else np.array(arg['row'], dtype=np.int64)
    if k == 'd2':
        a = np.zeros((len(arg['rows']), arg['ncols']), dtype=np.int64)
        for i, r in enumerate(arg['rows']):
            a[i, :] = r
        return a if arg.get('as', 'ndarray') == 'ndarray' else a.tolist()
    if k == 'dn':
        return np.zeros((1,) * (arg['ndim'] - 1) + (qnumber,), dtype=np.int64)
    raise ValueError(k)


def charges_res(r):
    r = np.asarray(r)
    if r.ndim == 1:
        return {'d1': [int(x) for x in r]}
    if r.ndim == 2:
        return {'d2': [[int(x) for x in row] for row in r], 'ncols': int(r.shape[1])}
    return {'other_ndim': int(r.ndim)}


DTYPES = {'f8': np.float64, 'c16': np.complex128, 'i8': np.int64, 'f4': np.float32, 'c8': np.complex64}


def encode(vals, shape, dt):
    a = np.array(vals, dtype=np.int64).reshape(shape)
    if dt in ('c16', 'c8'):
        return np.array(a + 2j * a, dtype=DTYPES[dt]).reshape(shape)      # (0-d arithmetic yields scalars)
    return np.array(a, dtype=DTYPES[dt]).reshape(shape)


def decode(a, dt):
    if dt in ('c16', 'c8'):
        re, im = np.real(a), np.imag(a)
        if not np.array_equal(im, 2 * re):
            return {'garbage': 'imaginary part is not twice the real part'}
        a = re
    r = np.rint(a)
    if not np.array_equal(r, a):
        return {'garbage': 'non-integer entries'}
    return {'vals': [int(x) for x in r.reshape(-1)]}


class UserErr(ValueError):
    pass


def run_level_prog(opt, node, log, withs):
    k = node['k']
    if k == 'skip':
        return
    if k == 'set':
        opt.set_level(node['a'])
    elif k == 'probe':
        log.append([int(opt.get_level()), bool(opt.optimize(opt.OptimizationFlag(node['cmp'])))])
    elif k == 'raise':
        raise UserErr('user')
    elif k == 'seq':
        run_level_prog(opt, node['p'], log, withs)
        run_level_prog(opt, node['q'], log, withs)
    elif k == 'with':
        before = int(opt.get_level())
        entered = False
        try:
            with opt.temporary_level(node['a']):
                entered = True
                run_level_prog(opt, node['body'], log, withs)
        finally:
            withs.append([before, int(opt.get_level()), entered])
    else:
        raise ValueError(k)


def run_select(opt, case):
    import tenpy.linalg as tl
    modname = 'tenpy.linalg._npc_helper'
    missing = object()
    saved = (opt.have_cython_functions, opt._npc_helper_module, opt.compiled_with_MKL, sys.modules.get(modname, missing),
             getattr(tl, '_npc_helper', missing), os.environ.get('TENPY_NO_CYTHON'), opt.get_level())
    results = []
    objs = {}
    try:
        opt.have_cython_functions = None
        opt._npc_helper_module = None
        opt.set_level(case['level0'])
        for call in case['calls']:
            if 'set_level' in call:
                try:
                    opt.set_level(call['set_level'])
                except (ValueError, KeyError):
                    pass
                continue
            env = call['env']
            if env['import_ok']:
                fake = types.ModuleType(modname)
                fake.compiled_with_MKL = False
                for name, doc in env['table']:
                    def fast(*a, **k):
                        return None
                    fast.__name__ = name
                    fast.__doc__ = None if doc is None else '\n'.join(doc)
                    setattr(fake, name, fast)
                    objs[id(fast)] = (name, fast)      # keeps the object alive: ids stay unique over the session
                sys.modules[modname] = fake
                setattr(tl, '_npc_helper', fake)
            else:
                sys.modules[modname] = None
                if hasattr(tl, '_npc_helper'):
                    delattr(tl, '_npc_helper')
            os.environ['TENPY_NO_CYTHON'] = env['no_cython']

            def func(*a, **k):
                return None
            func.__name__ = call['name']
            func.__doc__ = None if call['doc'] is None else '\n'.join(call['doc'])
            rec = {}
            with warnings.catch_warnings(record=True) as wlist:
                warnings.simplefilter('always')
                try:
                    if call.get('style') == 'decorator-factory':
                        r = opt.use_cython(replacement=call['replacement'], check_doc=call['check_doc'])(func)
                    else:
                        r = opt.use_cython(func, call['replacement'], call['check_doc'])
                    if r is func:
                        rec['sel'] = 'py'
                    elif id(r) in objs:
                        rec['sel'], rec['name'] = 'cy', objs[id(r)][0]
                        # the object must come from the module imported at the FIRST decoration
                        rec['from_first_module'] = getattr(opt._npc_helper_module, objs[id(r)][0], None) is r
                    else:
                        rec['sel'] = 'unknown-object'
                except Exception as e:
                    rec['err'] = err_class(e)
            rec['warned'] = any('compiled cython' in str(w.message) for w in wlist)
            rec['have_after'] = opt.have_cython_functions
            results.append(rec)
        return {'results': results, 'have': opt.have_cython_functions, 'level': int(opt.get_level())}
    finally:
        opt.have_cython_functions, opt._npc_helper_module, opt.compiled_with_MKL = saved[0], saved[1], saved[2]
        if saved[3] is missing:
            sys.modules.pop(modname, None)
        else:
            sys.modules[modname] = saved[3]
        if saved[4] is missing:
            if hasattr(tl, '_npc_helper'):
                delattr(tl, '_npc_helper')
        else:
            setattr(tl, '_npc_helper', saved[4])
        if saved[5] is None:
            os.environ.pop('TENPY_NO_CYTHON', None)
        else:
            os.environ['TENPY_NO_CYTHON'] = saved[5]
        opt.set_level(saved[6])


def run_case(case, mods):
    opt, ch, npc = mods
    op = case['op']
    if op == 'make_valid':
        ci = ch.ChargeInfo(case['mods'])
        arg = charges_arg(case['arg'], len(case['mods']))
        before = None if not isinstance(arg, np.ndarray) else arg.copy()
        via = case.get('via', 'direct')
        if via == 'direct':
            r = ci.make_valid(arg)
        else:  # through the public constructor: Array.__init__ does `self.qtotal = self.chinfo.make_valid(qtotal)`
            leg = ch.LegCharge.from_qflat(ci, [[0] * len(case['mods'])])
            r = npc.zeros([leg, leg.conj()], qtotal=arg).qtotal
        out = charges_res(r)
        out['dtype'] = np.asarray(r).dtype.str
        out['mutated'] = before is not None and not np.array_equal(before, arg)
        out['aliased'] = isinstance(arg, np.ndarray) and np.shares_memory(r, arg)
        return out
    if op == 'check_valid':
        ci = ch.ChargeInfo(case['mods'])
        a = np.zeros((len(case['rows']), len(case['mods'])), dtype=np.int64)
        for i, r in enumerate(case['rows']):
            a[i, :] = r
        a = layout(a, case.get('layout', 'C'))
        r = ci.check_valid(a)
        return {'bool': bool(r)}
    if op == 'find_row_differences':
        a = np.zeros((len(case['rows']), case['M']), dtype=np.int64)
        for i, r in enumerate(case['rows']):
            a[i, :] = r
        a = layout(a, case.get('layout', 'C'))
        r = ch._find_row_differences(a)
        return {'list': [int(x) for x in r], 'dtype': r.dtype.str}
    if op == 'map_blocks':
        r = ch._map_blocks(np.array(case['sizes'], dtype=np.intp))
        return {'list': [int(x) for x in r], 'dtype': r.dtype.str}
    if op == 'make_stride':
        shape = case['shape']
        shape = {'list': list, 'tuple': tuple, 'ndarray': lambda s: np.array(s, dtype=np.intp)}[case.get('as', 'list')](shape)

        def call():
            try:
                r = ch._make_stride(shape, case['cstyle']) if 'cstyle' in case and case['cstyle'] is not None else ch._make_stride(shape)
                return {'list': [int(x) for x in r], 'dtype': r.dtype.str}
            except Exception as e:
                return {'err': err_class(e)}
        return isolated(call) if len(case['shape']) == 0 else call()
    if op == 'sliced_copy':
        dt = case.get('dtype', 'f8')
        dest = encode(case['dvals'], case['dshape'], dt)
        src = encode(case['svals'], case['sshape'], dt)
        src0 = src.copy()
        db = None if case.get('dbeg') is None else np.array(case['dbeg'], dtype=np.intp)
        sb = None if case.get('sbeg') is None else np.array(case['sbeg'], dtype=np.intp)
        r = ch._sliced_copy(dest, db, src, sb, np.array(case['sl'], dtype=np.intp))
        out = decode(dest, dt)
        out['returned_none'] = r is None
        out['src_changed'] = not np.array_equal(src, src0)
        return out
    if op == 'level_prog':
        old = opt.get_level()
        log, withs = [], []
        try:
            opt.set_level(case['level0'])
            err = None
            try:
                run_level_prog(opt, case['prog'], log, withs)
            except Exception as e:
                err = err_class(e)
            return {'level': int(opt.get_level()), 'err': err, 'log': log, 'withs': withs,
                    'is_flag': isinstance(opt.get_level(), opt.OptimizationFlag)}
        finally:
            opt.set_level(old)
    if op == 'select':
        return run_select(opt, case)
    if op == 'real_selection':
        # the sixteen pairs as selected at import time in THIS configuration
        from tenpy.tools import optimization as o
        pairs = []
        helper = sys.modules.get('tenpy.linalg._npc_helper')
        for owner, attr, repl in case['pairs']:
            obj = {'charges': ch, 'np_conserved': npc, 'ChargeInfo': ch.ChargeInfo, 'LegPipe': ch.LegPipe, 'Array': npc.Array}[owner]
            f = inspect.getattr_static(obj, attr) if isinstance(obj, type) else getattr(obj, attr)
            mod = getattr(f, '__module__', None)
            compiled = helper is not None and getattr(helper, repl, None) is f
            pairs.append([owner, attr, bool(compiled), str(mod)])
        return {'have': bool(o.have_cython_functions), 'pairs': pairs}
    raise ValueError('unknown op ' + str(op))


def main():
    cases = json.loads(open(sys.argv[1]).read())
    import tenpy  # noqa: F401
    from tenpy.tools import optimization as opt
    from tenpy.linalg import charges as ch
    import tenpy.linalg.np_conserved as npc
    opt.set_level(0)
    results = []
    for case in cases:
        try:
            results.append({'res': run_case(case, (opt, ch, npc))})
        except Exception as e:  # the error class is the observation
            results.append({'res': {'err': err_class(e), 'msg': str(e)[:160]}})
    meta = {'have_cython': bool(opt.have_cython_functions), 'numpy': np.__version__}
    with open(sys.argv[2], 'w') as f:
        json.dump({'meta': meta, 'results': results}, f)


if __name__ == '__main__':
    main()
