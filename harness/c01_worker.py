"""Executes tensor *programs* with the REAL tenpy (child process; kernel configuration from the environment)
and evaluates the model-free numpy oracle of property C01 on every step.

usage: python -m harness.c01_worker <cases.json> <out.json>

case    {"operands": [tensor description], "steps": [step], "scalar": "int"|"gint"}
step    {"op": <model operation>, "via": <public route>, "in": [value ids], …parameters}
output  per case {"operands": [tensor dump], "steps": [{"res": {"arr": dump}|{"scalar": x}|{"nat": n}|
                  {"error": class}|{"skipped": True}, "extra": {...}, "ins": [_qdata_sorted of the inputs after the
                  step], "oracle": [[signature, detail]], "dtype": str}], "entered": [kernel functions entered]}

The same `Executor` is used by the parent process to type programs while generating them.
"""
import json
import sys
import warnings

import numpy as np

warnings.simplefilter('ignore')

PAIRED = ['make_valid', 'check_valid', '_init_from_legs', '_find_row_differences', '_map_blocks', '_sliced_copy',
          '_make_stride', 'itranspose', 'iadd_prefactor_other', 'iscale_prefactor', '_imake_contiguous',
          '_combine_legs_worker', '_split_legs_worker', '_tensordot_transpose_axes', '_tensordot_worker',
          '_inner_worker']


class Skip(Exception):
    pass


def err_class(e):
    for cls, name in [(IndexError, 'IndexError'), (KeyError, 'KeyError'), (ValueError, 'ValueError'),
                      (AssertionError, 'Assertion'), (TypeError, 'TypeError')]:
        if isinstance(e, cls):
            return name
    return 'Other:' + type(e).__name__


# ------------------------------------------------------------------------------------------------
# documented label rules, written independently of the implementation and of the Lean model


def split_top(s):
    """split 'a.b.(c.d)' at top-level dots"""
    parts, depth, cur = [], 0, ''
    for ch in s:
        if ch == '(':
            depth += 1
        elif ch == ')':
            depth -= 1
        if ch == '.' and depth == 0:
            parts.append(cur)
            cur = ''
        else:
            cur += ch
    parts.append(cur)
    return parts


def doc_conj_label(l):
    if l is None:
        return None
    if l.startswith('(') and l.endswith(')'):
        return '(' + '.'.join(doc_conj_label(p) for p in split_top(l[1:-1])) + ')'
    return l[:-1] if l.endswith('*') else l + '*'


def doc_drop_dup(la, lb):
    la, lb = list(la), list(lb)
    both = {l for l in la if l is not None and l in lb}
    return [None if l in both else l for l in la] + [None if l in both else l for l in lb]


def doc_combine_labels(labels, cl, new_axes):
    """labels of combine_legs as documented: inherited; pipes '(a.b)', anonymous legs '?#' inside pipe labels"""
    rank = len(labels)
    allc = [x for c in cl for x in c]
    non = [i for i in range(rank) if i not in allc]
    res = [labels[i] for i in non]
    for na, c in sorted(zip(new_axes, cl)):
        res.insert(na, '(' + '.'.join(labels[x] if labels[x] is not None else '?%d' % x for x in c) + ')')
    return res


# ------------------------------------------------------------------------------------------------


class Executor:
    def __init__(self):
        import tenpy  # noqa: F401
        from tenpy.tools import optimization
        from tenpy.linalg import charges, np_conserved
        from vlib import arrio, npcio
        optimization.set_level(0)
        self.npc, self.ch, self.io, self.nio, self.opt = np_conserved, charges, arrio, npcio, optimization
        self.entered = set()

    # ---- kernel-function entry counters (wrapping the python-visible attributes in either configuration)
    def install_counters(self):
        npc, ch = self.npc, self.ch
        ent = self.entered

        def wrap(owner, name, key):
            orig = getattr(owner, name, None)
            if orig is None:
                return

            def counted(*a, **k):
                ent.add(key)
                return orig(*a, **k)
            counted.__name__ = getattr(orig, '__name__', name)
            counted.__doc__ = getattr(orig, '__doc__', None)
            setattr(owner, name, counted)
        for name in ['make_valid', 'check_valid']:
            wrap(ch.ChargeInfo, name, name)
        wrap(ch.LegPipe, '_init_from_legs', '_init_from_legs')
        for name in ['_find_row_differences', '_map_blocks', '_sliced_copy', '_make_stride']:
            wrap(ch, name, name)
        for name in ['itranspose', 'iadd_prefactor_other', 'iscale_prefactor', '_imake_contiguous']:
            wrap(npc.Array, name, name)
        for name in ['_combine_legs_worker', '_split_legs_worker', '_tensordot_transpose_axes', '_tensordot_worker',
                     '_inner_worker']:
            wrap(npc, name, name)

    # ---- helpers
    def dense(self, v):
        return v.to_ndarray() if isinstance(v, self.npc.Array) else v

    def phys(self, leg):
        return self.nio.phys_qflat(leg)

    def scalar(self, st, key, dtype=None):
        v = st[key]
        return complex(v[0], v[1]) if isinstance(v, list) else v

    # ---- auxiliary objects of a step (fresh legs, given pipes): built once, dumped "as constructed"
    def build_aux(self, vals, st):
        built, dumps = {}, {}
        try:
            if 'legs' in st and st['op'] in ('from_ndarray', 'zeros'):
                built['legs'] = [self.io.make_aleg(l, st.get('names')) for l in st['legs']]
                dumps['legs'] = [self.io.dump_aleg(l) for l in built['legs']]
            if st['op'] == 'combine_legs' and st.get('pipes') is not None:
                built['pipes'] = [None if p is None else self.given_pipe(vals, p) for p in st['pipes']]
                dumps['pipes'] = [None if p is None else self.io.dump_aleg(p) for p in built['pipes']]
        except Exception as e:
            dumps['error'] = err_class(e)
            built['_exc'] = e
        return built, dumps

    # ---- one step on real objects; returns (result, extra)
    def run(self, vals, st, built=None):
        npc = self.npc
        if built is None:
            built, _ = self.build_aux(vals, st)
        if '_exc' in built:
            raise built['_exc']
        op, via = st['op'], st.get('via')
        ins = [vals[i] for i in st.get('in', [])]
        if any(not isinstance(x, npc.Array) for x in ins):
            raise Skip()
        a = ins[0] if ins else None
        b = ins[1] if len(ins) > 1 else None
        extra = {}
        if op == 'from_ndarray':
            legs = built['legs']
            flat = self.io.dec_flat(st['dense']['vals'], st['dense']['shape'], st.get('dtype', 'float64'))
            return npc.Array.from_ndarray(flat, legs, dtype=np.dtype(st.get('dtype', 'float64')), qtotal=st.get('qtotal'),
                                          labels=st.get('labels')), extra
        if op == 'zeros':
            legs = built['legs']
            return npc.zeros(legs, np.dtype(st.get('dtype', 'float64')), st.get('qtotal'), st.get('labels')), extra
        if op == 'copy':
            return a.copy(deep=st.get('deep', True)), extra
        if op == 'zeros_like':
            return a.zeros_like(), extra
        if op == 'transpose':
            if via == 'itranspose':
                r = a.copy(deep=True)
                r.itranspose(st.get('axes'))
                return r, extra
            return a.transpose(st.get('axes')), extra
        if op == 'iswapaxes':
            r = a.copy(deep=True)
            return r.iswapaxes(st['ax1'], st['ax2']), extra
        if op == 'conj':
            if via == 'iconj':
                return a.copy(deep=True).iconj(), extra
            return a.conj(), extra
        if op == 'complex_conj':
            return a.complex_conj(), extra
        if op == 'neg':
            return -a, extra
        if op == 'scale':
            s = self.scalar(st, 's')
            if via == '__rmul__':
                return s * a, extra
            if via == 'imul':
                r = a.copy(deep=True)
                r *= s
                return r, extra
            if via == 'iscale_prefactor':
                return a.copy(deep=True).iscale_prefactor(s), extra
            return a * s, extra
        if op == 'isort_qdata':
            r = a.copy(deep=True)
            r.isort_qdata()
            return r, extra
        if op == 'iadd_prefactor_other':
            p = self.scalar(st, 'p')
            if via == '__add__':
                return a + b, extra
            if via == '__sub__':
                return a - b, extra
            r = a.copy(deep=True)
            if via == 'iadd':
                r += b
                return r, extra
            if via == 'isub':
                r -= b
                return r, extra
            return r.iadd_prefactor_other(p, b), extra
        if op == 'binary_blockwise':
            f = {'add': np.add, 'sub': np.subtract, 'mul': np.multiply}[st['f']]
            if via == 'ibinary_blockwise':
                return a.copy(deep=True).ibinary_blockwise(f, b), extra
            return a.binary_blockwise(f, b), extra
        if op == 'take_slice':
            idx, axes = st['indices'], st['axes']
            if via == 'scalar_args' and len(idx) == 1:
                return a.take_slice(idx[0], axes[0]), extra
            return a.take_slice(idx, axes), extra
        if op == 'add_trivial_leg':
            return a.add_trivial_leg(st['axis'], st.get('label'), st['qconj']), extra
        if op == 'squeeze':
            return a.squeeze(st.get('axes')), extra
        if op == 'getitem_int':
            return a[tuple(st['inds'])], extra
        if op == 'scale_axis':
            s = np.array([self.io.dec(v) for v in st['s']])
            if via == 'iscale_axis':
                return a.copy(deep=True).iscale_axis(s, st['axis']), extra
            return a.scale_axis(s, st['axis']), extra
        if op == 'iproject':
            masks = [np.array(m['b'], dtype=bool) if 'b' in m else np.array(m['i'], dtype=np.intp) for m in st['masks']]
            r = a.copy(deep=True)
            axes = st['axes']
            if via == 'single' and len(axes) == 1 and len(masks) == 1:
                r.iproject(masks[0], axes[0])
            else:
                r.iproject(masks, axes)
            return r, extra
        if op == 'permute':
            return a.permute(st['perm'], st['axis']), extra
        if op == 'sort_legcharge':
            sort, bunch = st['sort'], st['bunch']
            if via == 'bools':
                perms, r = a.sort_legcharge(sort[0], bunch[0])
            else:
                perms, r = a.sort_legcharge(sort, bunch)
            extra['perms'] = [[int(x) for x in p] for p in perms]
            return r, extra
        if op == 'gauge_total_charge':
            return a.gauge_total_charge(st['axis'], st.get('newqtotal'), st.get('new_qconj')), extra
        if op == 'combine_legs':
            cl = st['cl']
            pipes = built.get('pipes')
            qc = st.get('qconj', [None])
            kw = {}
            if st.get('new_axes') is not None:
                kw['new_axes'] = list(st['new_axes'])
            if via == 'single':
                if pipes is not None:
                    kw['pipes'] = pipes[0]
                if 'new_axes' in kw:
                    kw['new_axes'] = kw['new_axes'][0]
                return a.combine_legs(cl[0], qconj=(qc[0] if len(qc) == 1 else qc), **kw), extra
            if pipes is not None:
                kw['pipes'] = pipes
            return a.combine_legs(cl, qconj=(qc[0] if len(qc) == 1 else qc), **kw), extra
        if op == 'split_legs':
            return a.split_legs(st.get('axes')), extra
        if op == 'concatenate':
            if via == 'grid_concat':
                return npc.grid_concat(ins, [st['axis']]), extra
            return npc.concatenate(ins, st['axis']), extra
        if op == 'outer':
            return npc.outer(a, b), extra
        if op == 'inner':
            axes = st['axes']
            if isinstance(axes, list):
                axes = (axes[0], axes[1])
            return npc.inner(a, b, axes=axes, do_conj=st['do_conj']), extra
        if op == 'trace':
            return npc.trace(a, st['l1'], st['l2']), extra
        if op == 'tensordot':
            axes = st['axes']
            if isinstance(axes, list):
                axes = (axes[0], axes[1])
            if via == 'matvec':
                return a.matvec(b), extra
            return npc.tensordot(a, b, axes=axes), extra
        if op == 'norm':
            o = {'0': 0, 'inf': np.inf, '2': None}[st['ord']]
            r = npc.norm(a, o) if via == 'function' else a.norm(o)
            if st['ord'] == '0':
                return ('nat', int(r)), extra
            return ('nat', int(round(float(r) ** 2))), extra
        if op == 'get_leg_index':
            return ('nat', int(a.get_leg_index(st['ax']))), extra
        if op == 'iset_leg_labels':
            return a.copy(deep=True).iset_leg_labels(st['labels']), extra
        if op == 'spec':
            return self.run_spec(vals, st, ins), extra
        raise ValueError('unknown op ' + op)

    def given_pipe(self, vals, p):
        """pipe argument of combine_legs: {"from": [value id, leg index]} (a pipe of an earlier result) or a
        pipe description"""
        if 'from' in p:
            return vals[p['from'][0]].legs[p['from'][1]]
        return self.io.make_aleg(p)

    # ---- operations checked at the dense-specification level only
    def run_spec(self, vals, st, ins):
        npc = self.npc
        kind, what = st['kind'], st['what']
        if what.startswith('cov_'):      # coverage stream: harness/c01_cov.py
            from harness import c01_cov
            return c01_cov.run_cov(self, vals, st, ins)
        a = ins[0]
        if what == 'getitem':
            return a[self.index_tuple(st['inds'])]
        if what == 'setitem':
            r = a.copy(deep=True)
            r[self.index_tuple(st['inds'])] = ins[1]
            return r
        if what == 'setitem_flat':
            r = a.copy(deep=True)
            src = self.io.dec_flat(st['src']['vals'], st['src']['shape'], str(a.dtype))
            r[self.index_tuple(st['inds'])] = src
            return r
        if what == 'ipurge_zeros':
            return a.copy(deep=True).ipurge_zeros(0.0)
        if what == 'astype':
            return a.astype(np.dtype(st['dtype']))
        if what == 'drop_charge':
            return a.drop_charge(st.get('charge'))
        if what == 'change_charge':
            return a.change_charge(st['charge'], st['new_qmod'])
        if what == 'add_charge':
            return a.add_charge([self.io.make_aleg(l) for l in st['add_legs']], qtotal=st.get('qtotal'))
        if what == 'extend':
            return a.extend(st['axis_arg'], self.io.make_aleg(st['extra']) if isinstance(st['extra'], dict) else st['extra'])
        if what == 'add_leg':
            return a.add_leg(self.io.make_aleg(st['leg']), st['i'], st['axis'], st.get('label'))
        if what == 'grid_outer':
            grid = np.empty(st['gshape'], dtype=object)
            flat = [None if t is None else ins[t] for t in st['grid']]
            for k, idx in enumerate(np.ndindex(*st['gshape'])):
                grid[idx] = flat[k]
            return npc.grid_outer(grid, [self.io.make_aleg(l) for l in st['grid_legs']], st.get('qtotal'),
                                  st.get('grid_labels'))
        if what == 'as_completely_blocked':
            return a.as_completely_blocked()[1]
        raise ValueError('unknown spec op ' + what)

    @staticmethod
    def index_tuple(inds):
        out = []
        for i in inds:
            if isinstance(i, dict):
                if 'slice' in i:
                    out.append(slice(*i['slice']))
                elif 'mask' in i:
                    out.append(np.array(i['mask'], dtype=bool))
                else:
                    out.append(np.array(i['ints'], dtype=np.intp))
            else:
                out.append(i)
        return tuple(out)

    # ---- numpy oracle: expected dense result (and documented labels) from the dense forms of the inputs
    def expected(self, st, ins, dens, res, extra):
        """returns (expected dense | scalar | None, expected labels | None, expected phys charges per leg | None)"""
        npc = self.npc
        op = st['op']
        a = ins[0] if ins else None
        b = ins[1] if len(ins) > 1 else None
        A = dens[0] if dens else None
        B = dens[1] if len(dens) > 1 else None
        la = list(a._labels) if a is not None else None
        lb = list(b._labels) if b is not None else None

        def ax(arr, x):  # independent axis resolution
            if isinstance(x, str):
                return arr._labels.index(x)
            return x + arr.rank if x < 0 else x

        def legs_phys(arr):
            return [self.phys(l) for l in arr.legs]

        if op == 'from_ndarray':
            d = self.io.dec_flat(st['dense']['vals'], st['dense']['shape'], st.get('dtype', 'float64'))
            return d, st.get('labels') or [None] * d.ndim, None
        if op == 'zeros':
            legs = [self.io.make_aleg(l) for l in st['legs']]
            return np.zeros([l.ind_len for l in legs]), st.get('labels') or [None] * len(legs), None
        if op in ('copy', 'isort_qdata'):
            return A, la, legs_phys(a)
        if op == 'zeros_like':
            return np.zeros_like(A), la, legs_phys(a)
        if op == 'transpose':
            axes = st.get('axes')
            perm = list(reversed(range(a.rank))) if axes is None else [ax(a, x) for x in axes]
            ph = legs_phys(a)
            return np.transpose(A, perm), [la[i] for i in perm], [ph[i] for i in perm]
        if op == 'iswapaxes':
            i, j = ax(a, st['ax1']), ax(a, st['ax2'])
            perm = list(range(a.rank))
            perm[i], perm[j] = perm[j], perm[i]
            ph = legs_phys(a)
            return np.swapaxes(A, i, j), [la[k] for k in perm], [ph[k] for k in perm]
        if op == 'conj':
            ci = a.chinfo
            neg = [[[int(x) for x in ci.make_valid(-np.array(c))] for c in p] if ci.qnumber else p for p in legs_phys(a)]
            return np.conj(A), [doc_conj_label(l) for l in la], neg
        if op == 'complex_conj':
            return np.conj(A), la, legs_phys(a)
        if op == 'neg':
            return -A, la, legs_phys(a)
        if op == 'scale':
            return A * self.scalar(st, 's'), la, legs_phys(a)
        if op in ('iadd_prefactor_other', 'binary_blockwise'):
            # documented: same labels in different order -> other is transposed first
            Bt = B
            if la != lb and None not in la and None not in lb and set(la) == set(lb):
                Bt = np.transpose(B, [lb.index(l) for l in la])
            if op == 'iadd_prefactor_other':
                p = self.scalar(st, 'p')
                via = st.get('via')
                if via in ('__add__', 'iadd'):
                    p = 1
                elif via in ('__sub__', 'isub'):
                    p = -1
                return A + p * Bt, la, legs_phys(a)
            f = {'add': np.add, 'sub': np.subtract, 'mul': np.multiply}[st['f']]
            return f(A, Bt), la, legs_phys(a)
        if op == 'take_slice':
            axes = [ax(a, x) for x in st['axes']]
            sl = [slice(None)] * a.rank
            for x, i in zip(axes, st['indices']):
                sl[x] = i
            keep = [k for k in range(a.rank) if k not in axes]
            ph = legs_phys(a)
            return A[tuple(sl)], [la[k] for k in keep], [ph[k] for k in keep]
        if op == 'add_trivial_leg':
            k = st['axis'] + a.rank if st['axis'] < 0 else st['axis']
            ph = legs_phys(a)
            z = [[0] * a.chinfo.qnumber]
            return np.expand_dims(A, k), la[:k] + [st.get('label')] + la[k:], ph[:k] + [z] + ph[k:]
        if op == 'squeeze':
            axes = st.get('axes')
            axs = [k for k in range(a.rank) if A.shape[k] == 1] if axes is None else [ax(a, x) for x in axes]
            keep = [k for k in range(a.rank) if k not in axs]
            r = np.squeeze(A, axis=tuple(axs))
            if not keep:
                return r[()], None, None
            return r, [la[k] for k in keep], None
        if op == 'getitem_int':
            n = len(st['inds'])
            if n < a.rank:      # fewer integers than legs: the sub-tensor; remaining legs keep labels and charges
                return A[tuple(st['inds'])], la[n:], legs_phys(a)[n:]
            return A[tuple(st['inds'])], None, None
        if op == 'scale_axis':
            k = ax(a, st['axis'])
            s = np.array([self.io.dec(v) for v in st['s']])
            shp = [1] * a.rank
            shp[k] = len(s)
            return A * s.reshape(shp), la, legs_phys(a)
        if op == 'iproject':
            r = A
            ph = legs_phys(a)
            for m, x in zip(st['masks'], st['axes']):
                k = ax(a, x)
                if 'b' in m:
                    mask = np.array(m['b'], dtype=bool)
                else:
                    mask = np.zeros(A.shape[k], dtype=bool)
                    mask[np.array(m['i'], dtype=int)] = True
                r = np.compress(mask, r, axis=k)
                ph[k] = [c for c, keepit in zip(ph[k], mask) if keepit]
            return r, la, ph
        if op == 'permute':
            k = ax(a, st['axis'])
            ph = legs_phys(a)
            ph[k] = [ph[k][i] for i in st['perm']]
            return np.take(A, st['perm'], axis=k), la, ph
        if op == 'sort_legcharge':
            perms = extra.get('perms')
            ph = legs_phys(a)
            return A[np.ix_(*perms)], la, [[p[i] for i in pm] for p, pm in zip(ph, perms)]
        if op == 'gauge_total_charge':
            return A, la, None
        if op == 'combine_legs':
            cl = [[ax(a, x) for x in c] for c in st['cl']]
            allc = [x for c in cl for x in c]
            non = [i for i in range(a.rank) if i not in allc]
            na = st.get('new_axes')
            new_rank = len(non) + len(cl)
            if na is None:
                first = [c[0] for c in cl]
                na = [sum(1 for x in non if x < f) + sum(1 for x in first if x < f) for f in first]
            na = [x + new_rank if x < 0 else x for x in na]
            order = [(False, [x]) for x in non]
            for n_, c in sorted(zip(na, cl)):
                order.insert(n_, (True, list(c)))
            comb = [f for f, _ in order]
            order = [c for _, c in order]
            transp = [x for c in order for x in c]
            T = np.transpose(A, transp)
            # entries are placed through map_incoming_flat of the result's pipes
            exp = np.zeros(res.shape, dtype=A.dtype)
            if A.size:
                groups = [len(c) for c in order]
                import itertools
                for idx in itertools.product(*[range(s) for s in T.shape]):
                    out, pos = [], 0
                    for g, leg, is_comb in zip(groups, res.legs, comb):
                        sub = idx[pos:pos + g]
                        pos += g
                        if not is_comb:
                            out.append(sub[0])
                        else:
                            out.append(int(leg.map_incoming_flat(list(sub))))
                    exp[tuple(out)] = T[idx]
            return exp, doc_combine_labels(la, cl, na), None
        if op == 'split_legs':
            axes = st.get('axes')
            axs = [k for k, l in enumerate(a.legs) if isinstance(l, npc.LegPipe)] if axes is None \
                else sorted(ax(a, x) for x in axes)
            shape = []
            for k, l in enumerate(a.legs):
                shape += list(l.subshape) if k in axs else [l.ind_len]
            exp = np.zeros(shape, dtype=A.dtype)
            if A.size:
                import itertools
                for idx in itertools.product(*[range(s) for s in shape]):
                    src, pos = [], 0
                    for k, l in enumerate(a.legs):
                        if k in axs:
                            src.append(int(l.map_incoming_flat(list(idx[pos:pos + l.nlegs]))))
                            pos += l.nlegs
                        else:
                            src.append(idx[pos])
                            pos += 1
                    exp[idx] = A[tuple(src)]
            labels = []
            for k, l in enumerate(a.legs):
                if k in axs:
                    lab = la[k]
                    if lab is None or not (lab.startswith('(') and lab.endswith(')')):
                        labels += [None] * l.nlegs
                    else:
                        labels += [None if p.startswith('?') else p for p in split_top(lab[1:-1])]
                else:
                    labels.append(la[k])
            return exp, labels, None
        if op == 'concatenate':
            k = ax(a, st['axis'])
            return np.concatenate(dens, axis=k), la, None
        if op == 'outer':
            return np.multiply.outer(A, B), doc_drop_dup(la, lb), legs_phys(a) + legs_phys(b)
        if op == 'inner':
            axes = st['axes']
            Ac = np.conj(A) if st['do_conj'] else A
            if axes == 'range':
                return np.sum(Ac * B), None, None
            if axes == 'labels':
                lab_b = la if st['do_conj'] else [doc_conj_label(l) for l in la]
                axb = [lb.index(l) for l in lab_b]
                return np.tensordot(Ac, B, axes=(list(range(a.rank)), axb)), None, None
            return np.tensordot(Ac, B, axes=([ax(a, x) for x in axes[0]], [ax(b, x) for x in axes[1]])), None, None
        if op == 'trace':
            i, j = ax(a, st['l1']), ax(a, st['l2'])
            keep = [k for k in range(a.rank) if k not in (i, j)]
            r = np.trace(A, axis1=i, axis2=j)
            if not keep:
                return r, None, None
            ph = legs_phys(a)
            return r, [la[k] for k in keep], [ph[k] for k in keep]
        if op == 'tensordot':
            axes = st['axes']
            if isinstance(axes, list):
                ia, ib = [ax(a, x) for x in axes[0]], [ax(b, x) for x in axes[1]]
            else:
                ia, ib = list(range(a.rank - axes, a.rank)), list(range(axes))
            r = np.tensordot(A, B, axes=(ia, ib))
            ka = [k for k in range(a.rank) if k not in ia]
            kb = [k for k in range(b.rank) if k not in ib]
            if not ka and not kb:
                return r[()], None, None
            pa, pb = legs_phys(a), legs_phys(b)
            return r, doc_drop_dup([la[k] for k in ka], [lb[k] for k in kb]), [pa[k] for k in ka] + [pb[k] for k in kb]
        if op == 'norm':
            flat = A.reshape(-1)
            if st['ord'] == '0':
                return ('nat', int(np.count_nonzero(flat))), None, None
            if st['ord'] == 'inf':
                return ('nat', int(round(float(np.max(np.abs(flat)) if flat.size else 0.) ** 2))), None, None
            return ('nat', int(round(float(np.sum(np.abs(flat) ** 2))))), None, None
        if op == 'get_leg_index':
            return None, None, None
        if op == 'iset_leg_labels':
            return A, list(st['labels']), legs_phys(a)
        if op == 'spec':
            return self.expected_spec(st, ins, dens, res), None, None
        return None, None, None

    def expected_spec(self, st, ins, dens, res):
        what = st['what']
        A = dens[0]
        if what == 'getitem':
            ix, drop = self.np_index(st['inds'], A.shape)
            r = np.squeeze(A[ix], axis=drop)
            return r if r.ndim else r[()]
        if what in ('setitem', 'setitem_flat'):
            ix, drop = self.np_index(st['inds'], A.shape)
            src = dens[1] if what == 'setitem' else self.io.dec_flat(st['src']['vals'], st['src']['shape'], str(A.dtype))
            r = A.copy()
            r[ix] = np.asarray(src).reshape(r[ix].shape)
            return r
        if what in ('ipurge_zeros', 'astype', 'drop_charge', 'change_charge', 'add_charge', 'as_completely_blocked'):
            if what == 'as_completely_blocked':
                return None  # covered through combine_legs; legs are pipes here
            return A
        if what == 'extend':
            k = st['axis']
            pad = list(A.shape)
            pad[k] = st['n']
            return np.concatenate([A, np.zeros(pad, dtype=A.dtype)], axis=k)
        if what == 'add_leg':
            k, n, i = st['axis'], st['n'], st['i']
            shp = list(A.shape)
            shp.insert(k, n)
            r = np.zeros(shp, dtype=A.dtype)
            sl = [slice(None)] * len(shp)
            sl[k] = i
            r[tuple(sl)] = A
            return r
        if what == 'grid_outer':
            gs = st['gshape']
            r = np.zeros(list(gs) + list(dens[0].shape), dtype=np.result_type(*[d.dtype for d in dens]))
            for k, idx in enumerate(np.ndindex(*gs)):
                t = st['grid'][k]
                if t is not None:
                    r[idx] = dens[t]
            return r
        return None

    @staticmethod
    def np_index(inds, shape):
        """numpy orthogonal indexing equivalent of the documented Array.__getitem__ semantics"""
        lists, drop = [], []
        full = list(inds) + [{'slice': [None, None, None]}] * (len(shape) - len(inds))
        for k, (i, n) in enumerate(zip(full, shape)):
            if isinstance(i, dict):
                if 'slice' in i:
                    lists.append(list(range(n))[slice(*i['slice'])])
                elif 'mask' in i:
                    lists.append([j for j, m in enumerate(i['mask']) if m])
                else:
                    lists.append([j + n if j < 0 else j for j in i['ints']])
            else:
                lists.append([i + n if i < 0 else i])
                drop.append(k)
        ix = np.ix_(*[np.array(l, dtype=int) for l in lists])
        return ix, tuple(drop)

    # ---- run a whole case
    def run_case(self, case, observe=True):
        npc, io = self.npc, self.io
        self.entered.clear()
        io.set_default_names(case.get('names'))
        out = dict(operands=[], steps=[])
        vals = []
        for d in case['operands']:
            a = io.make_array(d)
            vals.append(a)
            out['operands'].append(io.dump_array(a))
        for st in case['steps']:
            rec = dict(oracle=[])
            ins = [vals[i] for i in st.get('in', [])]
            try:
                dens = [x.to_ndarray().copy() for x in ins if isinstance(x, npc.Array)]
            except Exception:
                dens = []
            built, dumps = self.build_aux(vals, st)
            if dumps:
                rec['built'] = dumps
            fp_before = [self.fingerprint(x) for x in ins]
            if self.risky(ins):
                sig = self.probe_in_child(vals, st, built)
                if sig is not None:
                    rec['res'] = {'error': 'Crash:signal%d' % sig, 'msg': 'interpreter killed by signal %d' % sig}
                    rec['oracle'].append([f'c01.{self.opname(st)}.interpreter-crash',
                                          f'the interpreter dies with signal {sig} (inputs contain a block of size 0)'])
                    vals.append(None)
                    rec['ins'] = [bool(x._qdata_sorted) if isinstance(x, npc.Array) else None for x in ins]
                    out['steps'].append(rec)
                    continue
            try:
                res, extra = self.run(vals, st, built)
            except Skip:
                rec['res'] = {'skipped': True}
                vals.append(None)
                out['steps'].append(rec)
                continue
            except Exception as e:
                rec['res'] = {'error': err_class(e), 'msg': str(e)[:200]}
                vals.append(None)
                rec['ins'] = [bool(x._qdata_sorted) if isinstance(x, npc.Array) else None for x in ins]
                if not st.get('malformed') and len(dens) == len(ins) and st['op'] not in ('combine_legs', 'split_legs',
                                                                                          'sort_legcharge'):
                    try:  # does numpy accept the same call on the dense operands?
                        exp, _, _ = self.expected(st, ins, dens, None, {})
                        rec['numpy_accepts'] = exp is not None
                    except Exception:
                        rec['numpy_accepts'] = False
                    if st.get('what', '').startswith('cov_'):
                        rec['numpy_accepts'] = True     # valid by construction (harness/c01_cov.py)
                out['steps'].append(rec)
                continue
            vals.append(res if isinstance(res, npc.Array) else None)
            rec['ins'] = [bool(x._qdata_sorted) if isinstance(x, npc.Array) else None for x in ins]
            mutated = [k for k, (x, f) in enumerate(zip(ins, fp_before)) if self.fingerprint(x) != f]
            if mutated:
                rec['mutated_inputs'] = mutated
                rec['oracle'].append([f'c01.{self.opname(st)}.mutates-operand',
                                      f'legs / total charge / dense form of input(s) {mutated} changed during the call'])
            try:
                self.record(rec, st, ins, dens, res, extra)
            except Exception as e:
                import traceback
                rec['crash'] = traceback.format_exc()[-1200:]
            out['steps'].append(rec)
        out['entered'] = sorted(self.entered)
        return out

    def fingerprint(self, x):
        """observable content of a tensor (block order and cached flags excluded)"""
        if not isinstance(x, self.npc.Array):
            return None
        try:
            legs = tuple((l.charges.tobytes(), l.slices.tobytes(), int(l.qconj)) for l in x.legs)
            return (legs, x.qtotal.tobytes(), tuple(x._labels), x.to_ndarray().tobytes())
        except Exception:
            return None

    def risky(self, ins):
        """inputs with a stored block of size 0: known to be able to kill the interpreter (compiled tensordot)"""
        try:
            return any(isinstance(x, self.npc.Array) and any(t.size == 0 for t in x._data) for x in ins)
        except Exception:
            return False

    def probe_in_child(self, vals, st, built):
        """run the step in a forked child; returns the killing signal number, or None if the child survived"""
        import os
        pid = os.fork()
        if pid == 0:
            try:
                try:
                    self.run(vals, st, built)
                except BaseException:
                    pass
            finally:
                os._exit(0)
        _, status = os.waitpid(pid, 0)
        return os.WTERMSIG(status) if os.WIFSIGNALED(status) else None

    def record(self, rec, st, ins, dens, res, extra):
        npc, io = self.npc, self.io
        op = st['op']
        if extra:
            rec['extra'] = extra
        is_spec = op == 'spec'
        # --- what the implementation returned
        if isinstance(res, npc.Array):
            try:
                rec['res'] = {'arr': io.dump_array(res)}
            except ValueError as e:
                rec['res'] = {'arr': None, 'nonint': str(e)}
            rec['dtype'] = str(res.dtype)
            try:
                res.test_sanity()
            except Exception as e:
                rec['oracle'].append([f'c01.{self.opname(st)}.result-fails-test_sanity', f'{type(e).__name__}: {e}'[:300]])
        elif isinstance(res, tuple) and res[0] == 'nat':
            rec['res'] = {'nat': res[1]}
        else:
            rec['res'] = {'scalar': io.enc(res)}
            rec['dtype'] = str(np.asarray(res).dtype)
        # --- numpy oracle
        if len(dens) != len(ins):
            return
        if is_spec and st.get('what', '').startswith('cov_'):
            from harness import c01_cov
            c01_cov.check_cov(self, rec, st, ins, dens, res)
            return
        name = self.opname(st)
        try:
            exp, exp_labels, exp_phys = self.expected(st, ins, dens, res, extra)
        except Exception as e:
            if not st.get('malformed'):
                raise
            # numpy itself rejects these (intentionally malformed) arguments: the property makes no claim
            rec['numpy_rejects'] = f'{type(e).__name__}: {e}'[:200]
            return
        if op == 'get_leg_index':
            r = res[1]
            if not (0 <= r < ins[0].rank):
                rec['oracle'].append([f'c01.{name}.returns-invalid-leg-index', f'rank {ins[0].rank}: returned {r}'])
            return
        if exp is not None:
            if isinstance(res, npc.Array):
                got = res.to_ndarray()
                if not (isinstance(exp, np.ndarray) and got.shape == exp.shape and np.array_equal(got, exp)):
                    rec['oracle'].append([f'c01.{name}.dense-differs-from-numpy',
                                          f'got shape {got.shape} expected {np.shape(exp)}; '
                                          f'first diff {self.first_diff(got, exp)}'])
            elif isinstance(res, tuple):
                if res != exp:
                    rec['oracle'].append([f'c01.{name}.value-differs-from-numpy', f'got {res[1]} expected {exp[1]}'])
            else:
                if isinstance(exp, np.ndarray) and exp.ndim > 0 or not (complex(res) == complex(exp)):
                    rec['oracle'].append([f'c01.{name}.scalar-differs-from-numpy', f'got {res!r} expected {exp!r}'])
        if exp_labels is not None and isinstance(res, npc.Array):
            if list(res._labels) != list(exp_labels):
                rec['oracle'].append([f'c01.{name}.labels-not-as-documented',
                                      f'got {res._labels!r} expected {exp_labels!r}'])
        if exp_phys is not None and isinstance(res, npc.Array):
            got = [self.phys(l) for l in res.legs]
            if got != exp_phys:
                rec['oracle'].append([f'c01.{name}.leg-charges-not-propagated', ''])
        if is_spec and exp is not None and isinstance(exp, np.ndarray):
            rec['spec_dense'] = io.dump_dense(exp)

    @staticmethod
    def opname(st):
        return st['what'] if st['op'] == 'spec' else st['op']

    @staticmethod
    def first_diff(got, exp):
        try:
            if got.shape != np.shape(exp):
                return 'shape'
            d = np.argwhere(got != exp)
            if len(d) == 0:
                return 'none'
            i = tuple(int(x) for x in d[0])
            return f'at {i}: {got[i]!r} vs {exp[i]!r} ({len(d)} entries differ)'
        except Exception:
            return '?'


def main(inp, outp):
    ex = Executor()
    ex.install_counters()
    cases = json.load(open(inp))
    results = []
    for case in cases:
        try:
            results.append(ex.run_case(case))
        except Exception:
            import traceback
            results.append({'crash': traceback.format_exc()[-2000:]})
    import tenpy
    meta = dict(have_cython=bool(ex.opt.have_cython_functions), tenpy_file=tenpy.__file__)
    json.dump(dict(meta=meta, results=results), open(outp, 'w'))


if __name__ == '__main__':
    main(sys.argv[1], sys.argv[2])
