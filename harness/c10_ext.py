"""C10 extension round: MPOGraph -> MPO (`_build_grids`, `_calc_legcharges`, `build_MPO`) and the
representation-changing methods of the MPO (`group_sites`, `enlarge_mps_unit_cell`, `extract_segment`,
`sort_legcharges`): real code vs the Lean model `lean/TenpyModel/C10/Ext{MPO,Ops}.lean`, plus an independent
dense oracle.

Two streams (every choice from the PRNG handed in):

* ``model``  a generated coupling model of `c10_gen`; the Lean side rebuilds the graph from the adder calls
             (`calcHGraph`), both sides then build grids / leg charges / MPO and run chains of MPO methods;
* ``graph``  a graph assembled directly with `MPOGraph.add` (paths with fresh or shared keys, duplicated edges,
             several operators on one edge, terms wrapping around an infinite unit cell, optional
             `add_missing_IdL_IdR`, non-zero `Ws_qtotal`), of which about a third is malformed on purpose: a
             dropped edge (dead end / dead start), a charged operator inside a neutral term, an operator name the site
             does not know, no `IdL` on the first bond, and bad arguments of the MPO methods.  The exception class
             of the real code is compared with the error branch of the model.

Exact comparisons: grids of `_build_grids` (operator names, strengths, order inside an entry), the charges of all
virtual legs, IdL / IdR / chi / bc / max_range / grouped / unit_cell_width after every chain.  The `W` tensors of the
real MPO are compared (1e-11) with the grids of the model evaluated with the site operators (Kronecker products
for grouped sites).

Oracle (no model involved): the dense operator of the built MPO (own numpy contraction of the `W` arrays) equals the
sum over the paths of the *graph* evaluated with explicit Kronecker products; after a chain of valid methods the
dense operator on the corresponding window is unchanged; a valid method must not raise.
"""
import copy
import json
import traceback
import warnings

import numpy as np

from harness import ops_common as oc

TOL = 1e-10
MAX_D = 1300


# ---------------------------------------------------------------------------------------------------------------
# generation


def _rand_chain(rng, infinite, finite_L=None, after=()):
    """a chain of MPO methods together with the window (in base unit cells) it should be compared on"""
    ops = []
    kinds = ['group', 'sort', 'segment'] + (['enlarge'] if infinite else [])
    n = rng.choice([1, 1, 2, 2, 3])
    for _ in range(n):
        k = rng.choice(kinds)
        if k == 'group':
            ops.append(['group', rng.choice([1, 2, 2, 3, 4])])
        elif k == 'sort':
            ops.append(['sort'])
        elif k == 'enlarge':
            ops.append(['enlarge', rng.choice([2, 2, 3]), 1])
        else:
            ops.append(['segment', None, None])   # filled in by `_fix_chain` (needs the current L)
            break                                  # a segment ends the chain (bc='segment')
    return ops


def _fix_chain(rng, ops, L, ucw, infinite, malformed):
    """fill in segment bounds fitting the MPO the chain has reached (L and unit_cell_width are tracked as the
    implementation updates them)"""
    out = []
    for op in ops:
        if op[0] == 'group':
            L = (L - 1) // max(op[1], 1) + 1
        elif op[0] == 'enlarge':
            L *= op[1]
            ucw *= op[1]
        elif op[0] == 'segment':
            spr = L // ucw if ucw else 0
            if spr == 0:
                first, last = 0, L - 1          # ZeroDivisionError (known finding after group_sites)
            elif infinite:
                first = rng.choice([0, 0, rng.randint(-L, 2 * L)])
                rings = rng.randint(1, max(1, 6 // spr))
                last = first + rings * spr - 1
            else:
                n_r = max(1, L // spr)
                k = rng.randint(1, n_r)
                first = spr * rng.randint(0, n_r - k)
                last = first + k * spr - 1
            if malformed and rng.random() < 0.5:
                first, last = rng.choice([(first, last + 1), (last + 1, first), (first - L - 1, last),
                                          (first, last + (0 if infinite else L))])
            op = ['segment', int(first), int(last)]
        out.append(op)
    return out


BAD_OPS = [['group', 0], ['enlarge', 1, 1], ['enlarge', 0, 1], ['enlarge', 3, 2], ['enlarge', -2, 1]]


def gen_model_case(rng, quick):
    from harness import c10_gen
    with warnings.catch_warnings():
        warnings.simplefilter('ignore')
        base = c10_gen.gen_case(rng, quick)
    base['sort_mpo_legs'] = False
    infinite = base['lattice']['bc_MPS'] != 'finite'
    chains = [_rand_chain(rng, infinite) for _ in range(rng.choice([1, 2, 2, 3]))]
    return {'kind': 'ext', 'sub': 'model', 'base': base, 'chains': chains, 'chain_seed': rng.randrange(1 << 30),
            'wq_seed': rng.randrange(1 << 30) if rng.random() < 0.25 else None,
            'bad_chain': rng.random() < 0.15}


def gen_graph_case(rng, quick):
    """raw graph: everything that `real_graph` needs is in the JSON case"""
    from harness import c10_gen
    infinite = rng.random() < 0.4
    L = rng.randint(1, 3) if infinite else rng.randint(1, 5)
    nu = 1 if rng.random() < 0.6 else rng.choice([d for d in (1, 2, 3) if L % d == 0])
    specs, common = c10_gen.gen_sites(rng, nu, L * (2 if infinite else 1), 200)
    malformed = rng.random() < 0.35
    case = {'kind': 'ext', 'sub': 'graph', 'L': L, 'infinite': infinite, 'sites': specs, 'common': common,
            'seed': rng.randrange(1 << 30), 'malformed': malformed,
            'max_range': rng.choice([0, 0, 3, 5, None, 'inf']),
            'add_missing': rng.choice([True, True, True, False]) if not (malformed and rng.random() < 0.2) else None,
            'with_wq': rng.random() < 0.3}
    return case


def gen_cases(rng, n, quick=True):
    cases = []
    for _ in range(n):
        if rng.random() < 0.45:
            try:
                cases.append(gen_model_case(rng, quick))
                continue
            except Exception:  # noqa: BLE001
                pass
        cases.append(gen_graph_case(rng, quick))
    return cases


# ---------------------------------------------------------------------------------------------------------------
# real side


def _exc(e):
    return {'error': type(e).__name__, 'msg': str(e)[:200]}


def unit_cell_sites(case):
    uc = oc.make_unit_cell(case['sites'], case.get('common'))
    return uc


def build_raw_graph(case):
    """MPOGraph from the JSON case; returns (graph, sites, adds) with `adds` the list of add() calls made"""
    import random
    from tenpy.networks import mpo
    rng = random.Random(case['seed'])
    uc = unit_cell_sites(case)
    L, infinite = case['L'], case['infinite']
    sites = [uc[i % len(uc)] for i in range(L)]
    mr = case['max_range']
    mr = np.inf if mr == 'inf' else mr
    with warnings.catch_warnings():
        warnings.simplefilter('ignore')
        graph = mpo.MPOGraph(sites, 'infinite' if infinite else 'finite', max_range=mr, unit_cell_width=L)
    adds = []
    n_terms = rng.randint(1, 5)
    plans = []
    for t in range(n_terms):
        kind = rng.choice(['onsite', 'path', 'path', 'path'])
        if kind == 'onsite' or (L == 1 and not infinite):
            i = rng.randrange(L)
            ops = oc.pick_ops(rng, [sites[i]])
            n_ops = rng.choice([1, 1, 2])
            for _ in range(n_ops):
                op = oc.pick_ops(rng, [sites[i]])[0]
                plans.append([(i, 'IdL', 'IdR', op, oc.rand_strength(rng, rng.random() < 0.3), rng.random() < 0.3)])
            continue
        span = rng.randint(2, max(2, (2 * L if infinite else L)))
        i0 = rng.randrange(L) if infinite else rng.randrange(max(1, L - span + 1))
        if not infinite:
            span = min(span, L - i0)
        if span < 2:
            i = i0
            op = oc.pick_ops(rng, [sites[i]])[0]
            plans.append([(i, 'IdL', 'IdR', op, oc.rand_strength(rng, False), False)])
            continue
        pos = sorted(set([i0, i0 + span - 1] + [rng.randrange(i0, i0 + span) for _ in range(rng.randint(0, 2))]))
        ops = oc.pick_ops(rng, [sites[p % L] for p in pos])
        names = {p: o for p, o in zip(pos, ops)}
        # a Jordan-Wigner string between fermionic operators keeps the term what the MPO would hold
        fill = 'Id'
        keys = ['IdL'] + [(t, 'k%d' % k) for k in range(span - 1)] + ['IdR']
        if plans and rng.random() < 0.3:
            # share the keys of the previous path of the same span (same operators: skip_existing)
            pass
        path = []
        st = oc.rand_strength(rng, rng.random() < 0.4)
        for k in range(span):
            i = i0 + k
            op = names.get(i, fill)
            s = st if k == span - 1 else [1, 0]
            path.append((i, keys[k], keys[k + 1], op, s, False))
        plans.append(path)
        if rng.random() < 0.25:
            # the same term again: with skip_existing the inner edges stay single, the last one is doubled
            st2 = oc.rand_strength(rng, False)
            path2 = [(i, a, b, op, (st2 if k == span - 1 else [1, 0]), k < span - 1)
                     for k, (i, a, b, op, s, _) in enumerate(path)]
            plans.append(path2)
    flat = [e for p in plans for e in p]
    check_op = True
    if case['malformed'] and flat:
        m = rng.choice(['drop', 'charge', 'opname', 'none', 'none'])
        if m == 'drop':
            del flat[rng.randrange(len(flat))]
        elif m == 'charge':
            k = rng.randrange(len(flat))
            i, a, b, op, s, sk = flat[k]
            cands = [o for o in oc.candidate_ops(sites[i % L]) if not oc.neutral([(sites[i % L], o)])]
            if cands:
                flat[k] = (i, a, b, rng.choice(cands), s, sk)
        elif m == 'opname':
            k = rng.randrange(len(flat))
            i, a, b, op, s, sk = flat[k]
            flat[k] = (i, a, b, 'Nope', s, sk)
            check_op = False
    for (i, a, b, op, s, sk) in flat:
        graph.add(i, a, b, op, oc.parse_gq(s) if s[1] not in (0, '0') else oc.parse_gq(s).real, check_op=check_op,
                  skip_existing=sk)
        adds.append([int(i), oc.key_json(a), oc.key_json(b), op, s, bool(sk)])
    if case['add_missing'] is not None:
        graph.add_missing_IdL_IdR(case['add_missing'])
    return graph, sites, adds, rng


def graph_from_model(base):
    from tenpy.networks import mpo
    from harness import c10_model as cm
    M, lean_calls, distinct = cm.build_model(base)
    lat = M.lat
    ot = M.all_onsite_terms()
    ot.remove_zeros()
    ct = M.all_coupling_terms()
    ct.remove_zeros()
    with warnings.catch_warnings():
        warnings.simplefilter('ignore')
        graph = mpo.MPOGraph.from_terms((ot, ct, M.exp_decaying_terms), lat.mps_sites(), lat.bc_MPS,
                                        unit_cell_width=lat.mps_unit_cell_width)
    return graph, M, lean_calls, distinct


def grids_json(grids):
    return [[[[] if e is None else [[[op], oc.gq(s)] for op, s in e] for e in row] for row in grid] for grid in grids]


def legs_json(legs):
    return [[[int(x) for x in q] for q in leg.to_qflat()] for leg in legs]


def mpo_struct(H):
    mr = H.max_range
    legs = [H.get_W(i).get_leg('wL') for i in range(H.L)] + [H.get_W(H.L - 1).get_leg('wR')]
    return {'bc': H.bc, 'IdL': [None if x is None else int(x) for x in H.IdL],
            'IdR': [None if x is None else int(x) for x in H.IdR], 'chi': [int(c) for c in H.chi],
            'legs': legs_json(legs), 'max_range': None if mr is None else ('inf' if mr == np.inf else int(mr)),
            'grouped': int(H.grouped), 'ucw': int(H.unit_cell_width)}


def base_sites(site):
    if hasattr(site, 'sites'):
        res = []
        for s in site.sites:
            res.extend(base_sites(s))
        return res
    return [site]


def w_kron(H, i):
    """W of site i as ndarray [wL, wR, p, p*] with the physical index in the Kronecker basis of the base sites"""
    from harness.c10_model import pipe_index_map
    W = H._W[i]
    arr = W.transpose(['wL', 'wR', 'p', 'p*']).to_ndarray()
    _, m = pipe_index_map(H.sites[i].leg)
    return arr[:, :, m][:, :, :, m]


def kron_ops(sites, names):
    res = np.ones((1, 1), dtype=complex)
    for s, n in zip(sites, names):
        res = np.kron(res, s.get_op(n).to_ndarray())
    return res


def dense_from_Ws(Ws, l, r):
    """entry [l, r] of the ordered product of operator valued matrices Ws[i][a, b, p, p*] (own numpy contraction)"""
    cur = None
    for W in Ws:
        if cur is None:
            cur = W[l]                                   # (chiR, d, d)
        else:
            # cur[b, P, P'] W[b, c, p, p'] -> [c, P p, P' p']
            nb, D, _ = cur.shape
            nc, d = W.shape[1], W.shape[2]
            cur = np.einsum('bPQ,bcpq->cPpQq', cur, W).reshape(nc, D * d, D * d)
    return cur[r]


def mpo_dense(H, first, n_sites):
    """terms of the MPO lying inside sites first … first+n_sites-1 (IdL on the left, IdR on the right)"""
    L = H.L
    Ws = [w_kron(H, (first + k) % L) for k in range(n_sites)]
    l = H.IdL[first % L]
    r = H.IdR[(first + n_sites - 1) % L + 1]
    if l is None or r is None:
        return None
    return dense_from_Ws(Ws, l, r)


def graph_dense(graph, n_cells):
    """Σ over IdL -> IdR paths of the graph through n_cells unit cells, explicit Kronecker products"""
    L = graph.L
    sites = graph.sites
    cur = {'IdR': np.ones((1, 1), dtype=complex)}
    for pos in reversed(range(L * n_cells)):
        i = pos % L
        new = {}
        for keyL, D in graph.graph[i].items():
            acc = None
            for keyR, lst in D.items():
                if keyR not in cur:
                    continue
                for opname, strength in lst:
                    term = strength * np.kron(sites[i].get_op(opname).to_ndarray(), cur[keyR])
                    acc = term if acc is None else acc + term
            if acc is not None:
                new[keyL] = acc
        cur = new
    return cur.get('IdL')


def apply_chain(H, ops):
    H2 = H.copy()
    for k, op in enumerate(ops):
        try:
            with warnings.catch_warnings():
                warnings.simplefilter('ignore')
                if op[0] == 'group':
                    H2.group_sites(op[1])
                elif op[0] == 'enlarge':
                    f = op[1] if op[2] == 1 else op[1] / op[2]
                    H2.enlarge_mps_unit_cell(f)
                elif op[0] == 'segment':
                    H2 = H2.extract_segment(op[1], op[2])
                elif op[0] == 'sort':
                    H2.sort_legcharges()
        except Exception as e:  # noqa: BLE001
            return None, dict(_exc(e), step=k)
    return H2, None


def op_tables(graph, L):
    """per site: the operator names occurring on it (plus 'Id') that the site accepts, with their charges"""
    names = [set(['Id']) for _ in range(L)]
    for i, G in enumerate(graph.graph):
        for D in G.values():
            for lst in D.values():
                for op, _ in lst:
                    names[i].add(op)
    out = []
    for i in range(L):
        s = graph.sites[i]
        row = []
        for n in sorted(names[i]):
            if s.valid_opname(n):
                row.append([n, [int(x) for x in s.get_op(n).qtotal]])
        out.append(row)
    return out


def real_side(case):
    """run the real code; returns (request for the Lean driver, real results)"""
    import random
    real = {}
    if case['sub'] == 'model':
        graph, M, lean_calls, distinct = graph_from_model(case['base'])
        L = graph.L
        infinite = graph.bc == 'infinite'
        idx = {id(s): n for n, s in enumerate(distinct)}
        req = {'k': 'ext_model', 'L': L, 'infinite': infinite, 'explicit': bool(case['base'].get('explicit', False)),
               'sites': [oc.site_json(s) for s in distinct], 'calls': lean_calls,
               'site_of': [idx[id(M.lat.unit_cell[int(u)])] for u in M.lat.order[:, -1]]}
        rng = random.Random(case['chain_seed'])
        ucw = int(M.lat.mps_unit_cell_width)
        malformed = bool(case.get('bad_chain'))
        with_wq = case.get('wq_seed') is not None
        wrng = random.Random(case.get('wq_seed') or 0)
        chains = case['chains']
    else:
        graph, sites, adds, rng = build_raw_graph(case)
        L, infinite = case['L'], case['infinite']
        req = {'k': 'ext_graph', 'L': L, 'infinite': infinite, 'adds': adds, 'add_missing': case['add_missing'],
               'max_range': case['max_range']}
        ucw = L
        malformed = case['malformed']
        with_wq = case['with_wq']
        wrng = rng
        chains = [_rand_chain(rng, infinite) for _ in range(rng.choice([1, 2, 2]))]
    chinfo = graph.chinfo
    qn = int(chinfo.qnumber)
    wq = None
    if with_wq and qn > 0:
        wq = [[wrng.randint(-1, 1) for _ in range(qn)] for _ in range(L)]
        if infinite and wrng.random() < 0.7:
            # total charge of the unit cell zero: the only case with consistent charges on an infinite chain
            wq[-1] = [-sum(w[k] for w in wq[:-1]) for k in range(qn)]
    chains = [_fix_chain(rng, c, L, ucw, infinite, malformed) for c in chains]
    if malformed and rng.random() < 0.6:
        k = rng.randrange(len(chains))
        chains[k] = chains[k][:rng.randint(0, len(chains[k]))] + [rng.choice(BAD_OPS)]
        if not infinite and rng.random() < 0.5:
            chains[k] = [['enlarge', 2, 1]]
    dims = [s.dim for s in graph.sites]
    window = 1
    if infinite:
        window = 2
        # a window long enough for every enlarge of the chains (product of factors) when affordable
        for c in chains:
            f = 1
            for op in c:
                if op[0] == 'enlarge' and op[1] > 1 and op[2] == 1:
                    f *= op[1]
            if f > 1 and float(np.prod(dims)) ** f <= MAX_D:
                window = max(window, f) if window % f else window
                if window % f:
                    window = window * f
        while float(np.prod(dims)) ** window > MAX_D and window > 1:
            window -= 1
    req.update({'mod': [int(m) for m in chinfo.mod], 'opq': op_tables(graph, L), 'wq': wq, 'ucw': ucw,
                'window': window, 'chains': chains, 'paths_max': 12})
    real.update(L=L, infinite=infinite, chains=chains, window=window, wq=wq, graph=graph, dims=dims)
    # --- graph
    graph._set_ordered_states()
    real['graph_j'] = {'edges': oc.edges_json(graph),
                       'states': [[oc.key_json(k) for k, _ in sorted(d.items(), key=lambda kv: kv[1])]
                                  for d in graph._ordered_states]}
    # --- pieces
    try:
        real['grids'] = grids_json(graph._build_grids())
    except Exception as e:  # noqa: BLE001
        real['grids'] = _exc(e)
    try:
        with warnings.catch_warnings():
            warnings.simplefilter('ignore')
            legs, _ = graph._calc_legcharges(None if wq is None else [list(w) for w in wq])
        real['legs'] = legs_json(legs)
    except Exception as e:  # noqa: BLE001
        real['legs'] = _exc(e)
    try:
        with warnings.catch_warnings():
            warnings.simplefilter('ignore')
            H = graph.build_MPO(None if wq is None else [list(w) for w in wq])
        real['H'] = H
        real['base'] = mpo_struct(H)
    except Exception as e:  # noqa: BLE001
        real['H'] = None
        real['base'] = dict(_exc(e), tb=traceback.format_exc()[-600:])
    real['chain_out'] = []
    if real['H'] is not None:
        for c in chains:
            H2, err = apply_chain(real['H'], c)
            real['chain_out'].append((H2, err))
    return req, real


# ---------------------------------------------------------------------------------------------------------------
# comparison


def err_match(model_tag, real_name):
    return model_tag == 'Exception' or model_tag == real_name


def eval_grid(H, i, grid):
    """numeric value [a][b] -> matrix of the model's grid of site i with the operators of the real sites"""
    sites = base_sites(H.sites[i])
    d = int(np.prod([s.dim for s in sites]))
    out = np.zeros((len(grid), len(grid[0]) if grid else 0, d, d), dtype=complex)
    cache = {}
    for a, row in enumerate(grid):
        for b, ent in enumerate(row):
            for names, c in ent:
                k = tuple(names)
                if k not in cache:
                    cache[k] = kron_ops(sites, names)
                out[a, b] += oc.parse_gq(c) * cache[k]
    return out


def cmp_mpo(tag, H, mj, fails):
    """real MPO vs model MPO JSON"""
    st = mpo_struct(H)
    for k in ['bc', 'IdL', 'IdR', 'chi', 'legs', 'max_range', 'grouped', 'ucw']:
        if st[k] != mj[k]:
            fails.append(('correspondence', f'ext.{tag}.{k}', f'impl {st[k]} model {mj[k]}'))
            return False
    if len(mj['grids']) != H.L:
        fails.append(('correspondence', f'ext.{tag}.L', f'impl {H.L} model {len(mj["grids"])}'))
        return False
    for i in range(H.L):
        Wr = w_kron(H, i)
        Wm = eval_grid(H, i, mj['grids'][i])
        if Wr.shape != Wm.shape or np.max(np.abs(Wr - Wm), initial=0.0) > 1e-11 * max(1.0, np.max(np.abs(Wr), initial=0.0)):
            fails.append(('correspondence', f'ext.{tag}.W', f'site {i}: shapes {Wr.shape} {Wm.shape}'))
            return False
    return True


def chain_sig(ops):
    return '+'.join(o[0] for o in ops)


def valid_chain(ops, L, ucw, infinite):
    """would every method of the chain be a legal call by the docstrings?  (tracks L / unit_cell_width as documented:
    a grouped MPO still has whole rings, so extract_segment after group_sites is legal when the bounds fit)"""
    grouped = False
    for op in ops:
        if op[0] == 'group':
            if op[1] < 1:
                return False
            L = (L - 1) // op[1] + 1
            grouped = True
        elif op[0] == 'enlarge':
            if op[2] != 1 or op[1] <= 1 or not infinite:
                return False
            L *= op[1]
            ucw *= op[1]
        elif op[0] == 'segment':
            first, last = op[1], op[2]
            if last < first:
                return False
            if not infinite and (first < 0 or last >= L):
                return False
            if grouped:
                return 'grouped-segment'
            spr = L // ucw
            if spr == 0 or (last + 1 - first) % spr:
                return False
            infinite = False
    return True


def oracle_case(case, req, real):
    """the independent oracle (no model): well-formed graphs build; the MPO is the path sum of the graph; legal
    chains of MPO methods do not raise and do not change the operator on the corresponding window"""
    fails, facts = [], {}
    L, infinite, window = real['L'], real['infinite'], real['window']
    graph, H = real['graph'], real['H']
    malformed_graph = case['sub'] == 'graph' and case.get('malformed')
    if H is None:
        rb = real['base']
        if not malformed_graph and not (real['wq'] is not None and infinite):
            fails.append(('property', 'ext.build_MPO.raises.' + rb['error'], str(rb)[:600]))
        return fails, facts, None
    D = float(np.prod(real['dims'])) ** window
    n_sites = L * window
    base_dense = None
    if D <= MAX_D:
        base_dense = mpo_dense(H, 0, n_sites)
        gd = graph_dense(graph, window)
        if gd is None and base_dense is not None:
            gd = np.zeros_like(base_dense)      # no path fits into the window
        if base_dense is not None and gd is not None:
            if oc.maxdiff(base_dense, gd) > TOL * max(1.0, np.max(np.abs(gd))):
                fails.append(('property', 'ext.oracle.mpo_vs_graph', f'maxdiff {oc.maxdiff(base_dense, gd)}'))
            else:
                facts['ext.oracle.mpo_vs_graph'] = True
    ucw0 = req['ucw']
    for ops, (H2, err) in zip(real['chains'], real['chain_out']):
        sig = chain_sig(ops)
        legal = valid_chain(ops, L, ucw0, infinite)
        if err is not None:
            if legal == 'grouped-segment' and err['error'] == 'ZeroDivisionError':
                fails.append(('property', 'dense.grouped_segment.extract_segment_after_group_sites',
                              f'ops {ops}: {err}'))
            elif legal is True:
                fails.append(('property', f'ext.chain.raises.{err["error"]}.{ops[err["step"]][0]}', f'ops {ops}: {err}'))
            continue
        try:
            exp, got = chain_expectation(H, H2, ops, L, window, real['dims'])
        except Exception:  # noqa: BLE001
            fails.append(('correspondence', 'ext.harness.oracle-exception', traceback.format_exc()[-800:]))
            continue
        if exp is None or got is None:
            continue
        if exp.shape != got.shape or oc.maxdiff(exp, got) > TOL * max(1.0, np.max(np.abs(exp), initial=0.0)):
            fails.append(('property', f'ext.oracle.chain.{sig}', f'ops {ops} maxdiff {oc.maxdiff(exp, got)}'))
        else:
            facts['ext.oracle.chain'] = True
    return fails, facts, base_dense


def check_case(case, req, real, lo, use_model=True):
    """lo: output of the Lean driver (None with use_model=False: oracle only)"""
    fails, facts, base_dense = oracle_case(case, req, real)
    if not use_model:
        return fails, facts
    if lo is None or ('error' in lo and 'graph' not in lo):
        return fails + [('correspondence', 'ext.driver-error', str(lo)[:400])], facts
    L, infinite, window = real['L'], real['infinite'], real['window']
    graph = real['graph']
    # graph replay
    if oc.norm_edges(lo['graph']['edges']) != oc.norm_edges(real['graph_j']['edges']) or \
            lo['graph']['states'] != real['graph_j']['states']:
        fails.append(('correspondence', 'ext.graph', 'edges / ordered states differ'))
        return fails, facts
    # pieces
    for piece in ('grids', 'legs'):
        r, m = real[piece], lo[piece]
        r_err, m_err = isinstance(r, dict), isinstance(m, dict)
        if r_err or m_err:
            if not (r_err and m_err and err_match(m['error'], r['error'])):
                fails.append(('correspondence', f'ext.{piece}.error', f'impl {str(r)[:200]} model {str(m)[:200]}'))
            else:
                facts[f'ext.{piece}.raises.{r["error"]}'] = True
            continue
        if piece == 'grids':
            m = [[[[[n, oc.norm_gq(c)] for n, c in e] for e in row] for row in g] for g in m]
            r = [[[[[n, oc.norm_gq(c)] for n, c in e] for e in row] for row in g] for g in r]
        if r != m:
            fails.append(('correspondence', f'ext.{piece}', f'impl {json.dumps(r)[:300]} model {json.dumps(m)[:300]}'))
        else:
            facts[f'ext.{piece}'] = True
    # build_MPO
    H = real['H']
    mb = lo['base']
    if H is None or 'error' in mb:
        rb = real['base']
        if not (H is None and 'error' in mb and err_match(mb['error'], rb['error'])):
            fails.append(('correspondence', 'ext.build_MPO.error', f'impl {str(rb)[:300]} model {str(mb)[:200]}'))
        else:
            facts['ext.build_MPO.raises.' + rb['error']] = True
        return fails, facts
    if not cmp_mpo('build_MPO', H, mb['mpo'], fails):
        return fails, facts
    facts['ext.build_MPO'] = True
    n_sites = L * window
    if base_dense is not None and lo.get('denote') is not None:
        # the formal sum of the model evaluated with the site matrices
        mbody = oc.ManyBody([graph.sites[i % L] for i in range(n_sites)])
        from harness.c10_check import eval_canon
        dm = eval_canon(mbody, lo['denote'], n_sites)
        if oc.maxdiff(dm, base_dense) > TOL * max(1.0, np.max(np.abs(base_dense))):
            fails.append(('correspondence', 'ext.denote_vs_dense', f'maxdiff {oc.maxdiff(dm, base_dense)}'))
        else:
            facts['ext.denote_vs_dense'] = True
    if lo.get('denote_graph_ok') is False:
        fails.append(('correspondence', 'ext.model.denote_graph', 'model MPO and model graph denote different sums'))
    # chains
    for ops, (H2, err), mc in zip(real['chains'], real['chain_out'], lo.get('chains', [])):
        sig = chain_sig(ops)
        if err is not None or 'error' in mc:
            if not (err is not None and 'error' in mc and err_match(mc['error'], err['error']) and mc['step'] == err['step']):
                fails.append(('correspondence', f'ext.chain.error.{sig}', f'ops {ops} impl {str(err)[:200]} model {str(mc)[:200]}'))
            else:
                facts['ext.chain.raises.' + err['error']] = True
            continue
        if not cmp_mpo('chain.' + sig, H2, mc['mpo'], fails):
            continue
        facts['ext.chain.' + sig] = True
        for o in ops:
            facts['ext.op.' + o[0]] = True
        # formal sums of the model: the chain must not change the denoted sum (same window, no segment shift)
        f_enl = int(np.prod([o[1] for o in ops if o[0] == 'enlarge'] or [1]))
        if mc.get('denote') is not None and lo.get('denote') is not None and not any(o[0] == 'segment' for o in ops) \
                and window % f_enl == 0:
            a = oc.canon_from_json(mc['denote'])
            b = oc.canon_from_json(lo['denote'])
            if a != b:
                fails.append(('correspondence', f'ext.model.denote.{sig}', 'model chain changes the formal sum'))
            else:
                facts['ext.model.denote_invariant'] = True
    return fails, facts


def chain_expectation(H, H2, ops, L, window, dims):
    """(expected dense from the base MPO, dense of the transformed MPO) on the window the chain maps to"""
    seg = [o for o in ops if o[0] == 'segment']
    # number of base sites per site of H2 and base-site offset of its site 0
    if seg:
        # replay the index bookkeeping on base-site level: list of base-site index lists per site
        cover = [[i] for i in range(L)]
        inf = H.bc == 'infinite'
        for o in ops:
            if o[0] == 'group':
                n = o[1]
                cover = [sum(cover[k:k + n], []) for k in range(0, len(cover), n)]
            elif o[0] == 'enlarge':
                Lb = sum(len(c) for c in cover)
                cover = [[x + f * Lb for x in c] for f in range(o[1]) for c in cover]
            elif o[0] == 'segment':
                Lc = len(cover)
                Lb = sum(len(c) for c in cover)
                cover = [[x + ((i // Lc) * Lb) for x in cover[i % Lc]] for i in range(o[1], o[2] + 1)]
        base_idx = [x for c in cover for x in c]
        first, n = base_idx[0], len(base_idx)
        if base_idx != list(range(first, first + n)):
            return None, None
        D = float(np.prod([dims[i % L] for i in base_idx]))
        if D > MAX_D:
            return None, None
        exp = mpo_dense(H, first, n)
        got = mpo_dense(H2, 0, H2.L)
        return exp, got
    # no segment: compare on `window` base unit cells
    n_base = L * window
    if float(np.prod(dims)) ** window > MAX_D:
        return None, None
    if H2.bc != 'infinite':
        exp = mpo_dense(H, 0, L)
        got = mpo_dense(H2, 0, H2.L)
        return exp, got
    # infinite: how many base sites does the unit cell of H2 hold?
    nb = sum(len(base_sites(s)) for s in H2.sites)
    if n_base % nb:
        # window of lcm size if affordable
        k = nb // np.gcd(nb, n_base)
        n_base *= int(k)
        if float(np.prod(dims)) ** (n_base // L) > MAX_D:
            return None, None
    cells2 = n_base // nb
    exp = mpo_dense(H, 0, n_base)
    got = mpo_dense(H2, 0, H2.L * cells2)
    return exp, got


# ---------------------------------------------------------------------------------------------------------------
# entry points


def work_chunk(args):
    from vlib import core
    cases, use_model = args
    warnings.simplefilter('ignore')
    out = []
    reqs, reals, idx = [], [], []
    for n, case in enumerate(cases):
        rec = {'case': case, 'fails': [], 'facts': {}}
        out.append(rec)
        try:
            req, real = real_side(case)
        except Exception:  # noqa: BLE001
            empty = False
            if case['sub'] == 'model':
                try:
                    from harness import c10_model
                    empty = c10_model.is_empty_model(case['base'])
                except Exception:  # noqa: BLE001
                    empty = False
            if empty:
                rec['skipped'] = 'empty-model'     # H = 0: CouplingMPOModel cannot build its MPO (as in the main part)
            else:
                rec['fails'].append(('correspondence', 'ext.harness.real-side-exception', traceback.format_exc()[-1200:]))
            continue
        reqs.append(req)
        reals.append(real)
        idx.append(n)
    louts = [None] * len(reqs)
    if reqs and use_model:
        try:
            louts = core.run_driver('C10', reqs)
        except core.DriverError as e:
            louts = [{'error': 'driver: ' + str(e)[:400]}] * len(reqs)
    for n, req, real, lo in zip(idx, reqs, reals, louts):
        rec = out[n]
        try:
            rec['fails'], rec['facts'] = check_case(rec['case'], req, real, lo, use_model)
        except Exception:  # noqa: BLE001
            rec['fails'] = [('correspondence', 'ext.harness.exception', traceback.format_exc()[-1500:])]
        rec['hist'] = ['ext_sub=' + rec['case']['sub'] + ('.malformed' if rec['case'].get('malformed') or rec['case'].get('bad_chain') else ''), 'ext_bc=' + ('infinite' if real['infinite'] else 'finite')]
        if real['wq'] is not None:
            rec['hist'].append('ext_Ws_qtotal')
        for c in real['chains']:
            rec['hist'].append('ext_chain=' + chain_sig(c))
    return out


def run_cases(ctx, cases, res, nproc=8, use_model=True):
    import multiprocessing as mp
    if not cases:
        return res
    nproc = max(1, min(nproc, len(cases) // 4 or 1))
    chunks = [cases[i::nproc] for i in range(nproc)]
    if nproc == 1:
        outs = [work_chunk((chunks[0], use_model))]
    else:
        from concurrent.futures import ProcessPoolExecutor
        with ProcessPoolExecutor(nproc, mp_context=mp.get_context('fork')) as pool:
            outs = list(pool.map(work_chunk, [(c, use_model) for c in chunks], timeout=max(600, ctx.budget_s)))
    for chunk in outs:
        for rec in chunk:
            case = rec['case']
            if rec.get('skipped'):
                res.count('skipped=ext.' + rec['skipped'])
                continue
            res.note_case(case, True)
            if use_model:
                res.traces_validated += 1
            for h in rec.get('hist', []):
                res.count(h)
            for k, v in rec['facts'].items():
                if v:
                    res.count(k)
            for kind, sig, detail in rec['fails']:
                res.fail(kind, sig, detail, dict(case))
    return res


def run(ctx, res, use_model=True, tag='ext'):
    """the extension part of `harness/C10.py::run` (and, with use_model=False, of `search`)"""
    from vlib import core
    core.use_repo()
    rng = ctx.sub_rng(tag)
    n_total = 120 if ctx.quick else 3000
    batch = 120 if ctx.quick else 480
    done = 0
    t0 = ctx.elapsed()
    share = 60 if ctx.quick else 400
    while done < n_total and ctx.elapsed() - t0 < share:
        n = min(batch, n_total - done)
        run_cases(ctx, gen_cases(rng, n, ctx.quick), res, use_model=use_model)
        done += n
    res.extra['ext_cases'] = done
    return res
