"""C11: MPO algebra vs dense operator algebra — case construction, real side, oracle, comparison."""
import json
import traceback
import warnings
from fractions import Fraction

import numpy as np

from harness import ops_common as oc
from harness import c10_model as cm

TOL = 1e-10

SITES = [
    {'cls': 'SpinHalfSite', 'kw': {'conserve': None}},
    {'cls': 'SpinHalfSite', 'kw': {'conserve': 'Sz'}},
    {'cls': 'SpinSite', 'kw': {'S': 1.0, 'conserve': None}},
    {'cls': 'BosonSite', 'kw': {'Nmax': 2, 'conserve': 'N'}},
    {'cls': 'FermionSite', 'kw': {'conserve': 'N'}},
    {'cls': 'FermionSite', 'kw': {'conserve': None}},
]
# orthogonal operator bases (w.r.t. tr(A^† B)) for to_TermList
OP_BASIS = {
    ('SpinHalfSite', None): ['Id', 'Sigmax', 'Sigmay', 'Sigmaz'],
    ('SpinHalfSite', 'Sz'): ['Id', 'Sigmaz', 'Sp', 'Sm'],
}


# ---------------------------------------------------------------------------------------------
# generation


def rint(rng, cplx):
    re = rng.randint(-2, 2)
    im = rng.randint(-2, 2) if cplx else 0
    return [re, im]


def gen_W_case(rng, quick):
    d = rng.choice([2, 2, 3])
    finite = rng.random() < 0.75
    L = rng.randint(2, 4 if d == 2 else 3) if finite else rng.randint(1, 2 if d == 3 else 3)
    markers = rng.random() < 0.7 or not finite
    cplx = rng.random() < 0.5
    # finite MPOs in sum form need IdL only up to the last bond where a term starts and IdR only from the first bond where
    # a term ends (MPOGraph.from_term_list(insert_all_id=False) builds such MPOs): partial marker lists
    partial = markers and finite and rng.random() < 0.45

    def gen_structure():
        """chi, idL, idR of one operand"""
        if markers and not partial:
            inner = [rng.randint(0, 2) for _ in range(L + 1)]   # number of "other" states per bond
            if not finite:
                inner[L] = inner[0]
            chi = [n + 2 for n in inner]
            idL, idR = [], []
            for b in range(L + 1):
                if rng.random() < 0.7:
                    idL.append(0)
                    idR.append(chi[b] - 1)
                else:
                    l, r = rng.sample(range(chi[b]), 2)
                    idL.append(l)
                    idR.append(r)
            if not finite:
                idL[L], idR[L] = idL[0], idR[0]
            elif rng.random() < 0.3:
                # the form MPO.from_grids gives a finite MPO: one state (IdL) on the first, one (IdR) on the last bond
                chi[0], idL[0], idR[0] = 1, 0, None
                chi[L], idL[L], idR[L] = 1, None, 0
            return chi, idL, idR
        if partial:
            kL = rng.randint(0, L)        # IdL on bonds 0..kL
            mR = rng.randint(0, L)        # IdR on bonds mR..L
            chi, idL, idR = [], [], []
            for b in range(L + 1):
                hasL, hasR = b <= kL, b >= mR
                nm = int(hasL) + int(hasR)
                # a bond that lacks a marker carries at least one other state (no dead ends); total 1..4 states,
                # often exactly two states with one or no marker
                lo = 0 if nm == 2 else 1
                n_other = rng.choice([lo, lo, 1, 2 - nm if 2 - nm >= lo else lo, rng.randint(lo, 2)])
                n = nm + n_other
                pos = rng.sample(range(n), nm) if rng.random() < 0.3 else ([0, n - 1][:nm] if hasL else [n - 1][:nm])
                it = iter(pos)
                idL.append(next(it) if hasL else None)
                idR.append(next(it) if hasR else None)
                chi.append(n)
            return chi, idL, idR
        chi = [1] + [rng.randint(1, 3) for _ in range(L - 1)] + [1]
        return chi, [0] + [None] * L, [None] * L + [0]

    chi, idL, idR = gen_structure()

    def gen_W(chi=chi, idL=idL, idR=idR):
        W = []
        for i in range(L):
            ents = []
            for l in range(chi[i]):
                for r in range(chi[i + 1]):
                    lL, lR = idL[i], idR[i]
                    rL, rR = idL[i + 1], idR[i + 1]
                    if markers:
                        if (lL is not None and l == lL and r == rL) or (lR is not None and l == lR and r == rR):
                            ents += [[l, r, a, a, [1, 0]] for a in range(d)]
                            continue
                        if (lR is not None and l == lR) or (rL is not None and r == rL):
                            continue       # nothing leaves IdR, nothing enters IdL
                    if rng.random() < (0.6 if markers else 0.8):
                        for _ in range(rng.randint(1, 2)):
                            c = rint(rng, cplx)
                            if c != [0, 0]:
                                ents.append([l, r, rng.randrange(d), rng.randrange(d), c])
            W.append(ents)
        return W
    case = {'kind': 'W', 'L': L, 'd': d, 'finite': finite, 'markers': markers, 'chi': chi, 'idL': idL, 'idR': idR,
            'WA': gen_W(), 'seed': rng.randrange(1 << 30)}
    case['partial'] = partial
    r = rng.random()
    if r < 0.55:
        if finite and rng.random() < 0.5:
            # a partner with its own bond dimensions and marker lists
            chiB, idLB, idRB = gen_structure()
            case.update({'chiB': chiB, 'idLB': idLB, 'idRB': idRB})
            case['WB'] = gen_W(chiB, idLB, idRB)
        else:
            case['WB'] = gen_W()
    elif r < 0.7:
        case['WB'] = [list(x) for x in case['WA']]       # an equal partner
    elif r < 0.8:
        # Hermitian partner test: B = A
        case['WB'] = [list(x) for x in case['WA']]
    if markers and not partial and finite and rng.random() < 0.6:
        N = rng.choice([1, 1, 2])
        start = rng.randint(0, L - N)
        tb = Fraction(rng.choice([1, 2, 3, -2, 1]), rng.choice([1, 2]))
        alpha = Fraction(rng.randint(-3, 3), rng.choice([1, 2]))
        if N == 2:
            tb = abs(tb)           # python: beta ** (1/2) of a positive float
        case['plus_identity'] = {'alpha': oc.fr_str(alpha), 'tb': oc.fr_str(tb), 'N': N,
                                 'sites': list(range(start, start + N))}
        if rng.random() < 0.6:
            # applied once more to its own result (alpha2 + beta2 * (alpha + beta * A))
            N2 = rng.choice([1, 1, 2])
            st2 = rng.randint(0, L - N2)
            tb2 = Fraction(rng.choice([1, 2, 3, -2]), rng.choice([1, 2]))
            if N2 == 2:
                tb2 = abs(tb2)
            case['plus_identity']['second'] = {'alpha': oc.fr_str(Fraction(rng.randint(-3, 3), rng.choice([1, 2]))),
                                               'tb': oc.fr_str(tb2), 'N': N2, 'sites': list(range(st2, st2 + N2))}
    if markers and not partial:
        case['UI'] = {'dt': [oc.fr_str(Fraction(rng.randint(-2, 2), 4)), oc.fr_str(Fraction(rng.choice([-1, 1, 2]), 4))]}
        qs = []
        for _ in range(3):
            i = rng.randrange(L)
            n = rng.randint(1, (L - i) if finite else 3)
            qs.append({'i': i, 'ops': [[rng.randrange(d), rng.randrange(d)] for _ in range(n)]})
        case['prefactor'] = qs
    return case


def gen_terms_case(rng, quick):
    from harness import c10_gen
    spec = rng.choice(SITES)
    finite = rng.random() < 0.75
    dsite = c10_gen._site_dim(spec)
    L = rng.randint(2, 5 if dsite == 2 else 3) if finite else rng.randint(1, 3 if dsite == 2 else 2)
    site = oc.make_site(spec)
    cplx = rng.random() < 0.4
    herm = rng.random() < 0.5

    def gen_tl(n_terms):
        terms = []
        for _ in range(n_terms):
            k = rng.choice([1, 2, 2, 2, 3, 4])
            hi = L - 1 if finite else L + 2
            i0 = rng.randrange(L)
            sites_ = [i0] + [rng.randint(0 if finite else i0, hi) for _ in range(k - 1)]
            if not finite:
                sites_ = [i0] + [rng.randint(i0, hi) for _ in range(k - 1)]
            ops = oc.pick_ops(rng, [site] * k)
            term = [[o, int(i)] for o, i in zip(ops, sites_)]
            s = oc.rand_strength(rng, cplx)
            terms.append([term, s])
            if herm:
                hc_term = [[site.get_hc_op_name(o), i] for o, i in reversed(term)]
                z = oc.parse_gq(s)
                terms.append([hc_term, oc.gq(z.conjugate())])
        return terms
    tlA = gen_tl(rng.randint(1, 4))
    case = {'kind': 'terms', 'site': spec, 'L': L, 'finite': finite, 'tlA': tlA, 'herm': herm, 'seed': rng.randrange(1 << 30)}
    r = rng.random()
    if r < 0.35:
        case['tlB'] = gen_tl(rng.randint(1, 3))
    elif r < 0.7:
        # B = A plus one extra long-range term: must be reported unequal
        ops = oc.pick_ops(rng, [site, site])
        i = 0
        j = L - 1 if finite else rng.randint(L, L + 2)
        if j > i:
            extra = [[[ops[0], i], [ops[1], j]], oc.rand_strength(rng, cplx)]
            case['tlB'] = [t for t in tlA] + [extra]
            case['B_is_A_plus_one'] = True
    elif r < 0.85:
        case['tlB'] = [t for t in tlA]   # equal
    # the same MPO read as "stored half": explicit_plus_hc=True denotes H_half + H_half^dagger; expectation values on a
    # complex state (finite: dense vector; infinite: random iMPS, all three methods)
    case['epc'] = rng.random() < 0.6
    if finite:
        case['apply'] = True
        # MPOGraph.from_term_list(insert_all_id=False): IdL / IdR only on the bonds where they are needed
        case['insert_all_id'] = [rng.random() < 0.55, rng.random() < 0.55]
    return case


def gen_case(rng, quick=True):
    return gen_W_case(rng, quick) if rng.random() < 0.5 else gen_terms_case(rng, quick)


# ---------------------------------------------------------------------------------------------
# real objects


def unit_site(d):
    """site of dimension d without charges, with the matrix units E{a}{b} as named operators"""
    from tenpy.networks.site import SpinHalfSite, SpinSite
    site = SpinHalfSite(conserve=None) if d == 2 else SpinSite(S=1.0, conserve=None)
    for a in range(d):
        for b in range(d):
            m = np.zeros((d, d))
            m[a, b] = 1.
            site.add_op(f'E{a}{b}', m, hc=f'E{b}{a}')
    return site


def W_to_mpo(case, ents, which='A'):
    import tenpy.linalg.np_conserved as npc
    from tenpy.networks.mpo import MPO
    L, d = case['L'], case['d']
    sfx = 'B' if which == 'B' and 'chiB' in case else ''
    chi, idL_, idR_ = case['chi' + sfx], case['idL' + sfx], case['idR' + sfx]
    site = unit_site(d)
    Ws = []
    for i in range(L):
        W = np.zeros((chi[i], chi[i + 1], d, d), dtype=complex)
        for l, r, a, b, c in ents[i]:
            W[l, r, a, b] += oc.parse_gq(c)
        if np.all(W.imag == 0):
            W = W.real.copy()
        Ws.append(npc.Array.from_ndarray_trivial(W, labels=['wL', 'wR', 'p', 'p*']))
    return MPO([site] * L, Ws, 'finite' if case['finite'] else 'infinite', list(idL_), list(idR_),
               max_range=None, mps_unit_cell_width=L)


def hc_termlist(case, tl):
    """the hermitian conjugates of the terms: operators in reversed order, names by the site's hc table"""
    site = oc.make_site(case['site'])
    out = []
    for term, s_ in tl:
        z = oc.parse_gq(s_)
        out.append([[[site.get_hc_op_name(o), i] for o, i in reversed(term)], oc.gq(z.conjugate())])
    return out


def terms_to_mpo(case, tl, which='A'):
    from tenpy.networks.mpo import MPOGraph
    from tenpy.networks.terms import TermList
    site = oc.make_site(case['site'])
    sites = [site] * case['L']
    terms = [[(o, i) for o, i in t] for t, _ in tl]
    strength = np.array([oc.parse_gq(s) for _, s in tl])
    if np.all(strength.imag == 0):
        strength = strength.real.copy()
    with warnings.catch_warnings():
        warnings.simplefilter('ignore')
        ia = case.get('insert_all_id', [True, True])[1 if which == 'B' else 0] or not case['finite']
        g = MPOGraph.from_term_list(TermList(terms, strength), sites, 'finite' if case['finite'] else 'infinite',
                                    insert_all_id=bool(ia), unit_cell_width=case['L'])
        return g.build_MPO()


def mpo_json(H):
    """tensors of an MPO for the Lean model: entries [l, r, a, b, coeff]"""
    W = []
    for i in range(H.L):
        w = H.get_W(i).transpose(['wL', 'wR', 'p', 'p*']).to_ndarray()
        ents = [[int(l), int(r), int(a), int(b), oc.gq(w[l, r, a, b])] for l, r, a, b in zip(*np.nonzero(w))]
        W.append(ents)
    chi = [int(x) for x in H.chi]

    def norm_id(ids):
        return [None if x is None else int(x) % chi[b] for b, x in enumerate(ids)]
    return {'chi': chi, 'idL': norm_id(H.IdL), 'idR': norm_id(H.IdR), 'W': W}


def mpo_dense(H, n_sites=None):
    return cm.mpo_window_dense(H, n_sites or H.L)


def ed_dense(H):
    from tenpy.algorithms.exact_diag import ExactDiag
    ed = ExactDiag.from_H_mpo(H, max_size=1e9)
    ed.build_full_H_from_mpo()
    return cm.ed_dense(ed)


def lean_dense(op_json, dims):
    """dense matrix of a canonical matrix-unit formal sum returned by the Lean model"""
    D = int(np.prod(dims))
    M = np.zeros((D, D), dtype=complex)
    for names, c in op_json:
        r = q = 0
        for n, d in zip(names, dims):
            a, b = n.split(',')
            r = r * d + int(a)
            q = q * d + int(b)
        M[r, q] += oc.parse_gq(c)
    return M


def norm_mpo_json(j):
    import json as _json
    W = []
    for ents in j['W']:
        acc = {}
        for l, r, a, b, c in ents:
            k = (l, r, a, b)
            z = oc.gq_key(c)
            p = acc.get(k, (Fraction(0), Fraction(0)))
            acc[k] = (p[0] + z[0], p[1] + z[1])
        W.append(sorted([[l, r, a, b, [oc.fr_str(z[0]), oc.fr_str(z[1])]] for (l, r, a, b), z in acc.items() if z != (0, 0)],
                        key=lambda e: _json.dumps(e[:4])))
    return {'chi': list(j['chi']), 'idL': list(j['idL']), 'idR': list(j['idR']), 'W': W}
