"""C10 — API scenarios: public methods / options of model.py, terms.py and exact_diag.py that the generated coupling
models do not reach, each with a dense oracle (many-body matrices of ops_common.ManyBody, numpy/scipy linear algebra).
A case is {'kind': 'api', 'name': scenario, 'seed': int}; everything else is drawn from the seed."""
import copy
import random
import traceback
import warnings

import numpy as np

from harness import ops_common as oc
from harness import c10_model as cm

TOL = 1e-10

SIMPLE_SITES = [
    {'cls': 'SpinHalfSite', 'kw': {'conserve': None}},
    {'cls': 'SpinHalfSite', 'kw': {'conserve': 'Sz'}},
    {'cls': 'SpinHalfSite', 'kw': {'conserve': 'parity'}},
    {'cls': 'FermionSite', 'kw': {'conserve': 'N'}},
    {'cls': 'FermionSite', 'kw': {'conserve': 'parity'}},
    {'cls': 'BosonSite', 'kw': {'Nmax': 1, 'conserve': 'N'}},
    {'cls': 'SpinSite', 'kw': {'S': 1.0, 'conserve': 'Sz'}},
]


def fnum(rng, cplx=False):
    """dyadic strength (exact in floats)"""
    re = rng.choice([-2, -1.5, -1, -0.5, 0.5, 1, 1.5, 2, 0.25, 3])
    im = rng.choice([-1, -0.5, 0.5, 1, 2]) if cplx else 0
    return complex(re, im) if cplx else float(re)


def close(a, b, scale=1.0):
    return oc.maxdiff(np.asarray(a), np.asarray(b)) <= TOL * max(1.0, scale)


def mscale(*ms):
    return max([1.0] + [float(np.max(np.abs(m))) for m in ms if np.size(m)])


def model_dense(M):
    from tenpy.algorithms.exact_diag import ExactDiag
    ed = ExactDiag(M, max_size=1e9)
    ed.build_full_H_from_mpo()
    return cm.ed_dense(ed)


def termlist_dense(mb, terms, strengths, hc=False):
    H = mb.zero()
    for t, s in zip(terms, strengths):
        m = complex(s) * mb.product([(o, int(i)) for o, i in t])
        H = H + m
    H = oc.dense(H)
    return H + H.conj().T if hc else H


def rand_terms(rng, sites, n_terms, max_ops=3, lo=0, hi=None, cplx=False):
    """random neutral terms [(op, i), ...] with sites in [lo, hi] in arbitrary order"""
    L = len(sites)
    hi = L - 1 if hi is None else hi
    terms, strengths = [], []
    for _ in range(n_terms):
        k = rng.randint(1, max_ops)
        idx = [rng.randint(lo, hi) for _ in range(k)]
        ops = oc.pick_ops(rng, [sites[i % L] for i in idx])
        terms.append([(o, i) for o, i in zip(ops, idx)])
        strengths.append(fnum(rng, cplx))
    return terms, strengths


# ---------------------------------------------------------------------------------------------
# scenarios.  Each returns (fails, facts); fails = [(kind, signature, detail)]


def sc_add_local_term(rng, fails, facts):
    """CouplingModel.add_local_term (1, 2, >2 sites; lattice indices; plus_hc; explicit_plus_hc; finite and infinite)
    and the MultiCouplingModel alias"""
    from tenpy.models.model import CouplingMPOModel
    from tenpy.models import lattice as Lt
    spec = rng.choice(SIMPLE_SITES)
    site = oc.make_site(spec)
    infinite = rng.random() < 0.3
    kind = rng.choice(['Chain', 'Chain', 'Ladder', 'Square'])
    if kind == 'Chain':
        lat = Lt.Chain(rng.randint(1, 2) if infinite else rng.randint(2, 5), site, bc_MPS='infinite' if infinite else 'finite',
                       bc='periodic' if infinite else 'open')
    elif kind == 'Ladder':
        lat = Lt.Ladder(1 if infinite else rng.randint(1, 2), [site, site], bc_MPS='infinite' if infinite else 'finite',
                        bc='periodic' if infinite else 'open')
    else:
        lat = Lt.Square(1 if infinite else 2, 2, site, bc_MPS='infinite' if infinite else 'finite',
                        bc=['periodic' if infinite else 'open', rng.choice(['open', 'periodic'])],
                        order=rng.choice(['default', 'snake']))
    N = lat.N_sites
    explicit = rng.random() < 0.3
    n_cells = 1 if not infinite else (3 if site.dim ** (3 * N) <= 300 else 2)
    mps_sites = lat.mps_sites()
    cplx = rng.random() < 0.4
    calls = []
    for _ in range(rng.randint(1, 4)):
        k = rng.choice([1, 2, 2, 3, 3, 4])
        # lattice indices; for an infinite lattice x0 may leave the unit cell (inside the window)
        idxs = []
        for _m in range(k):
            x = [rng.randrange(Lx) for Lx in lat.Ls] + [rng.randrange(len(lat.unit_cell))]
            if infinite:
                x[0] = rng.randint(0, lat.Ls[0] * (n_cells - 1))
            idxs.append(x)
        if infinite:
            # the left-most operator has to sit in the MPS unit cell (add_coupling_term rejects anything else)
            shift = min(int(lat.lat2mps_idx(x)) for x in idxs) // N
            for x in idxs:
                x[0] -= shift * lat.Ls[0]
        ops = oc.pick_ops(rng, [lat.unit_cell[x[-1]] for x in idxs])
        calls.append((fnum(rng, cplx), [(o, x) for o, x in zip(ops, idxs)], rng.random() < 0.4,
                      rng.choice([None, None, 'cat'])))

    class LM(CouplingMPOModel):
        def init_lattice(self, p):
            return lat

        def init_terms(self, p):
            for s, term, ph, cat in calls:
                self.add_local_term(s, term, category=cat, plus_hc=ph)
    M = LM({'explicit_plus_hc': explicit})
    # oracle
    mb = oc.ManyBody(mps_sites * n_cells)
    A, B = mb.zero(), mb.zero()
    for s, term, ph, _ in calls:
        mterm = [(o, int(lat.lat2mps_idx(x))) for o, x in term]
        shifts = [0] if not infinite else range(-n_cells - 2, n_cells + 2)
        for sh in shifts:
            t2 = [(o, i + sh * N) for o, i in mterm]
            if all(0 <= i < N * n_cells for _, i in t2):
                m = s * mb.product(t2)
                if ph:
                    B = B + m
                else:
                    A = A + m
    A, B = oc.dense(A), oc.dense(B)
    H = (0.5 * (A + A.conj().T) if explicit else A) + B + B.conj().T
    got = model_dense(M) if not infinite else cm.mpo_window_dense(M.H_MPO, N * n_cells)
    facts['api.add_local_term'] = True
    facts['api.add_local_term.' + ('infinite' if infinite else 'finite')] = True
    if not close(got, H, mscale(H)):
        fails.append(('property', 'api.add_local_term.dense_mismatch',
                      f'{kind} infinite={infinite} explicit={explicit} calls={calls!r}: differs by {oc.maxdiff(got, H):.3e}'))
    M.test_sanity()
    facts['api.test_sanity'] = True


def sc_update_time_parameter(rng, fails, facts):
    """Model.update_time_parameter: a model whose terms read options['time']"""
    from tenpy.models.model import CouplingMPOModel, NearestNeighborModel
    L = rng.randint(2, 4)
    J, h0, h1 = fnum(rng), fnum(rng), fnum(rng)

    class TM(CouplingMPOModel, NearestNeighborModel):
        default_lattice = 'Chain'
        force_default_lattice = True

        def init_sites(self, p):
            return oc.make_site({'cls': 'SpinHalfSite', 'kw': {'conserve': None}})

        def init_terms(self, p):
            t = p.get('time', 0.0, 'real')
            self.add_coupling(J, 0, 'Sz', 0, 'Sz', 1)
            self.add_onsite(h0 + h1 * t, 0, 'Sx')
    M = TM({'L': L, 'bc_MPS': 'finite'})
    t1 = rng.choice([0.25, 0.5, 1.0, 2.0])
    M2 = M.update_time_parameter(t1)
    mb = oc.ManyBody(M.lat.mps_sites())

    def ref(t):
        H = mb.zero()
        for i in range(L - 1):
            H = H + J * mb.product([('Sz', i), ('Sz', i + 1)])
        for i in range(L):
            H = H + (h0 + h1 * t) * mb.product([('Sx', i)])
        return oc.dense(H)
    facts['api.update_time_parameter'] = True
    d2 = model_dense(M2)
    if not close(d2, ref(t1), mscale(d2)):
        fails.append(('property', 'api.update_time_parameter.mismatch', f'H(t={t1}) differs by {oc.maxdiff(d2, ref(t1)):.3e}'))
    if float(M2.options['time']) != float(t1):
        fails.append(('property', 'api.update_time_parameter.time_option', f"options['time'] = {M2.options['time']!r}"))
    # the bond form follows as well
    from tenpy.algorithms.exact_diag import ExactDiag
    ed = ExactDiag(M2)
    ed.build_full_H_from_bonds()
    if not close(cm.ed_dense(ed), ref(t1), mscale(d2)):
        fails.append(('property', 'api.update_time_parameter.H_bond_mismatch', 'H_bond of the updated model is not H(t)'))


def _rand_nn_model(rng, finite=True, L=None, conserve=False):
    from tenpy.models.model import CouplingMPOModel, NearestNeighborModel
    specs = [s for s in SIMPLE_SITES if (s['kw'].get('conserve') is not None) == conserve or not conserve]
    spec = rng.choice(specs)
    site = oc.make_site(spec)
    L = L or (rng.randint(2, 5) if finite else rng.randint(1, 3))
    cplx = rng.random() < 0.3
    terms = []
    for _ in range(rng.randint(1, 3)):
        ops = oc.pick_ops(rng, [site, site])
        terms.append(('c', fnum(rng, cplx), ops[0], ops[1], rng.random() < 0.5))
    good = [o for o in oc.candidate_ops(site) if oc.neutral([(site, o)]) and o != 'Id']
    for _ in range(rng.randint(0, 2)):
        if good:
            terms.append(('o', [fnum(rng) for _ in range(L)], rng.choice(good)))

    class NN(CouplingMPOModel, NearestNeighborModel):
        default_lattice = 'Chain'
        force_default_lattice = True

        def init_sites(self, p):
            return site

        def init_terms(self, p):
            for t in terms:
                if t[0] == 'c':
                    self.add_coupling(t[1], 0, t[2], 0, t[3], 1, plus_hc=t[4])
                else:
                    for i, s in enumerate(t[1]):
                        self.add_onsite_term(s, i, t[2])
    M = NN({'L': L, 'bc_MPS': 'finite' if finite else 'infinite', 'bc_x': 'open' if finite else 'periodic'})

    def ref(n_sites, sites=None):
        mb = oc.ManyBody((sites or M.lat.mps_sites() * (n_sites // L + 1))[:n_sites])
        H = mb.zero()
        for t in terms:
            if t[0] == 'c':
                for i in range(n_sites - 1):
                    m = t[1] * mb.product([(t[2], i), (t[3], i + 1)])
                    H = H + m
                    if t[4]:
                        H = H + m.conj().T
            else:
                for i in range(n_sites):
                    H = H + t[1][i % L] * mb.product([(t[2], i)])
        return oc.dense(H)
    return M, ref, spec


def sc_model_copy_segment(rng, fails, facts):
    """Model.copy, Model.extract_segment (finite), enlarge_mps_unit_cell, group_sites on MPOModel and
    NearestNeighborModel (H_bond grouped as well), trivial_like_NNModel, from_MPOModel (finite)"""
    from tenpy.algorithms.exact_diag import ExactDiag
    from tenpy.models.model import NearestNeighborModel
    M, ref, spec = _rand_nn_model(rng, finite=True, L=rng.randint(3, 6))
    L = M.lat.N_sites
    H = ref(L)
    sc = mscale(H)
    M2 = M.copy()
    facts['api.copy'] = True
    if not close(model_dense(M2), H, sc):
        fails.append(('property', 'api.copy.mismatch', 'copy() denotes another operator'))
    # group the copy: the original must not change
    n = rng.choice([2, 2, 3])
    M2.group_sites(n)
    facts['api.group_sites.NearestNeighborModel'] = True
    if not close(model_dense(M), H, sc) or M.lat.N_sites != L:
        fails.append(('property', 'api.copy.not_independent', 'group_sites on the copy changed the original'))
    ed = ExactDiag(M2, max_size=1e9)
    ed.build_full_H_from_mpo()
    if M2.lat.N_sites == 1 and ed.full_H.rank == 3:
        facts['api.ExactDiag.single_site'] = True
        fails.append(('property', 'api.ExactDiag.build_full_H_from_mpo.single_site',
                      f'model of one (grouped) site: full_H has legs {ed.full_H.get_leg_labels()} — the right virtual leg is '
                      'only projected on IdR inside the loop over the sites 1 … L-1'))
        got = cm.mpo_window_dense(M2.H_MPO, 1)
    else:
        got = cm.ed_dense(ed)
    if not close(got, H, sc):
        fails.append(('property', 'api.group_sites.mpo_mismatch', f'grouped (n={n}) MPO differs by {oc.maxdiff(got, H):.3e}'))
    if M2.lat.N_sites >= 2:
        ed = ExactDiag(M2, max_size=1e9)
        ed.build_full_H_from_bonds()
        if not close(cm.ed_dense(ed), H, sc):
            fails.append(('property', 'api.group_sites.H_bond_mismatch',
                          f'grouped (n={n}, L={L}) H_bond differs by {oc.maxdiff(cm.ed_dense(ed), H):.3e}'))
    # trivial_like_NNModel
    T = M.trivial_like_NNModel()
    facts['api.trivial_like_NNModel'] = True
    ed = ExactDiag(T, max_size=1e9)
    ed.build_full_H_from_bonds()
    if np.max(np.abs(cm.ed_dense(ed))) != 0 or T.lat is not M.lat and T.lat.N_sites != L:
        fails.append(('property', 'api.trivial_like_NNModel.nonzero', 'trivial model has non-zero bonds'))
    # from_MPOModel (finite)
    nn2 = NearestNeighborModel.from_MPOModel(M)
    facts['api.from_MPOModel.finite'] = True
    ed = ExactDiag(nn2, max_size=1e9)
    ed.build_full_H_from_bonds()
    if not close(cm.ed_dense(ed), H, sc):
        fails.append(('property', 'api.from_MPOModel.mismatch', f'differs by {oc.maxdiff(cm.ed_dense(ed), H):.3e}'))
    # extract_segment of the finite model: the terms inside [first, last]; on-site parts of the cut bonds stay on-site
    if L >= 3:
        first = rng.randint(0, L - 2)
        last = rng.randint(first + 1, L - 1)
        S = M.extract_segment(first, last)
        facts['api.extract_segment.finite'] = True
        want = ref_segment(M, first, last)
        gotm = model_dense_segment(S)
        if not close(gotm, want, sc):
            fails.append(('property', 'api.extract_segment.mpo_mismatch',
                          f'segment [{first}, {last}] of L={L}: MPO differs by {oc.maxdiff(gotm, want):.3e}'))


def ref_segment(M, first, last):
    """terms of the model's own (exactly verified) term lists lying inside [first, last]; nearest-neighbour models: the
    coupling term list already carries the Jordan-Wigner factors ('C JW' etc.), so the plain Kronecker product is right"""
    L = M.lat.N_sites
    sites = [M.lat.mps_sites()[i % L] for i in range(first, last + 1)]
    ns = last - first + 1
    mb = oc.ManyBody(sites)
    H = mb.zero()
    finite = M.lat.bc_MPS == 'finite'
    for tl in (M.all_onsite_terms().to_TermList(), M.all_coupling_terms().to_TermList()):
        for t, s in zip(tl.terms, tl.strength):
            idx = [i for _, i in t]
            assert max(idx) - min(idx) <= 1
            for sh in ([0] if finite else range(-3, (first + ns) // L + 3)):
                t2 = {int(i) + sh * L - first: o for o, i in t}
                if all(0 <= i < ns for i in t2):
                    H = H + complex(s) * mb.string(t2)
    H = oc.dense(H)
    if M.explicit_plus_hc:
        H = H + H.conj().T
    return H


def model_dense_segment(S):
    H = S.H_MPO
    return cm.mpo_window_dense(H, H.L)


def sc_infinite_model_ops(rng, fails, facts):
    """infinite models: enlarge_mps_unit_cell, group_sites, extract_segment, copy — window operators"""
    M, ref, spec = _rand_nn_model(rng, finite=False)
    L = M.lat.N_sites
    d = M.lat.mps_sites()[0].dim
    n = max(2, L) * 2
    while d ** n > 1100 and n > 2:
        n -= 1
    H = ref(n)
    sc = mscale(H)
    facts['api.infinite.window'] = True
    if not close(cm.mpo_window_dense(M.H_MPO, n), H, sc):
        fails.append(('property', 'api.infinite.window_mismatch', 'window operator differs from the oracle'))
        return
    # (Model.copy() is documented as shallow: the lattice is shared and enlarge_mps_unit_cell works on it in place)
    M2 = copy.deepcopy(M)
    f = rng.choice([2, 3])
    M2.enlarge_mps_unit_cell(f)
    facts['api.enlarge_mps_unit_cell'] = True
    if M2.lat.N_sites != f * L or not close(cm.mpo_window_dense(M2.H_MPO, n), H, sc):
        fails.append(('property', 'api.enlarge_mps_unit_cell.mismatch', f'factor {f}'))
    # bonds of the enlarged nearest-neighbour model
    Hb = cm.bonds_window_dense(M2.H_bond, [d] * n, n)
    if not float(np.max(np.abs(cm.strip_boundary_onsite(Hb - H, [d] * n)))) <= TOL * sc:
        fails.append(('property', 'api.enlarge_mps_unit_cell.H_bond_mismatch', f'factor {f}'))
    # segment of the infinite model
    first = rng.randint(0, L)
    last = first + rng.randint(1, max(1, n - 1 - 0) - 1 if n > 2 else 1)
    last = min(last, first + n - 1)
    S = M.extract_segment(first, last)
    facts['api.extract_segment.infinite'] = True
    ns = last - first + 1
    sites_seg = [M.lat.mps_sites()[i % L] for i in range(first, last + 1)]
    want = shifted_ref(M, ref, first, ns)
    got = cm.mpo_window_dense(S.H_MPO, ns)
    if not close(got, want, sc):
        fails.append(('property', 'api.extract_segment.infinite_mismatch',
                      f'segment [{first}, {last}] (L={L}) differs by {oc.maxdiff(got, want):.3e}'))
    if M.lat.N_sites % 2 == 0 or True:
        M3 = copy.deepcopy(M)
        if M3.lat.N_sites % 2 == 1:
            M3.enlarge_mps_unit_cell(2)
        M3.group_sites(2)
        facts['api.group_sites.infinite'] = True
        ng = n // 2
        if ng >= 1:
            got = cm.mpo_window_dense(M3.H_MPO, ng)
            if not close(got, ref(2 * ng), sc):
                fails.append(('property', 'api.group_sites.infinite_mismatch', f'differs by {oc.maxdiff(got, ref(2 * ng)):.3e}'))


def shifted_ref(M, ref, first, ns):
    return ref_segment(M, first, first + ns - 1)


def sc_termlist_ops(rng, fails, facts):
    """TermList: +, *, order_combine, to_OnsiteTerms_CouplingTerms, limits, shift, max_range, from_lattice_locations,
    __str__; containers: __iadd__, remove_zeros, max_range, _test_terms"""
    from tenpy.networks.terms import TermList, OnsiteTerms, CouplingTerms, MultiCouplingTerms, order_combine_term
    from tenpy.networks.mpo import MPOGraph
    spec = rng.choice(SIMPLE_SITES)
    site = oc.make_site(spec)
    L = rng.randint(2, 5 if site.dim == 2 else 3)
    sites = [site] * L
    mb = oc.ManyBody(sites)
    cplx = rng.random() < 0.4
    t1, s1 = rand_terms(rng, sites, rng.randint(1, 4), cplx=cplx)
    t2, s2 = rand_terms(rng, sites, rng.randint(1, 3), cplx=cplx)
    A, B = TermList(t1, s1), TermList(t2, s2)
    U1 = TermList(t1, 2.0)        # one strength for all terms
    if list(U1.strength) != [2.0] * len(t1):
        fails.append(('property', 'api.TermList.scalar_strength', repr(U1.strength)))
    try:
        TermList(t1, list(s1) + [1.0])
        fails.append(('property', 'api.TermList.length_check', 'no ValueError for a strength list of the wrong length'))
    except ValueError:
        pass
    for x, y in A:                # iteration yields (term, strength)
        pass
    dA, dB = termlist_dense(mb, t1, s1), termlist_dense(mb, t2, s2)
    sc = mscale(dA, dB)
    facts['api.TermList'] = True
    S = A + B
    if not close(termlist_dense(mb, S.terms, S.strength), dA + dB, sc) or len(S.terms) != len(t1) + len(t2):
        fails.append(('property', 'api.TermList.add', 'A + B is not the sum'))
    c = fnum(rng, cplx)
    P = A * c
    if not close(termlist_dense(mb, P.terms, P.strength), c * dA, sc) or \
            not close(termlist_dense(mb, A.terms, A.strength), dA, sc):
        fails.append(('property', 'api.TermList.mul', 'A * c is not the multiple (or A changed)'))
    # limits / max_range
    allidx = [i for t in t1 for _, i in t]
    lim = A.limits()
    if tuple(int(x) for x in lim) != (min(allidx), max(allidx)):
        fails.append(('property', 'api.TermList.limits', f'{lim} vs {(min(allidx), max(allidx))}'))
    mr = A.max_range()
    want_mr = max(max(i for _, i in t) - min(i for _, i in t) for t in t1)
    if int(mr) != want_mr:
        fails.append(('property', 'api.TermList.max_range', f'{mr} vs {want_mr}'))
    str(A)
    # shift: indices move, operator (on a longer chain) moves along
    sh = rng.randint(1, 2)
    C = A.shift(sh)
    if [[(o, i + sh) for o, i in t] for t in t1] != [[(o, int(i)) for o, i in t] for t in C.terms] or \
            [[(o, int(i)) for o, i in t] for t in A.terms] != [[(o, i) for o, i in t] for t in t1]:
        fails.append(('property', 'api.TermList.shift', 'shift(n) does not return a copy with n added to every site index'))
    # order_combine: same operator (fermionic signs go into the strength), sites ascending, one operator per site
    D = TermList([list(t) for t in t1], list(s1))
    D.order_combine(sites)
    facts['api.TermList.order_combine'] = True
    for t in D.terms:
        idx = [i for _, i in t]
        if idx != sorted(set(idx)):
            fails.append(('property', 'api.TermList.order_combine.not_ordered', repr(t)))
            break
    if not close(termlist_dense(mb, D.terms, D.strength), dA, sc):
        fails.append(('property', 'api.TermList.order_combine.mismatch',
                      f'differs by {oc.maxdiff(termlist_dense(mb, D.terms, D.strength), dA):.3e}: {t1} -> {D.terms}'))
    # to_OnsiteTerms_CouplingTerms -> containers -> graph -> MPO
    ot, ct = A.to_OnsiteTerms_CouplingTerms(sites)
    facts['api.TermList.to_OnsiteTerms_CouplingTerms'] = True
    H = MPOGraph.from_terms((ot, ct), sites, 'finite', unit_cell_width=L).build_MPO() if (len(t1) > 0) else None
    if H is not None:
        got = cm.mpo_window_dense(H, L)
        if not close(got, dA, sc):
            fails.append(('property', 'api.TermList.to_OnsiteTerms_CouplingTerms.mismatch', f'differs by {oc.maxdiff(got, dA):.3e}'))
    ot._test_terms(sites)
    ct._test_terms(sites)
    # containers: __iadd__, remove_zeros, max_range
    ot2, ct2 = B.to_OnsiteTerms_CouplingTerms(sites)
    ot += ot2
    if isinstance(ct2, MultiCouplingTerms) and not isinstance(ct, MultiCouplingTerms):
        ct, ct2 = ct2, ct
    ct += ct2
    facts['api.terms.__iadd__'] = True
    tl_o, tl_c = ot.to_TermList(), ct.to_TermList()
    got = containers_dense(ot, ct, sites)
    if not close(got, dA + dB, sc):
        fails.append(('property', 'api.terms.__iadd__.mismatch', f'differs by {oc.maxdiff(got, dA + dB):.3e}'))
    if int(ct.max_range()) != max([0] + [max(i for _, i in t) - min(i for _, i in t) for t in tl_c.terms]) and \
            not isinstance(ct, MultiCouplingTerms):
        fails.append(('property', 'api.terms.max_range', f'{ct.max_range()}'))
    if ot.max_range() != 0:
        fails.append(('property', 'api.OnsiteTerms.max_range', f'{ot.max_range()}'))
    # remove_zeros: add -A: only B stays; nothing with strength 0 is left in to_TermList
    otm, ctm = (A * -1.0).to_OnsiteTerms_CouplingTerms(sites)
    ot += otm
    if isinstance(ctm, MultiCouplingTerms) and not isinstance(ct, MultiCouplingTerms):
        new = MultiCouplingTerms(L)
        new += ct
        ct = new
    ct += ctm
    ot.remove_zeros()
    ct.remove_zeros()
    facts['api.terms.remove_zeros'] = True
    tl_o, tl_c = ot.to_TermList(), ct.to_TermList()
    if any(abs(s) == 0 for s in list(tl_o.strength) + list(tl_c.strength)):
        fails.append(('property', 'api.terms.remove_zeros.zero_left', 'a zero strength survives remove_zeros()'))
    got = containers_dense(ot, ct, sites)
    if not close(got, dB, sc):
        fails.append(('property', 'api.terms.remove_zeros.mismatch', f'differs by {oc.maxdiff(got, dB):.3e}'))
    ct._test_terms(sites)
    # from_lattice_locations
    from tenpy.models import lattice as Lt
    lat = Lt.Square(2, 2, site, order=rng.choice(['default', 'snake']), bc_MPS='finite', bc='open')
    locs = [[(o, [rng.randrange(2), rng.randrange(2), 0]) for o, _ in t] for t in t1]
    F = TermList.from_lattice_locations(lat, locs, list(s1))
    facts['api.TermList.from_lattice_locations'] = True
    want = [[(o, int(lat.lat2mps_idx(x))) for o, x in t] for t in locs]
    if [[(o, int(i)) for o, i in t] for t in F.terms] != want:
        fails.append(('property', 'api.TermList.from_lattice_locations', f'{F.terms} vs {want}'))


def containers_dense(ot, ct, sites):
    """dense operator of an (OnsiteTerms, CouplingTerms | MultiCouplingTerms) pair through the MPO graph (the graph
    construction is what the main part of this check verifies exactly); the term lists of the coupling containers do
    not carry the operator strings, so they cannot be evaluated directly"""
    from tenpy.networks.mpo import MPOGraph
    L = len(sites)
    D = int(np.prod([s.dim for s in sites]))
    tl_o, tl_c = ot.to_TermList(), ct.to_TermList()
    if len(tl_o.terms) + len(tl_c.terms) == 0:
        return np.zeros((D, D))
    H = MPOGraph.from_terms((ot, ct), sites, 'finite', unit_cell_width=L).build_MPO()
    return cm.mpo_window_dense(H, L)


def sc_exp_decay(rng, fails, facts):
    """ExponentiallyDecayingTerms: to_TermList(bc='infinite', cutoff), __iadd__, max_range, _test_terms;
    add_exponentially_decaying_coupling with subsites / subsites_start"""
    from tenpy.networks.terms import ExponentiallyDecayingTerms
    site = oc.make_site(rng.choice([s for s in SIMPLE_SITES if s['cls'] != 'FermionSite']))
    L = rng.randint(1, 3)
    sites = [site] * L
    good = [o for o in oc.candidate_ops(site) if oc.neutral([(site, o)]) and o != 'Id']
    e1, e2 = ExponentiallyDecayingTerms(L), ExponentiallyDecayingTerms(L)
    specs = []
    for e in (e1, e2):
        for _ in range(rng.randint(1, 2)):
            lam = rng.choice([0.5, 0.25, -0.5])
            s = fnum(rng)
            oi, oj = rng.choice(good), rng.choice(good)
            subs = None if rng.random() < 0.5 else sorted(rng.sample(range(L), rng.randint(1, L)))
            e.add_exponentially_decaying_coupling(s, lam, oi, oj, subsites=subs, op_string='Id')
            specs.append((s, lam, oi, oj, list(range(L)) if subs is None else subs))
    if L >= 2 and rng.random() < 0.5:
        e2.add_centered_exponentially_decaying_term(fnum(rng), 0.5, rng.choice(good), rng.choice(good), rng.randrange(L), op_string="Id")
        centred = True
    else:
        centred = False
    n_before = len(e1.exp_decaying_terms)
    e1 += e2
    facts['api.ExponentiallyDecayingTerms.__iadd__'] = True
    if len(e1.exp_decaying_terms) != n_before + len(e2.exp_decaying_terms) or \
            len(e1.centered_terms) != len(e2.centered_terms):
        fails.append(('property', 'api.ExponentiallyDecayingTerms.__iadd__.count', 'terms lost or duplicated'))
    e1._test_terms(sites)
    try:
        bad = ExponentiallyDecayingTerms(L)
        bad.add_exponentially_decaying_coupling(1.0, 0.5, 'no_such_op', good[0], op_string='Id')
        bad._test_terms(sites)
        fails.append(('property', 'api.ExponentiallyDecayingTerms._test_terms.accepts_unknown_op', ''))
    except ValueError:
        pass
    if centred:
        return
    if e1.max_range() != np.inf:
        fails.append(('property', 'api.ExponentiallyDecayingTerms.max_range', repr(e1.max_range())))
    cutoff = 1e-3
    tl = e1.to_TermList(cutoff=cutoff, bc='infinite')
    facts['api.ExponentiallyDecayingTerms.to_TermList.infinite'] = True
    # brute force from the docstring: sum_{i in subsites (first unit cell), j > i in subsites (all cells)}
    # strength * lambda^{number of subsites in (i, j]} op_i op_j, kept while |coefficient| >= cutoff
    want = {}
    for s, lam, oi, oj, subs in specs:
        for i in subs:
            k = 0
            j = i
            while True:
                j += 1
                if j % L not in subs:
                    continue
                k += 1
                c = s * lam ** k
                if abs(c) < cutoff:
                    break
                key = ((oi, i), (oj, j))
                want[key] = want.get(key, 0.0) + c
    got = {}
    for t, c in zip(tl.terms, tl.strength):
        key = tuple((o, int(i)) for o, i in t)
        got[key] = got.get(key, 0.0) + c
    keys = set(want) | set(got)
    bad = [k for k in keys if abs(want.get(k, 0.0) - got.get(k, 0.0)) > 1e-12]
    if bad:
        k = bad[0]
        fails.append(('property', 'api.ExponentiallyDecayingTerms.to_TermList.infinite_mismatch',
                      f'{len(bad)} entries differ, e.g. {k}: got {got.get(k)} want {want.get(k)} (specs {specs})'))


def sc_exact_diag(rng, fails, facts):
    """ExactDiag: charge_sector, possible_charge_sectors, from_H_mpo, build_full_H_from_bonds, full_diagonalization,
    groundstate (with and without sector), exp_H, mps_to_full / full_to_mps, matvec, sparse_diag;
    get_full_wavefunction, get_numpy_Hamiltonian / get_scipy_sparse_Hamiltonian"""
    import scipy.linalg
    import tenpy.linalg.np_conserved as npc
    from tenpy.algorithms.exact_diag import ExactDiag, get_full_wavefunction, get_numpy_Hamiltonian, \
        get_scipy_sparse_Hamiltonian
    from tenpy.networks.mps import MPS
    M, ref, spec = _rand_nn_model(rng, finite=True, L=rng.randint(2, 5), conserve=rng.random() < 0.7)
    sites = M.lat.mps_sites()
    L = len(sites)
    H = ref(L)
    # hermitian part only (groundstate etc. assume a Hamiltonian): use models with a hermitian operator
    if oc.herm_defect(H) > 1e-12:
        return sc_exact_diag(rng, fails, facts)
    sc = mscale(H)
    chinfo = sites[0].leg.chinfo
    ed = ExactDiag(M, max_size=1e9)
    ed.build_full_H_from_mpo()
    n_k, m = cm.pipe_index_map(ed._pipe)         # m[k] = pipe index of the k-th Kronecker state
    inv = np.empty_like(m)
    inv[m] = np.arange(len(m))
    qflat = ed._pipe.to_qflat()
    facts['api.ExactDiag'] = True
    # from_H_mpo and from bonds
    ed2 = ExactDiag.from_H_mpo(M.H_MPO, max_size=1e9)
    ed2.build_full_H_from_mpo()
    ed3 = ExactDiag(M, max_size=1e9)
    ed3.build_full_H_from_bonds()
    for name, e in (('from_H_mpo', ed2), ('from_bonds', ed3)):
        if not close(cm.ed_dense(e), H, sc):
            fails.append(('property', f'api.ExactDiag.{name}.mismatch', f'differs by {oc.maxdiff(cm.ed_dense(e), H):.3e}'))
    # exporters
    for name, fn in (('get_numpy_Hamiltonian', lambda: get_numpy_Hamiltonian(M, undo_sort_charge=False)),
                     ('get_scipy_sparse_Hamiltonian', lambda: get_scipy_sparse_Hamiltonian(M, undo_sort_charge=False).toarray())):
        got = fn()
        if not close(got, H, sc):
            fails.append(('property', f'api.{name}.mismatch', f'differs by {oc.maxdiff(got, H):.3e}'))
    # max_size: refuses (warning, full_H stays None) instead of allocating; exp_H / groundstate need the diagonalization
    small = ExactDiag(M, max_size=4.0)
    small.build_full_H_from_mpo()
    small.build_full_H_from_bonds()
    if small.full_H is not None:
        fails.append(('property', 'api.ExactDiag.max_size', 'full_H built although the size exceeds max_size'))
    for fn in (lambda: ed.exp_H(0.1), lambda: ed.groundstate(), lambda: small.full_diagonalization()):
        try:
            fn()
            fails.append(('property', 'api.ExactDiag.missing_precondition_error', 'no ValueError before the needed step'))
        except ValueError:
            pass
    # full diagonalization
    ed.full_diagonalization()
    E_ref = np.linalg.eigvalsh(H)
    if not close(np.sort(ed.E), E_ref, sc):
        fails.append(('property', 'api.ExactDiag.full_diagonalization.eigenvalues', f'{np.sort(ed.E)[:4]} vs {E_ref[:4]}'))
    V = ed.V.to_ndarray()[m, :]                  # rows in Kronecker order
    if not close(H @ V, V * ed.E[np.newaxis, :], sc) or not close(V.conj().T @ V, np.eye(V.shape[1])):
        fails.append(('property', 'api.ExactDiag.full_diagonalization.eigenvectors', 'H V != V E or V not unitary'))
    # groundstate
    E0, psi0 = ed.groundstate()
    v0 = psi0.to_ndarray()[m]
    if abs(E0 - E_ref[0]) > TOL * sc or not close(H @ v0, E0 * v0, sc):
        fails.append(('property', 'api.ExactDiag.groundstate', f'E0 = {E0} vs {E_ref[0]}'))
    # exp_H
    dt = rng.choice([0.25, 0.5, 1.0])
    U = ed.exp_H(dt).to_ndarray()[np.ix_(m, m)]
    if not close(U, scipy.linalg.expm(-1j * dt * H), 1.0):
        fails.append(('property', 'api.ExactDiag.exp_H', f'differs from expm(-i dt H) by {oc.maxdiff(U, scipy.linalg.expm(-1j * dt * H)):.3e}'))
    # sectors
    sectors = ed.possible_charge_sectors()
    want_sec = {tuple(int(x) for x in q) for q in qflat}
    if {tuple(int(x) for x in q) for q in sectors} != want_sec:
        fails.append(('property', 'api.ExactDiag.possible_charge_sectors', f'{sectors} vs {sorted(want_sec)}'))
    q = list(sectors[rng.randrange(len(sectors))])
    mask = np.all(qflat == np.asarray(q)[np.newaxis, :], axis=1)
    pidx = np.nonzero(mask)[0]                   # pipe indices of the sector, ascending
    kidx = inv[pidx]                             # their Kronecker indices
    Hs = H[np.ix_(kidx, kidx)]
    Es_ref = np.linalg.eigvalsh(Hs)
    E0s, psi0s = ed.groundstate(charge_sector=q)
    if abs(E0s - Es_ref[0]) > TOL * sc:
        fails.append(('property', 'api.ExactDiag.groundstate.sector', f'sector {q}: {E0s} vs {Es_ref[0]}'))
    v = psi0s.to_ndarray()[m]
    if np.max(np.abs(np.delete(v, kidx))) > 1e-12 if len(kidx) < len(v) else False:
        fails.append(('property', 'api.ExactDiag.groundstate.sector_leak', f'state of sector {q} has weight outside'))
    eds = ExactDiag(M, charge_sector=q, max_size=1e9)
    eds.build_full_H_from_mpo()
    facts['api.ExactDiag.charge_sector'] = True
    got = eds.full_H.to_ndarray()
    if got.shape != Hs.shape or not close(got, Hs, sc):
        fails.append(('property', 'api.ExactDiag.charge_sector.mismatch', f'sector {q} of dimension {len(kidx)}'))
    eds.full_diagonalization()
    if not close(np.sort(eds.E), Es_ref, sc):
        fails.append(('property', 'api.ExactDiag.charge_sector.eigenvalues', f'sector {q}'))
    edb = ExactDiag(M, charge_sector=q, max_size=1e9)
    edb.build_full_H_from_bonds()
    if not close(edb.full_H.to_ndarray(), Hs, sc):
        fails.append(('property', 'api.ExactDiag.charge_sector.from_bonds_mismatch', f'sector {q}'))
    # sparse_diag
    if len(kidx) >= 4:
        k = 2
        Ek, Vk = eds.sparse_diag(k, which='SR')
        facts['api.ExactDiag.sparse_diag'] = True
        if not close(np.sort(np.real(Ek)), Es_ref[:k], sc * 10):
            fails.append(('property', 'api.ExactDiag.sparse_diag', f'{np.sort(np.real(Ek))} vs {Es_ref[:k]}'))
    # states: mps_to_full, full_to_mps, matvec, get_full_wavefunction
    rs = np.random.RandomState(rng.randrange(1 << 30))
    vec = np.zeros(len(m), dtype=complex)
    vec[kidx] = rs.randint(-3, 4, size=len(kidx)) + 1j * rs.randint(-3, 4, size=len(kidx))
    if not np.any(vec):
        vec[kidx[0]] = 1.0
    vec /= np.linalg.norm(vec)
    dims = [s.dim for s in sites]
    psi_npc = npc.Array.from_ndarray(vec.reshape(dims), [s.leg for s in sites], qtotal=q, labels=['p%d' % i for i in range(L)])
    psi = MPS.from_full(sites, psi_npc, form='B', normalize=True, unit_cell_width=L)
    full = ed.mps_to_full(psi)
    facts['api.ExactDiag.mps_to_full'] = True
    got = full.to_ndarray()[m]
    ph = np.vdot(vec, got)
    if abs(abs(ph) - 1) > 1e-10:
        fails.append(('property', 'api.ExactDiag.mps_to_full', f'overlap with the state the MPS was made of: {abs(ph)}'))
    gw = get_full_wavefunction(psi, undo_sort_charge=False)
    if abs(abs(np.vdot(vec, gw)) - 1) > 1e-10:
        fails.append(('property', 'api.get_full_wavefunction', 'differs from the state'))
    gw2 = get_full_wavefunction(psi, undo_sort_charge=True)
    perm = cm.kron_perm([s.perm for s in sites])
    # undo_sort_charge: component of the original (unsorted) basis state a is the component of the internal state
    # whose perm is a:  gw2[perm[k]] = gw[k]
    ref2 = np.empty_like(gw)
    ref2[perm] = gw
    if not close(gw2, ref2):
        fails.append(('property', 'api.get_full_wavefunction.undo_sort_charge', 'basis permutation differs from site.perm'))
    Hv = ed.matvec(full).to_ndarray()[m]
    if not close(Hv, H @ got, sc):
        fails.append(('property', 'api.ExactDiag.matvec', 'full_H psi differs from the dense product'))
    back = ed.full_to_mps(full)
    facts['api.ExactDiag.full_to_mps'] = True
    if abs(abs(back.overlap(psi)) - 1) > 1e-10:
        fails.append(('property', 'api.ExactDiag.full_to_mps', f'overlap {back.overlap(psi)}'))
    # the same in the projected sector
    fs = eds.mps_to_full(psi)
    if fs.to_ndarray().shape != (len(kidx),) or abs(abs(np.vdot(vec[kidx], fs.to_ndarray())) - 1) > 1e-10:
        fails.append(('property', 'api.ExactDiag.charge_sector.mps_to_full', f'sector {q}'))
    back = eds.full_to_mps(fs)
    if abs(abs(back.overlap(psi)) - 1) > 1e-10:
        fails.append(('property', 'api.ExactDiag.charge_sector.full_to_mps', f'overlap {back.overlap(psi)}'))
    # the energy of the state by three routes
    e_ref = np.real(np.vdot(vec, H @ vec))
    e_mpo = M.H_MPO.expectation_value(psi)
    e_bond = np.sum(M.bond_energies(psi))
    if abs(e_mpo - e_ref) > TOL * sc * 10 or abs(e_bond - e_ref) > TOL * sc * 10:
        fails.append(('property', 'api.energy.finite', f'MPO {e_mpo} bonds {e_bond} dense {e_ref}'))


def sc_model_options(rng, fails, facts):
    """CouplingMPOModel options: lattice by name, order, bc_MPS, bc_x/bc_y, sort_mpo_legs, explicit_plus_hc — the same
    operator whatever the options; Model.rng; estimate_RAM_saving_factor"""
    from tenpy.models.model import CouplingMPOModel
    from tenpy.algorithms.exact_diag import ExactDiag
    spec = rng.choice(SIMPLE_SITES[:5])
    site = oc.make_site(spec)
    lattice = rng.choice(['Chain', 'Ladder', 'Square'])
    Lx = rng.randint(2, 3) if lattice != 'Chain' else rng.randint(2, 5)
    Ly = 2
    J = fnum(rng, rng.random() < 0.4)
    h = fnum(rng)
    ops = oc.pick_ops(rng, [site, site])
    # explicit_plus_hc=True represents (stored + stored^dagger): terms added without plus_hc have to be hermitian
    good = [o for o in oc.candidate_ops(site) if oc.neutral([(site, o)]) and o != 'Id' and site.get_hc_op_name(o) == o]
    hop = rng.choice(good)

    class OM(CouplingMPOModel):
        def init_sites(self, p):
            return site

        def init_terms(self, p):
            for u1, u2, dx in self.lat.pairs['nearest_neighbors']:
                self.add_coupling(J, u1, ops[0], u2, ops[1], dx, plus_hc=True)
            for u in range(len(self.lat.unit_cell)):
                self.add_onsite(h, u, hop)

    def build(order, sort, explicit):
        p = {'lattice': lattice, 'Lx': Lx, 'Ly': Ly, 'L': Lx, 'bc_MPS': 'finite', 'bc_x': 'open', 'bc_y': 'open',
             'sort_mpo_legs': sort, 'explicit_plus_hc': explicit}
        if lattice == 'Chain':
            for k in ('Lx', 'Ly', 'bc_y'):
                p.pop(k)
        else:
            p.pop('L')
            if lattice == 'Ladder':
                p.pop('Ly')
                p.pop('bc_y')
            p['order'] = order
        return OM(p)

    def dense_in_lattice_order(M):
        """dense operator with the sites reordered from MPS order to the C-order of the lattice indices"""
        ed = ExactDiag(M, max_size=1e9)
        ed.build_full_H_from_mpo()
        Hm = cm.ed_dense(ed)
        n = M.lat.N_sites
        d = site.dim
        order = M.lat.order                       # order[i] = lattice index of MPS site i
        keys = [tuple(int(x) for x in o) for o in order]
        perm = sorted(range(n), key=lambda i: keys[i])   # MPS positions sorted by lattice index
        T = Hm.reshape([d] * (2 * n))
        T = T.transpose(perm + [n + p for p in perm])
        return T.reshape(d ** n, d ** n)
    base = build('default', False, False)
    H0 = dense_in_lattice_order(base)
    sc = mscale(H0)
    facts['api.options'] = True
    # bosonic operators only: reordering the MPS changes no sign
    if any(site.op_needs_JW(o) for o in ops):
        orders = ['default']
    else:
        orders = ['default', 'snake', 'Cstyle', 'Fstyle'] if lattice != 'Chain' else ['default']
    for order in orders:
        for sort in (False, True):
            for explicit in (False, True):
                M = build(order, sort, explicit)
                facts[f'api.options.order={order}'] = True
                if sort:
                    facts['api.options.sort_mpo_legs'] = True
                if explicit:
                    facts['api.options.explicit_plus_hc'] = True
                if M.H_MPO.explicit_plus_hc != explicit:
                    fails.append(('property', 'api.options.explicit_flag', 'flag not on the MPO'))
                Hm = dense_in_lattice_order(M)
                if not close(Hm, H0, sc):
                    fails.append(('property', 'api.options.mismatch',
                                  f'{lattice} order={order} sort_mpo_legs={sort} explicit_plus_hc={explicit}: differs by '
                                  f'{oc.maxdiff(Hm, H0):.3e}'))
    # rng: reproducible from the random_seed option
    a = OM({'lattice': 'Chain', 'L': 2, 'random_seed': 7}).rng.integers(0, 1 << 30, 4)
    b = OM({'lattice': 'Chain', 'L': 2, 'random_seed': 7}).rng.integers(0, 1 << 30, 4)
    facts['api.rng'] = True
    if list(a) != list(b):
        fails.append(('property', 'api.rng.not_reproducible', f'{a} vs {b}'))
    f = base.estimate_RAM_saving_factor()
    facts['api.estimate_RAM_saving_factor'] = True
    if not (0 < f <= 1.0 + 1e-12):
        fails.append(('property', 'api.estimate_RAM_saving_factor.range', f'{f}'))


SCENARIOS = {
    'add_local_term': sc_add_local_term,
    'update_time_parameter': sc_update_time_parameter,
    'model_copy_segment': sc_model_copy_segment,
    'infinite_model_ops': sc_infinite_model_ops,
    'termlist_ops': sc_termlist_ops,
    'exp_decay': sc_exp_decay,
    'exact_diag': sc_exact_diag,
    'model_options': sc_model_options,
}
WEIGHTS = {'add_local_term': 8, 'update_time_parameter': 2, 'model_copy_segment': 5, 'infinite_model_ops': 5,
           'termlist_ops': 8, 'exp_decay': 4, 'exact_diag': 6, 'model_options': 2}


def gen_cases(rng, n):
    names = [k for k, w in WEIGHTS.items() for _ in range(w)]
    out = []
    # every scenario at least once, then by weight
    for k in SCENARIOS:
        out.append({'kind': 'api', 'name': k, 'seed': rng.randrange(1 << 30)})
    while len(out) < n:
        out.append({'kind': 'api', 'name': rng.choice(names), 'seed': rng.randrange(1 << 30)})
    return out[:max(n, len(SCENARIOS))]


def run_case(case):
    fails, facts = [], {}
    rng = random.Random(case['seed'])
    try:
        with warnings.catch_warnings():
            warnings.simplefilter('ignore')
            SCENARIOS[case['name']](rng, fails, facts)
    except Exception as e:  # noqa: BLE001
        fails.append(('property', f'api.{case["name"]}.error.{type(e).__name__}', traceback.format_exc()[-1500:]))
    return fails, facts
