"""C07 extension round: correspondence + oracle for the newly modelled code

  A  `MPS.from_product_mps_covering` tensor assembly (and `from_singlets` through it)   -> Lean `C07Ext.coverChain`
  B  `MPS.get_total_charge` / `MPS.gauge_total_charge`                                  -> Lean `getTotalCharge`, `gaugeTotalCharge`
  C  `_parse_form`, `convert_form(arg)`, guards of `get_theta`, bond selection of `entanglement_entropy`

Every case is a small JSON dict `{kind:'ext', sub:..., seed:...}`; everything random is derived from `seed`.
The Lean side is `lean/drivers/C07ext.lean` (own driver: the driver C07.lean is shared with C08/C09).
"""
import itertools
import random
import warnings

import numpy as np

from harness import mps_common as mc

SUBS = ['cover', 'cover', 'cover', 'charge', 'charge', 'charge', 'glue_parse', 'glue_convert', 'glue_theta',
        'glue_entropy', 'pstate', 'pstate', 'pstate', 'pstate']
TOL = 1e-10


def gen_ext(rng, n):
    return [dict(kind='ext', sub=SUBS[k % len(SUBS)], seed=rng.getrandbits(31)) for k in range(n)]


def eval_ext(case):
    sub = case['sub']
    with warnings.catch_warnings():
        warnings.simplefilter('ignore')
        if sub == 'cover':
            ev = eval_cover(case)
        elif sub == 'charge':
            ev = eval_charge(case)
        elif sub == 'glue_parse':
            ev = eval_parse(case)
        elif sub == 'glue_convert':
            ev = eval_convert(case)
        elif sub == 'glue_theta':
            ev = eval_theta(case)
        elif sub == 'glue_entropy':
            ev = eval_entropy(case)
        elif sub == 'pstate':
            ev = eval_pstate(case)
        else:
            raise ValueError(sub)
    ev.setdefault('hist', []).append('ext=' + sub)
    return ev


# ----------------------------------------------------------------------------------------------------------------
# A: covering

BOSONIC = [('SpinHalf', None), ('Spin1', None), ('Boson2', None), ('Boson1', 'N'), ('SpinHalf', 'Sz'), ('Spin1', 'Sz'),
           ('SpinHalf', 'parity'), ('Boson2', 'parity'), ('Spin32', 'Sz')]


def dense_to_chain(v):
    """own right-canonical chain of a dense local state (numpy SVD, no tenpy): list of B (vL,p,vR) and the singular
    values right of every site."""
    dims = v.shape
    n = len(dims)
    Bs, SRs = [None] * n, [None] * n
    psi = v.reshape(-1, 1)
    chiR = 1
    SRs[n - 1] = np.ones(1)
    for i in range(n - 1, 0, -1):
        M = psi.reshape(-1, dims[i] * chiR)
        U, S, Vh = np.linalg.svd(M, full_matrices=False)
        keep = S > 1e-13 * S[0]
        U, S, Vh = U[:, keep], S[keep], Vh[keep]
        Bs[i] = Vh.reshape(len(S), dims[i], chiR)
        SRs[i - 1] = S / np.linalg.norm(S)
        psi = U * S
        chiR = len(S)
    Bs[0] = psi.reshape(1, dims[0], chiR)
    return Bs, SRs


def enc_site(B):
    d = mc.enc_flat(B)
    d.update(dL=B.shape[0], d=B.shape[1], dR=B.shape[2])
    return d


def dec_site(s):
    return mc.dec_list(s).reshape(s['dL'], s['d'], s['dR'])


def eval_cover(case):
    from tenpy.networks.mps import MPS
    rnd = random.Random(case['seed'])
    nprng = np.random.default_rng(case['seed'])
    kind = rnd.choice(BOSONIC)
    charged = kind[1] is not None
    d = mc.site_dim(kind[0])
    L = rnd.randint(2, 6 if d == 2 else (5 if d == 3 else 4))
    site = mc.make_site(*kind)
    sites = [site] * L
    cplx = rnd.random() < 0.3
    # partition of the sites into local MPS of 1..3 sites, interleaved
    idx = list(range(L))
    rnd.shuffle(idx)
    maps, pos = [], 0
    while pos < L:
        k = min(rnd.choice([1, 2, 2, 3]), L - pos)
        maps.append(sorted(idx[pos:pos + k]))
        pos += k
    unsorted = rnd.random() < 0.25
    if unsorted:
        for m in maps:
            rnd.shuffle(m)
    bc = rnd.choice(['finite', 'finite', 'finite', 'segment', 'infinite'])
    malformed = rnd.random() < 0.15
    hist = ['ext.cover.L=%d' % L, 'ext.cover.bc=' + bc, 'ext.cover.charged=%s' % charged,
            'ext.cover.locals=%d' % len(maps), 'ext.cover.unsorted=%s' % unsorted, 'ext.cover.malformed=%s' % malformed]
    # local states
    locals_, local_refs = [], []
    for k, m in enumerate(maps):
        lsites = [site] * len(m)
        v, q = mc.random_sector_vector(lsites, np.random.default_rng([case['seed'], 100 + k]), cplx)
        v = v / np.linalg.norm(v)
        if len(m) == 1:
            lp = MPS.from_product_state(lsites, [v.reshape(-1)], permute=False, dtype=complex if cplx else float,
                                        unit_cell_width=1)
        else:
            lp = MPS.from_full(lsites, mc.psi_to_npc(lsites, v, q), unit_cell_width=len(m))
        locals_.append(lp)
        local_refs.append(v)
    oracle, lines, expects = [], [], []
    use_maps = [list(m) for m in maps]
    if malformed:
        how = rnd.choice(['dup', 'range', 'short', 'long'])
        k = rnd.randrange(len(use_maps))
        others = [i for i in range(L) if i not in use_maps[k]]
        if how == 'dup' and not others and len(use_maps[k]) < 2:
            how = 'long'
        if how == 'dup':
            use_maps[k][-1] = rnd.choice(others) if others else use_maps[k][0]
        elif how == 'range':
            use_maps[k][-1] = use_maps[k][-1] + L * rnd.choice([1, 2])
            bc = 'finite'  # (segment / infinite: the line may legitimately wrap around the unit cell)
        elif how == 'short':
            use_maps[k] = use_maps[k][:-1]
        else:
            use_maps[k] = use_maps[k] + [L]
        hist.append('ext.cover.malformed-how=' + how)
    # the model's input: own chains of the local states on the SORTED index maps
    loc_json = []
    for m, v, lp in zip(use_maps, local_refs, locals_):
        order = sorted(range(len(m)), key=lambda t: m[t])
        if len(m) == v.ndim:
            vs = np.transpose(v, order)
            Bs, SRs = dense_to_chain(vs)
        else:  # malformed lengths: hand over the tensors of the local MPS as they are
            Bs, SRs = dense_to_chain(v)
        loc_json.append(dict(im=sorted(m), sites=[enc_site(B) for B in Bs], sr=[mc.bits(s) for s in SRs]))
    line_own = dict(op='cover', L=sum(len(m) for m in use_maps), d=[d] * max(L, sum(len(m) for m in use_maps)),
                    finite=(bc == 'finite'), locals=loc_json)
    try:
        psi = MPS.from_product_mps_covering(locals_, use_maps, bc=bc, unit_cell_width=L)
        raised = None
    except Exception as e:  # noqa: BLE001
        psi, raised = None, e
    if malformed:
        lines.append(line_own)
        expects.append(('invalid', raised, 'C07.ext.cover.model-accepts-malformed'))
        if raised is None:
            # lenient acceptance (an index >= L on a finite chain is taken modulo L) is only tolerated when the
            # returned MPS is the state of the index map reduced modulo L
            ok = False
            try:
                red = [[i % L for i in m] for m in use_maps]
                if sorted(i for m in red for i in m) == list(range(L)) and all(len(m) == v.ndim for m, v in zip(red, local_refs)):
                    ref = local_refs[0]
                    for v in local_refs[1:]:
                        ref = np.multiply.outer(ref, v)
                    ref = np.transpose(ref, np.argsort([i for m in red for i in m]))
                    st = mc.np_state(psi)
                    ok = mc.close(st, ref, TOL)
            except Exception:  # noqa: BLE001
                ok = False
            if not ok:
                tag = '[index_map entry shorter than its local MPS]' if how == 'short' else ''
                oracle.append(('C07.ext.cover.malformed-index-map-accepted' + tag,
                               'from_product_mps_covering returned an MPS (L=%d) for index_map %r and local MPS of '
                               'lengths %r' % (psi.L, use_maps, [lp.L for lp in locals_])))
        return dict(oracle=oracle, lines=lines, compare=_mk_compare(expects), nontrivial=True, hist=hist)
    if raised is not None:
        if charged:
            # known finding of the main part (virtual legs of from_full not in ascending charge order)
            return dict(skip='ext.cover: charged local MPS refused (known finding of the main part)', hist=hist)
        oracle.append(('C07.ext.cover.raises:%s' % type(raised).__name__, repr(raised)[:300]))
        return dict(oracle=oracle, hist=hist, nontrivial=True)
    # dense reference
    ref = local_refs[0]
    for v in local_refs[1:]:
        ref = np.multiply.outer(ref, v)
    order = [i for m in maps for i in m]
    ref = np.transpose(ref, np.argsort(order))
    chi = psi.chi
    nontrivial = bool(chi) and max(chi) > 1
    hist.append('ext.cover.chimax=%d' % (max(chi) if chi else 1))
    Bs_impl, Ss_impl, forms, _ = mc.stored_tensors(psi)
    if bc != 'infinite':
        st = mc.np_theta(psi, 0, L)
        st = st.reshape(st.shape[1:-1]) * psi.norm
        if not mc.close(st, ref, TOL):
            oracle.append(('C07.ext.cover.state', 'stored tensors vs product of the local states: %.3g' % mc.maxerr(st, ref)))
    # singular values: normalised, and the multiset on every bond = products of the local Schmidt values
    for b, S in enumerate(Ss_impl):
        if S is not None and abs(np.sum(S ** 2) - 1) > 1e-10:
            oracle.append(('C07.ext.cover.S-normalised', 'bond %d: sum S^2 = %r' % (b, float(np.sum(S ** 2)))))
            break
    if bc == 'finite' and L >= 2:
        vn = ref / np.linalg.norm(ref)
        for b in range(1, L):
            sv = np.linalg.svd(vn.reshape(int(np.prod(vn.shape[:b])), -1), compute_uv=False)
            a, c = np.sort(Ss_impl[b])[::-1], np.sort(sv)[::-1]
            n = max(len(a), len(c))
            a, c = np.pad(a, (0, n - len(a))), np.pad(c, (0, n - len(c)))
            if np.max(np.abs(a - c)) > 1e-9:
                oracle.append(('C07.ext.cover.schmidt-values', 'bond %d: %.3g' % (b, np.max(np.abs(a - c)))))
                break
    nt = psi.norm_test()
    if np.max(nt) > 1e-9:
        oracle.append(('C07.ext.cover.norm_test', '%.3g' % np.max(nt)))
    # model, state level (own local chains)
    lines.append(line_own)
    expects.append(('cover-state', dict(ref=ref, bc=bc, Ss=Ss_impl, sortS=True), 'C07.ext.cover.model-state'))
    # model, tensor level: without charges and with sorted index maps the assembled tensors are reproduced entry by entry
    if not charged and not unsorted:
        loc2 = []
        for m, lp in zip(maps, locals_):
            lp2 = lp.copy()
            lp2.convert_form('B')
            Bl = [lp2.get_B(j, 'B').itranspose(['vL', 'p', 'vR']).to_ndarray() for j in range(lp2.L)]
            loc2.append(dict(im=list(m), sites=[enc_site(B) for B in Bl],
                             sr=[mc.bits(lp2.get_SR(j)) for j in range(lp2.L)]))
        lines.append(dict(op='cover', L=L, d=[d] * L, finite=(bc == 'finite'), locals=loc2))
        expects.append(('cover-tensors', dict(Bs=Bs_impl, Ss=Ss_impl, bc=bc), 'C07.ext.cover.model-tensors'))
    return dict(oracle=oracle, lines=lines, compare=_mk_compare(expects), nontrivial=nontrivial, hist=hist)


def _mk_compare(expects):
    def compare(outs):
        bad = []
        for (what, want, sig), out in zip(expects, outs):
            if 'error' in out:
                bad.append((sig, 'driver error ' + str(out['error'])[:200]))
                continue
            fn = COMPARERS[what]
            msg = fn(want, out)
            if msg:
                bad.append((sig, msg))
        return bad
    return compare


def cmp_invalid(raised, out):
    if out.get('valid', True):
        return 'model accepts an index map the implementation %s' % ('refuses' if raised is not None else 'also accepts')
    return None


def cmp_cover_state(want, out):
    if not out.get('valid'):
        return 'model refuses a valid index map'
    lit, fast = mc.dec_list(out['lit']), mc.dec_list(out['fast'])
    if not mc.close(lit, fast, 1e-13):
        return 'driver: tabulated chain differs from the literal coverChain'
    if want['bc'] != 'infinite':
        got = mc.dec_list(out['state'])
        if not mc.close(got, want['ref'].ravel(), TOL):
            return 'model state vs product of local states: %.3g' % mc.maxerr(got, want['ref'].ravel())
    L = len(out['sites'])
    for b in range(L + 1):
        S = want['Ss'][b] if b < len(want['Ss']) else None
        if S is None:
            continue
        got = np.sort(mc.dec_list(out['bonds'][b]).real)[::-1]
        a = np.sort(S)[::-1]
        n = max(len(a), len(got))
        a, got = np.pad(a, (0, n - len(a))), np.pad(got, (0, n - len(got)))
        if np.max(np.abs(a - got)) > 1e-9:
            return 'singular values on bond %d: model %r implementation %r' % (b, got.tolist(), a.tolist())
    return None


def cmp_cover_tensors(want, out):
    if not out.get('valid'):
        return 'model refuses a valid index map'
    for i, (s, B) in enumerate(zip(out['sites'], want['Bs'])):
        got = dec_site(s)
        if got.shape != B.shape:
            return 'site %d: shape model %r implementation %r' % (i, got.shape, B.shape)
        if not np.array_equal(got, B):
            return 'site %d: assembled tensor differs entry-wise (max %.3g)' % (i, np.max(np.abs(got - B)))
    for b, S in enumerate(want['Ss']):
        if S is None:
            continue
        got = mc.dec_list(out['bonds'][b]).real
        if got.shape != S.shape or np.max(np.abs(got - S)) > 1e-15:
            return 'singular values on bond %d (in order): model %r implementation %r' % (b, got.tolist(), S.tolist())
    return None


# ----------------------------------------------------------------------------------------------------------------
# B: charges

CHARGED = [k for k in mc.SITE_KINDS if k[1] is not None and k[1] != (None, None)]


def leg_json(leg):
    q = leg.to_qflat()
    return dict(q=[[int(x) for x in row] for row in q], pos=bool(leg.qconj == 1))


def charge_dump(psi):
    sites = []
    for i, B in enumerate(psi._B):
        Bd = B.itranspose(['vL', 'p', 'vR']) if B.get_leg_labels() != ['vL', 'p', 'vR'] else B
        arr = Bd.to_ndarray()
        sites.append(dict(vL=leg_json(Bd.get_leg('vL')), vR=leg_json(Bd.get_leg('vR')),
                          qp=[[int(x) for x in row] for row in Bd.get_leg('p').to_qflat() * Bd.get_leg('p').qconj],
                          qtot=[int(x) for x in Bd.qtotal], nz=[int(x) for x in (np.abs(arr) > 0).ravel()]))
    return sites


def charge_state(rnd, case):
    """a random charged MPS: finite (from_full / random tensors / product state), segment or infinite."""
    from tenpy.networks.mps import MPS
    how = rnd.choice(['full', 'full', 'randB', 'product', 'segment', 'infinite', 'inverted'])
    for _ in range(50):
        k = rnd.choice(CHARGED)
        d = mc.site_dim(k[0])
        L = rnd.randint(2, 5 if d <= 3 else 3)
        spec = {'kinds': [[k[0], list(k[1]) if isinstance(k[1], tuple) else k[1]]] * L}
        base = dict(seed=case['seed'], complex=rnd.random() < 0.3, sites=spec)
        try:
            if how in ('full', 'segment', 'inverted'):
                st = mc.build_state(dict(base, kind='full', form=rnd.choice(['A', 'B', 'C', None]), normalize=True))
                psi = st['psi']
                if how == 'segment' and L >= 3:
                    first = rnd.randint(0, L - 2)
                    last = rnd.randint(first + 1, L - 1)
                    psi = psi.extract_segment(first, last)
                    if rnd.random() < 0.6:
                        psi.canonical_form_finite()  # sets segment_boundaries
                if how == 'inverted':
                    psi.spatial_inversion()
            elif how == 'randB':
                st = mc.build_state(dict(base, kind='randB', max_mult=rnd.choice([1, 2]), canon=True))
                psi = st['psi']
            elif how == 'product':
                st = mc.build_state(dict(base, kind='product', p_modes=['label'] * L, permute=True, form='B'))
                psi = st['psi']
            else:
                sites = mc.build_sites(spec)
                labs = [rnd.choice(sorted(s.state_labels)) for s in sites]
                psi = MPS.from_product_state(sites, labs, bc='infinite', unit_cell_width=L)
            return how, psi
        except Exception:  # noqa: BLE001  (generator: incompatible combination)
            continue
    raise RuntimeError('generator')


def shifted_leg(leg, shift, flip):
    """a LegCharge with the same block structure whose charges are shifted by `shift` (optionally stored with the
    opposite qconj, denoting the same charges)."""
    from tenpy.linalg import charges as ch
    chinfo = leg.chinfo
    eff = leg.charges * leg.qconj + np.asarray(shift)[None, :]
    qconj = -leg.qconj if flip else leg.qconj
    return ch.LegCharge.from_qind(chinfo, leg.slices, chinfo.make_valid(eff * qconj), qconj)


def eval_charge(case):
    rnd = random.Random(case['seed'])
    how, psi = charge_state(rnd, case)
    chinfo = psi.chinfo
    nq = chinfo.qnumber
    mods = [int(m) for m in chinfo.mod]
    L = psi.L
    # a good share of the finite / boundary-free segment chains gets a left-most virtual leg with a NONZERO charge:
    # from_product_state(chargeL=...), or a gauge to a shifted vL_leg; then canonical_form / convert_form
    pre = 'none'
    if psi.bc in ('finite', 'segment') and psi.segment_boundaries[0] is None and rnd.random() < 0.6:
        shift = [rnd.choice([-2, -1, 1, 2, 3]) for _ in range(nq)]
        if how == 'product' and rnd.random() < 0.6:
            from tenpy.networks.mps import MPS
            labs = [rnd.choice(sorted(st_.state_labels)) for st_ in psi.sites]
            psi = MPS.from_product_state(psi.sites, labs, bc=psi.bc, chargeL=shift, form=rnd.choice(['A', 'B', 'C']),
                                         unit_cell_width=L)
            pre = 'chargeL'
        else:
            try:
                psi.gauge_total_charge(vL_leg=shifted_leg(psi._B[0].get_leg('vL'), shift, False))
                pre = 'vL_leg'
            except ValueError:
                pre = 'none'
        if pre != 'none' and psi.bc == 'finite':
            r = rnd.random()
            if r < 0.3:
                psi.canonical_form()
                pre += '+canonical_form'
            elif r < 0.6 and all(f is not None for f in psi.form):
                psi.convert_form('A')
                pre += '+convert_form'
    hist = ['ext.charge.how=' + how, 'ext.charge.pre=' + pre, 'ext.charge.bc=' + psi.bc, 'ext.charge.L=%d' % L,
            'ext.charge.mod=%s' % mods]
    oracle, lines, expects = [], [], []
    U, V = psi.segment_boundaries
    seg = None if U is None else [[int(x) for x in U.qtotal], [int(x) for x in V.qtotal]]
    line = dict(op='charge', mod=mods, bc=psi.bc, sites=charge_dump(psi), seg=seg)
    tot = psi.get_total_charge()
    try:
        totp = psi.get_total_charge(only_physical_legs=True)
        totp_err = None
    except ValueError as e:
        totp, totp_err = None, e
    if (psi.bc == 'finite') != (totp_err is None):
        oracle.append(('C07.ext.charge.only_physical_legs-guard', 'bc=%s raised=%r' % (psi.bc, totp_err)))
    # independent oracle: the charge of a basis configuration in the support of the dense state
    if psi.bc == 'finite':
        st = mc.np_state(psi)
        idx = tuple(int(x) for x in np.unravel_index(int(np.argmax(np.abs(st))), st.shape))
        q = np.sum([s.leg.to_qflat()[i] for s, i in zip(psi.sites, idx)], axis=0)
        want = want_phys = chinfo.make_valid(q)
        if totp is not None and np.any(totp != want):
            oracle.append(('C07.ext.charge.total-physical', 'get_total_charge(True)=%r, support has %r' % (totp, want)))
    # gauge
    mode = rnd.choice(['none', 'one', 'one', 'persite', 'persite', 'legs', 'legs', 'legs-bad', 'wronglen'])
    kw, gj = {}, {}
    def rq():
        return [rnd.randint(-2, 3) for _ in range(nq)]
    if mode == 'one':
        q = rq()
        kw['qtotal'], gj['qtotal'] = q, q
    elif mode == 'persite':
        qs = [rq() for _ in range(L)]
        kw['qtotal'], gj['qtotal'] = qs, qs
    elif mode == 'wronglen':
        qs = [rq() for _ in range(L + rnd.choice([-1, 1, 2]))]
        if len(qs) == 0:
            qs = [rq() for _ in range(L + 1)]
        kw['qtotal'], gj['qtotal'] = qs, qs
    elif mode in ('legs', 'legs-bad'):
        legL = psi._B[0].get_leg('vL')
        legR = psi._B[-1].get_leg('vR')
        which = rnd.choice(['both', 'both', 'L', 'R'])
        if rnd.random() < 0.4 and legL.ind_len == 1 and legR.ind_len == 1:
            # exactly what from_product_mps_covering asks for
            from tenpy.linalg import np_conserved as npc
            triv = npc.LegCharge(chinfo, [0, 1], [chinfo.make_valid()])
            nl, nr = triv, triv.conj()
        else:
            nl = shifted_leg(legL, rq(), rnd.random() < 0.3)
            nr = shifted_leg(legR, rq(), rnd.random() < 0.3)
        if psi.bc == 'infinite' and rnd.random() < 0.7:
            nr = nl.conj()
        if mode == 'legs-bad' and which != 'L':
            # a right leg that cannot be reached once the left leg and the per-site totals are fixed
            qs = [rq() for _ in range(L)]
            kw['qtotal'], gj['qtotal'] = qs, qs
        if which in ('both', 'L'):
            kw['vL_leg'], gj['vL_leg'] = nl, leg_json(nl)
        if which in ('both', 'R'):
            kw['vR_leg'], gj['vR_leg'] = nr, leg_json(nr)
        hist.append('ext.charge.legs=' + which)
    hist.append('ext.charge.gauge=' + mode)
    line['gauge'] = gj
    p2 = psi.copy()
    before = [B.to_ndarray().copy() for B in p2._B]
    try:
        p2.gauge_total_charge(**kw)
        gerr = None
    except NotImplementedError:
        gerr = 'NotImplementedError'
    except AssertionError:
        gerr = 'AssertionError'
    except ValueError as e:
        gerr = 'ValueError:shape' if 'shape' in str(e) else 'ValueError:leg'
    if gerr is not None and mode in ('none', 'one', 'persite') and psi.bc == 'finite':
        oracle.append(('C07.ext.charge.gauge-raises', 'gauge_total_charge(%r) on a %s MPS raises %s' % (gj, psi.bc, gerr)))
    if gerr == 'AssertionError':
        oracle.append(('C07.ext.charge.gauge-assert', 'the assert in gauge_total_charge fired for %r' % (gj,)))
    if gerr is None:
        after = [B.to_ndarray() for B in p2._B]
        if any(not np.array_equal(a, b) for a, b in zip(before, after)):
            oracle.append(('C07.ext.charge.gauge-changes-tensors', 'entries changed'))
        try:
            p2.test_sanity()
            for B in p2._B:
                B.test_sanity()
        except Exception as e:  # noqa: BLE001
            oracle.append(('C07.ext.charge.gauge-breaks-sanity', repr(e)[:200]))
        if nq > 0 and 'qtotal' in kw:
            want = chinfo.make_valid(np.sum(np.asarray(kw['qtotal']).reshape(-1, nq), axis=0))
            if np.any(p2.get_total_charge() != want):
                oracle.append(('C07.ext.charge.gauge-total', 'requested %r got %r' % (want, p2.get_total_charge())))
        if psi.bc == 'finite':
            # whatever the virtual legs were gauged to: the physical total charge is the charge sector of the dense state
            if np.any(p2.get_total_charge(True) != want_phys):
                oracle.append(('C07.ext.charge.total-physical-after-gauge', 'get_total_charge(True)=%r after gauge_total_charge(%r), '
                               'support has %r' % (p2.get_total_charge(True), gj, want_phys)))
        if psi.bc == 'finite' and 'vL_leg' not in kw and 'vR_leg' not in kw:
            if np.any(p2.get_total_charge(True) != totp):
                oracle.append(('C07.ext.charge.gauge-physical-charge', '%r -> %r' % (totp, p2.get_total_charge(True))))
    lines.append(line)
    expects.append(('charge', dict(tot=tot, totp=totp, gerr=gerr, after=(charge_dump(p2) if gerr is None else None),
                                   tot2=(p2.get_total_charge() if gerr is None else None), L=L, nq=nq),
                    'C07.ext.charge.model'))
    return dict(oracle=oracle, lines=lines, compare=_mk_compare(expects), nontrivial=True, hist=hist)


def cmp_charge(want, out):
    def vec(x):
        return None if x is None else [int(v) for v in x]
    if out['total'] != vec(want['tot']):
        return 'get_total_charge(): model %r implementation %r' % (out['total'], vec(want['tot']))
    if out['total_phys'] != vec(want['totp']):
        return 'get_total_charge(only_physical_legs): model %r implementation %r' % (out['total_phys'], vec(want['totp']))
    if not all(out['rule']):
        return 'charge rule violated by the stored tensors according to the model: %r' % (out['rule'],)
    if not all(out['contractible']):
        return 'model: neighbouring legs not contractible %r' % (out['contractible'],)
    g = out['gauge']
    if want['gerr'] is not None:
        if g.get('error') != want['gerr']:
            return 'gauge_total_charge: implementation raises %s, model %r' % (want['gerr'], g.get('error', 'ok'))
        return None
    if 'error' in g:
        return 'gauge_total_charge: model raises %s, implementation does not' % g['error']
    for i, (a, b) in enumerate(zip(g['ok'], want['after'])):
        for key in ('vL', 'vR'):
            if a[key] != b[key]:
                return 'gauge_total_charge: leg %s of site %d: model %r implementation %r' % (key, i, a[key], b[key])
        if a['qtot'] != b['qtot']:
            return 'gauge_total_charge: qtotal of site %d: model %r implementation %r' % (i, a['qtot'], b['qtot'])
    if g['total'] != vec(want['tot2']):
        return 'get_total_charge() after gauging: model %r implementation %r' % (g['total'], vec(want['tot2']))
    if not all(g['rule']) or not all(g['contractible']):
        return 'model: charge rule / contractibility lost by gauging'
    return None


# ----------------------------------------------------------------------------------------------------------------
# C: glue

NAMES = ['A', 'B', 'C', 'G', 'Th']


def rand_form_arg(rnd, L):
    """-> (python argument, JSON argument)"""
    def entry():
        r = rnd.random()
        if r < 0.55:
            n = rnd.choice(NAMES)
            return n, n
        if r < 0.7:
            return None, None
        if r < 0.9:
            f = rnd.choice([(2, 0), (0, 2), (1, 1), (0, 0), (2, 2)])
            return (f[0] / 2.0, f[1] / 2.0), list(f)
        bad = rnd.choice(['X', 'a', 'BB', 'none', ''])
        return bad, bad
    r = rnd.random()
    if r < 0.15:
        f = rnd.choice([(2, 0), (0, 2), (1, 1), (0, 0), (2, 2)])
        return (f[0] / 2.0, f[1] / 2.0), {'t': list(f)}
    if r < 0.4:
        p, j = entry()
        if isinstance(p, tuple):
            return p, {'t': j}
        return p, {'s': j}
    n = rnd.choice([L, L, L, 1, L + 1, max(0, L - 1), 0, 2])
    es = [entry() for _ in range(n)]
    return [e[0] for e in es], {'l': [e[1] for e in es]}


def eval_parse(case):
    rnd = random.Random(case['seed'])
    L = rnd.randint(1, 5)
    st = mc.build_state(dict(kind='product', seed=case['seed'], complex=False, sites={'kinds': [['SpinHalf', None]] * L},
                             p_modes=['label'] * L, permute=True, form='B'))
    psi = st['psi']
    lines, expects = [], []
    for _ in range(12):
        parg, jarg = rand_form_arg(rnd, L)
        try:
            got = psi._parse_form(parg)
            want = ('ok', [None if f is None else [int(round(2 * f[0])), int(round(2 * f[1]))] for f in got])
        except ValueError:
            want = ('err', 'ValueError:len')
        except KeyError:
            want = ('err', 'KeyError')
        lines.append(dict(op='parseForm', L=L, arg=jarg))
        expects.append(('parse', (want, jarg), 'C07.ext.glue.parse_form'))
    return dict(oracle=[], lines=lines, compare=_mk_compare(expects), nontrivial=True, hist=['ext.parse.L=%d' % L])


def cmp_parse(want, out):
    (kind, val), jarg = want
    if kind == 'ok':
        if out.get('ok') != val:
            return '_parse_form(%r): implementation %r model %r' % (jarg, val, out)
    elif out.get('err') != val:
        return '_parse_form(%r): implementation raises %s, model %r' % (jarg, val, out)
    return None


def eval_convert(case):
    rnd = random.Random(case['seed'])
    L = rnd.randint(2, 4)
    kinds = rnd.choice([[['SpinHalf', None]] * L, [['SpinHalf', 'Sz']] * L, [['Spin1', 'parity']] * L, [['Boson2', 'N']] * L])
    names = rnd.choice([['A'], ['B'], ['C'], ['A', 'B', 'C', 'G', 'Th']])
    forms = [list(mc.HALF[rnd.choice(names)]) for _ in range(L)]
    noncanon = rnd.random() < 0.3
    if noncanon:
        forms[rnd.randrange(L)] = None
    bcase = dict(kind='book', seed=case['seed'], complex=rnd.random() < 0.3, sites={'kinds': kinds}, max_mult=rnd.choice([1, 2]),
                 entries='int', forms=forms)
    st = mc.build_state(bcase)
    psi = st['psi']
    parg, jarg = rand_form_arg(rnd, L)
    hist = ['ext.convert.L=%d' % L, 'ext.convert.noncanonical=%s' % noncanon, 'ext.convert.arg=' + next(iter(jarg))]
    oracle = []
    dump = mc.dump_mps(psi)
    p2 = psi.copy()
    ref = None
    if not noncanon:
        ref = mc.np_state(psi)
    try:
        p2.convert_form(parg)
        err = None
    except KeyError:
        err = 'KeyError'
    except ValueError as e:
        err = 'ValueError:len' if 'Wrong len' in str(e) else 'ValueError:noncanonical'
    hist.append('ext.convert.err=%s' % err)
    Bs, Ss, fs, nrm = mc.stored_tensors(p2)
    if err is None and ref is not None and all(f is not None for f in fs):
        st2 = mc.np_state(p2)
        if not mc.close(st2, ref, 1e-10 * max(1.0, float(np.max(np.abs(ref))))):
            oracle.append(('C07.ext.convert.state-changed', 'convert_form(%r): %.3g' % (parg, mc.maxerr(st2, ref))))
        if p2.norm != psi.norm:
            oracle.append(('C07.ext.convert.norm-changed', '%r -> %r' % (psi.norm, p2.norm)))
    if err is None and parg is None:
        B0 = mc.stored_tensors(psi)[0]
        if any(f is not None for f in fs) or any(not np.array_equal(a, b) for a, b in zip(Bs, B0)):
            oracle.append(('C07.ext.convert.none', 'convert_form(None) must only forget the forms'))
    lines = [dict(op='convertArg', mps=dump, arg=jarg)]
    expects = [('convert', dict(Bs=Bs, forms=[mc.form_half(f) for f in fs], err=err, arg=jarg), 'C07.ext.glue.convert_form')]
    return dict(oracle=oracle, lines=lines, compare=_mk_compare(expects), nontrivial=True, hist=hist)


def cmp_convert(want, out):
    if out.get('err') != want['err']:
        return 'convert_form(%r): implementation %r, model %r' % (want['arg'], want['err'], out.get('err'))
    for i, (s, B) in enumerate(zip(out['sites'], want['Bs'])):
        got = dec_site(s)
        if got.shape != B.shape or not mc.close(got, B, 1e-12 * max(1.0, float(np.max(np.abs(B))) if B.size else 1.0)):
            return 'convert_form(%r): tensor of site %d differs (err=%r)' % (want['arg'], i, want['err'])
        if s['form'] != want['forms'][i]:
            return 'convert_form(%r): form of site %d: model %r implementation %r' % (want['arg'], i, s['form'], want['forms'][i])
    return None


def eval_theta(case):
    rnd = random.Random(case['seed'])
    L = rnd.randint(1, 4)
    bc = rnd.choice(['finite', 'finite', 'segment', 'infinite'])
    forms = [rnd.choice(['A', 'B', 'C', 'G', 'Th']) for _ in range(L)]
    from tenpy.networks.mps import MPS
    sites = mc.build_sites({'kinds': [['SpinHalf', None]] * L})
    psi = MPS.from_product_state(sites, ['up'] * L, bc=bc, form=forms, unit_cell_width=L)
    if rnd.random() < 0.5:
        k = rnd.randrange(L)
        psi.form[k] = None
    queries, res, oracle = [], [], []
    for _ in range(14):
        i = rnd.randint(-L - 2, 2 * L + 1)
        n = rnd.choice([1, 1, 2, 2, 3, 0, -1, L, L + 1])
        try:
            psi.get_theta(i, n)
            r = None
        except ValueError as e:
            m = str(e)
            r = ('ValueError:noncanonical' if 'non-canonical' in m else 'ValueError:bounds' if 'out of bounds' in m
                 else 'ValueError:n' if 'larger than 0' in m else 'ValueError:?' + m[:40])
        queries.append([i, n])
        res.append(r)
        # documented behaviour, stated directly: n >= 1 sites, all inside the chain and canonical
        fin = bc != 'infinite'
        window_ok = all(((-L <= j < L) if fin else True) and psi.form[j % L] is not None for j in range(i, i + max(n, 0)))
        if (r is None) != (n >= 1 and window_ok):
            oracle.append(('C07.ext.theta.guard', 'get_theta(%d, %d) on bc=%s L=%d forms=%r: %s' % (
                i, n, bc, L, psi.form, 'returned a tensor' if r is None else 'raised ' + r)))
    line = dict(op='thetaGuard', L=L, bc=bc, forms=[mc.form_half(f) for f in psi.form], queries=queries)
    expects = [('theta', dict(res=res, queries=queries, bc=bc, forms=line['forms']), 'C07.ext.glue.get_theta-guards')]
    return dict(oracle=oracle[:1], lines=[line], compare=_mk_compare(expects), nontrivial=True,
                hist=['ext.theta.bc=' + bc, 'ext.theta.L=%d' % L])


def cmp_theta(want, out):
    if out['res'] != want['res']:
        for q, a, b in zip(want['queries'], want['res'], out['res']):
            if a != b:
                return 'get_theta%r on bc=%s forms=%r: implementation %r model %r' % (tuple(q), want['bc'], want['forms'], a, b)
    return None


def eval_entropy(case):
    rnd = random.Random(case['seed'])
    how = rnd.choice(['finite', 'finite', 'segment', 'infinite'])
    oracle = []
    if how == 'infinite':
        k = rnd.choice([('SpinHalf', None), ('Spin1', 'parity'), ('Fermion', 'parity')])
        L = rnd.randint(1, 3)
        icase = dict(kind='inf', seed=case['seed'], complex=False, sites={'kinds': [[k[0], k[1]]] * L},
                     chi=[rnd.randint(2, 3) for _ in range(L)], method=1, renormalize=True, window=1)
        psi = mc.build_infinite(icase)['psi']
        psi.canonical_form()
    else:
        L = rnd.randint(2, 5)
        spec = mc.gen_site_spec(rnd, L, dmax=256)
        st = mc.build_state(dict(kind='full', seed=case['seed'], complex=rnd.random() < 0.3, sites=spec, form='B', normalize=True))
        psi = st['psi']
        if how == 'segment' and L >= 3:
            first = rnd.randint(0, L - 2)
            psi = psi.extract_segment(first, rnd.randint(first + 1, L - 1))
    L = psi.L
    ibs = [rnd.randint(-1, L + 2) for _ in range(6)] + [0, L]
    res = []
    for ib in ibs:
        try:
            s2 = float(psi.entanglement_entropy(n=2, bonds=[ib])[0])
            s3 = float(psi.entanglement_entropy(n=3, bonds=ib)[0])
            res.append([float(np.exp(-s2)), float(np.exp(-2 * s3))])
            if 0 <= ib <= L or psi.bc == 'infinite':
                # the documented cut: singular values stored on bond ib (modulo L on an infinite chain)
                S = psi._S[ib % L if psi.bc == 'infinite' else ib]
                if abs(np.sum(np.asarray(S) ** 4) - res[-1][0]) > 1e-9:
                    oracle.append(('C07.ext.entropy.cut-uses-other-bond', 'entanglement_entropy(n=2, bonds=[%d]) on bc=%s '
                                   'L=%d is not the Renyi entropy of the stored S of that bond' % (ib, psi.bc, L)))
        except ValueError:
            res.append(None)
    default = psi.entanglement_entropy(n=2)
    # oracle: default cuts of a finite chain = dense Renyi-2 entropies
    if psi.bc == 'finite':
        vn = mc.np_state(psi)
        vn = vn / np.linalg.norm(vn)
        want = []
        for b in range(1, L):
            sv = np.linalg.svd(vn.reshape(int(np.prod(vn.shape[:b])), -1), compute_uv=False)
            want.append(-np.log(np.sum(sv ** 4)))
        if not mc.close(default, np.array(want), 1e-8):
            oracle.append(('C07.ext.entropy.renyi2-vs-dense', 'err %.3g' % mc.maxerr(default, np.array(want))))
    bonds = [mc.bits(np.ones(1) if s is None else s) for s in psi._S]
    line = dict(op='entropy', bc=psi.bc, L=L, bonds=bonds, ibs=ibs, ns=[2, 3])
    expects = [('entropy', dict(res=res, ibs=ibs, default=[float(np.exp(-x)) for x in default], bc=psi.bc, L=L),
                'C07.ext.glue.entropy-bonds')]
    return dict(oracle=oracle[:2], lines=[line], compare=_mk_compare(expects), nontrivial=True,
                hist=['ext.entropy.bc=' + psi.bc, 'ext.entropy.L=%d' % L])


def cmp_entropy(want, out):
    for ib, a, b in zip(want['ibs'], want['res'], out['res']):
        if (a is None) != (b is None):
            return 'entanglement_entropy(bonds=[%d]) on bc=%s L=%d: implementation %s, model %s' % (
                ib, want['bc'], want['L'], 'raises' if a is None else 'ok', 'refuses' if b is None else 'ok')
        if a is not None:
            got = mc.dec_list(b['renyi']).real
            if not mc.close(got, np.array(a), 1e-9):
                return 'cut %d: sum p^n from S of bond %d (model) %r vs exp((1-n) S_n) %r' % (ib, b['bond'], got.tolist(), a)
    # default bonds
    byib = {}
    for ib, b in zip(want['ibs'], out['res']):
        if b is not None:
            byib[ib] = mc.dec_list(b['renyi']).real[0]
    if len(out['default']) != len(want['default']):
        return 'default cuts: model %r, implementation returns %d entropies' % (out['default'], len(want['default']))
    for k, x in zip(out['default'], want['default']):
        if k in byib and abs(byib[k] - x) > 1e-9 * (1 + abs(x)):
            return 'default cut %d: model %r implementation %r' % (k, byib[k], x)
    return None


# ----------------------------------------------------------------------------------------------------------------
# D: p_state entries (int / 1D array / label, permute on/off) on every predefined site class x conserve option


def all_site_kinds():
    out = []
    for c in (None, 'Sz', 'parity'):
        out.append(('SpinHalfSite', dict(conserve=c)))
    for s2 in (1, 2, 3, 4, 5):
        for c in (None, 'Sz', 'parity'):
            out.append(('SpinSite', dict(S=s2 / 2.0, conserve=c)))
    for c in (None, 'N', 'parity'):
        out.append(('FermionSite', dict(conserve=c)))
    for cls in ('SpinHalfFermionSite', 'SpinHalfHoleSite'):
        for cn in (None, 'N', 'parity'):
            for cs in (None, 'Sz', 'parity'):
                out.append((cls, dict(cons_N=cn, cons_Sz=cs)))
    for n in (1, 2, 3, 4, 5):
        for c in (None, 'N', 'parity'):
            out.append(('BosonSite', dict(Nmax=n, conserve=c)))
    for q in (2, 3, 4, 5):
        for c in (None, 'Z'):
            out.append(('ClockSite', dict(q=q, conserve=c)))
    return out


ALL_SITE_KINDS = all_site_kinds()
CONS_KEYS = ('conserve', 'cons_N', 'cons_Sz')


def site_pair(name, kw):
    """(site, the same site without conservation, old index -> new index through the state LABELS — independent of
    `site.perm`)."""
    from tenpy.networks import site as S
    s = getattr(S, name)(**kw)
    s0 = getattr(S, name)(**{k: (None if k in CONS_KEYS else v) for k, v in kw.items()})
    lab0 = {}
    for lab, i in sorted(s0.state_labels.items()):
        lab0.setdefault(i, []).append(lab)
    o2n = [s.state_labels[lab0[i][0]] for i in range(s0.dim)]
    return s, s0, lab0, o2n


def eval_pstate(case):
    from tenpy.networks.mps import MPS
    rnd = random.Random(case['seed'])
    nprng = np.random.default_rng(case['seed'])
    pool = ALL_SITE_KINDS
    for _ in range(100):
        name, kw = rnd.choice(pool)
        s, s0, lab0, o2n = site_pair(name, kw)
        if rnd.random() < 0.5 or o2n != list(np.argsort(o2n)):   # half of the draws insist on a non-involutive permutation
            break
    d = s.dim
    charged = s.leg.chinfo.qnumber > 0
    how = rnd.choice(['product', 'product', 'product', 'product', 'lat', 'lat', 'singlets', 'covering', 'rue'])
    if how == 'rue' and not charged:
        how = 'product'
    Lmax = max(1, int(np.log(3000) / np.log(d)))
    L = rnd.randint(1, min(5, Lmax))
    permute = rnd.random() < 0.8
    cplx = rnd.random() < 0.3
    qold = s.leg.to_qflat()[np.array(o2n)]  # charge of the OLD basis state k (through the labels)
    hist = ['ext.pstate.site=%s' % name, 'ext.pstate.cons=%s' % ','.join(str(kw[k]) for k in CONS_KEYS if k in kw),
            'ext.pstate.how=' + how, 'ext.pstate.permute=%s' % permute,
            'ext.pstate.noninvolutive=%s' % (o2n != list(np.argsort(o2n)))]
    oracle, lines, expects = [], [], []

    def draw_entry(modes=('int', 'vec', 'label')):
        """-> (p_state entry, intended local vector in the NEW basis (independent of site.perm), mode, old index|None)"""
        mode = rnd.choice(modes)
        k = rnd.randrange(d)
        if mode == 'label':
            lab = rnd.choice(lab0[k])
            want = np.zeros(d)
            want[o2n[k]] = 1.0
            return lab, want, mode, k
        if mode == 'int':
            want = np.zeros(d)
            if permute:
                want[o2n[k]] = 1.0   # `k` counts in the conserve=None order
            else:
                want[k] = 1.0        # `k` counts in the site's own order
            return k, want, mode, (k if permute else None)
        # 1D array: superposition inside one charge sector
        same = [j for j in range(d) if np.array_equal(qold[j], qold[k])] if charged else list(range(d))
        v = np.zeros(d, dtype=complex if cplx else float)
        for j in rnd.sample(same, rnd.randint(1, min(3, len(same)))):
            v[j] = rnd.choice([-1.5, -1.0, -0.5, 0.5, 1.0, 2.0]) + (1j * rnd.choice([-1.0, 0.5, 0.0]) if cplx else 0.0)
        want = np.zeros(d, dtype=v.dtype)
        if permute:
            want[np.array(o2n)] = v          # entry of old state j lands at its new index
            given = v
        else:
            # with permute=False the array is read in the site's own order: hand over the new-basis vector
            want[np.array(o2n)] = v
            given = want.copy()
        return given, want, mode, None

    dtype = complex if cplx else float
    if how in ('product', 'lat', 'rue'):
        bc = rnd.choice(['finite', 'finite', 'infinite', 'segment']) if how == 'product' else 'finite'
        if how == 'lat':
            from tenpy.models import lattice as lt
            shape = rnd.choice([(2,), (3,), (2, 2), (3, 2)]) if d <= 3 else rnd.choice([(2,), (3,), (2, 2)])
            if len(shape) == 1:
                lat = rnd.choice([lt.Chain(shape[0], s, bc='open', bc_MPS='finite'),
                                  lt.Ladder(shape[0], s, bc='open', bc_MPS='finite')]) if d <= 3 else \
                    lt.Chain(shape[0], s, bc='open', bc_MPS='finite')
            else:
                lat = lt.Square(shape[0], shape[1], s, order=rnd.choice(['default', 'snake', 'Fstyle']), bc='open',
                                bc_MPS='finite')
            modes = rnd.choice([('int',), ('label',), ('int', 'label'), ('vec',)])
            cells = np.empty(lat.shape, dtype=object)
            wants_c = {}
            for idx in itertools.product(*[range(n) for n in lat.shape]):
                e, w, m, _ = draw_entry(modes)
                cells[idx] = e
                wants_c[idx] = w
            if modes == ('vec',):
                p_arg = np.array([[cells[idx] for idx in itertools.product(*[range(n) for n in lat.shape])]],
                                 dtype=dtype).reshape(lat.shape + (d,))
            else:
                p_arg = cells
            wants = [wants_c[tuple(int(x) for x in lat.order[i])] for i in range(lat.N_sites)]
            L = lat.N_sites
            psi = MPS.from_lat_product_state(lat, p_arg, dtype=dtype, permute=permute)
            entries, labelled = None, None
        else:
            drawn = [draw_entry(('int',) if how == 'rue' else ('int', 'vec', 'label')) for _ in range(L)]
            entries = [e for e, _, _, _ in drawn]
            wants = [w for _, w, _, _ in drawn]
            labelled = [m == 'label' for _, _, m, _ in drawn]
            if how == 'rue':
                L = max(L, 3)
                while len(entries) < L:
                    e, w, m, _ = draw_entry(('int',))
                    entries.append(e); wants.append(w); labelled.append(False)
                np.random.seed(case['seed'] % (2 ** 31))
                psi = MPS.from_random_unitary_evolution([s] * L, 3, entries, bc='finite', dtype=complex, permute=permute)
                # the charge sector of the product state is kept
                qs = [s.leg.to_qflat()[int(np.argmax(np.abs(w)))] for w in wants]
                want_q = s.leg.chinfo.make_valid(np.sum(qs, axis=0))
                got_q = psi.get_total_charge(only_physical_legs=True)
                if np.any(got_q != want_q):
                    oracle.append(('C07.ext.pstate.random-unitary-charge-sector',
                                   'p_state %r on %s%r: total charge %r, product state has %r' % (entries, name, kw, got_q, want_q)))
                if abs(psi.norm - 1) > 1e-9 or np.max(psi.norm_test()) > 1e-8:
                    oracle.append(('C07.ext.pstate.random-unitary-canonical', 'norm %r' % psi.norm))
                return dict(oracle=oracle, lines=[], nontrivial=True, hist=hist)
            psi = MPS.from_product_state([s] * L, entries, bc=bc, dtype=dtype, permute=permute,
                                         form=rnd.choice(['A', 'B', 'C']), unit_cell_width=L)
        # oracle: stored tensors (bond dimension 1) = the intended local vectors, site by site, and the dense state
        Bs = mc.stored_tensors(psi)[0]
        for i, (B, w) in enumerate(zip(Bs, wants)):
            if B.shape != (1, d, 1) or not mc.close(B[0, :, 0], w, 1e-13):
                oracle.append(('C07.ext.pstate.local-state', 'site %d of %s%r, p_state entry %r, permute=%s: stored %r, '
                               'intended (new basis, via the state labels) %r' % (
                                   i, name, kw, None if entries is None else entries[i] if not isinstance(entries[i], np.ndarray) else entries[i].tolist(),
                                   permute, np.round(B[0, :, 0], 6).tolist() if B.shape == (1, d, 1) else B.shape, np.round(w, 6).tolist())))
                break
        if psi.bc == 'finite' and not oracle:
            ref = wants[0]
            for w in wants[1:]:
                ref = np.multiply.outer(ref, w)
            st = mc.np_state(psi)
            if not mc.close(st, ref, 1e-12):
                oracle.append(('C07.ext.pstate.dense-state', 'max err %.3g' % mc.maxerr(st, ref)))
        # int vs label specification of the same basis state; expectation value of a diagonal operator
        if entries is not None and all(not isinstance(e, np.ndarray) for e in entries):
            labs = []
            for e, w in zip(entries, wants):
                knew = int(np.argmax(np.abs(w)))
                labs.append([lab for lab, i in sorted(s.state_labels.items()) if i == knew][0])
            psi_l = MPS.from_product_state([s] * L, labs, bc=psi.bc, dtype=dtype, form='B', unit_cell_width=L)
            if psi.bc == 'finite':
                ov = psi.overlap(psi_l)
                if abs(ov - 1) > 1e-12:
                    oracle.append(('C07.ext.pstate.int-vs-label-overlap', 'p_state %r vs labels %r: overlap %r' % (entries, labs, ov)))
            for opn in ('Sz', 'N', 'Ntot'):
                if opn in s0.opnames and opn in s.opnames:
                    dg = np.real(np.diag(s0.get_op(opn).to_ndarray()))
                    inv = np.argsort(o2n)  # new -> old
                    want_e = [float(dg[inv[int(np.argmax(np.abs(w)))]]) for w in wants]
                    got_e = psi.expectation_value(opn)
                    if not mc.close(np.asarray(got_e, dtype=float), np.array(want_e), 1e-12):
                        oracle.append(('C07.ext.pstate.expectation-value', '<%s>: %r, the specified states have %r' % (opn, list(got_e), want_e)))
                    break
        # model: localAmp with the site's perm, compared with the stored tensors entry by entry
        if entries is not None:
            sj = []
            for e, lab in zip(entries, labelled):
                if lab:
                    ent = int(s.state_labels[e])
                elif isinstance(e, np.ndarray):
                    ent = mc.enc_flat(e)
                else:
                    ent = int(e)
                sj.append(dict(d=d, perm=[int(x) for x in s.perm], labelled=bool(lab), entry=ent))
            lines.append(dict(op='pstate', permute=permute, sites=sj))
            expects.append(('pstate', [B[0, :, 0] for B in Bs], 'C07.ext.pstate.model'))
        return dict(oracle=oracle[:2], lines=lines, compare=_mk_compare(expects), nontrivial=True, hist=hist)
    # from_singlets with int up/down and from_product_mps_covering of one-site states: both go through from_product_state
    if how == 'singlets':
        L = 2 * rnd.randint(1, max(1, min(3, Lmax) // 2 if Lmax >= 2 else 1))
        if d ** L > 5000:
            L = 2
        up, down = rnd.sample(range(d), 2)
        if charged and rnd.random() < 0.5:
            pass
        idx = list(range(L))
        rnd.shuffle(idx)
        # pairs (i, j) with i < j: for fermionic sites (SpinHalfFermion/Hole) sorting an unsorted pair swaps two fermions and
        # the sign of the singlet is a matter of convention; unsorted pairs are exercised by the main part on bosonic sites
        pairs = [tuple(sorted((idx[2 * j], idx[2 * j + 1]))) for j in range(L // 2)]
        try:
            psi = MPS.from_singlets(s, L, pairs, up=up, down=down, bc='finite', unit_cell_width=L)
        except ValueError as e:
            if 'incompatible LegCharge' in str(e):
                return dict(skip='ext.pstate: singlet covering refused (known finding of the main part)', hist=hist)
            raise
        ref = np.zeros([d] * L)
        nu, nd = o2n[up], o2n[down]
        for signs in itertools.product([0, 1], repeat=len(pairs)):
            ix, amp = [None] * L, 1.0
            for (a, b), sg in zip(pairs, signs):
                ix[a], ix[b] = (nu, nd) if sg == 0 else (nd, nu)
                amp *= (0.5 ** 0.5) * (1 if sg == 0 else -1)
            ref[tuple(ix)] += amp
        st = mc.np_state(psi)
        if not mc.close(st, ref, 1e-10):
            oracle.append(('C07.ext.pstate.singlets-int-states', 'from_singlets(up=%d, down=%d) on %s%r pairs %r: max err %.3g' % (
                up, down, name, kw, pairs, mc.maxerr(st, ref))))
        return dict(oracle=oracle, lines=[], nontrivial=True, hist=hist)
    # covering of one-site product states given as int
    L = rnd.randint(2, min(4, max(2, Lmax)))
    ks = [rnd.randrange(d) for _ in range(L)]
    locs = [MPS.from_product_state([s], [k], unit_cell_width=1) for k in ks]
    order = list(range(L))
    rnd.shuffle(order)
    psi = MPS.from_product_mps_covering(locs, [[i] for i in order], bc='finite', unit_cell_width=L)
    ref = np.zeros([d] * L)
    pos = [None] * L
    for k, i in zip(ks, order):
        pos[i] = o2n[k]
    ref[tuple(pos)] = 1.0
    st = mc.np_state(psi)
    if not mc.close(st, ref, 1e-12):
        oracle.append(('C07.ext.pstate.covering-int-states', 'one-site states %r at sites %r on %s%r: max err %.3g' % (
            ks, order, name, kw, mc.maxerr(st, ref))))
    return dict(oracle=oracle, lines=[], nontrivial=True, hist=hist)


def cmp_pstate(want, out):
    for i, (w, v) in enumerate(zip(want, out['vecs'])):
        got = mc.dec_list(v)
        if got.shape != w.shape or not np.array_equal(got, w):
            return 'site %d: model local vector %r, stored tensor %r' % (i, got.tolist(), np.asarray(w).tolist())
    return None


COMPARERS = {'pstate': cmp_pstate, 'invalid': cmp_invalid, 'cover-state': cmp_cover_state, 'cover-tensors': cmp_cover_tensors,
             'charge': cmp_charge, 'parse': cmp_parse, 'convert': cmp_convert, 'theta': cmp_theta,
             'entropy': cmp_entropy}
